#!/bin/bash
# usage: drills/run.sh <patch-file> <PROP> [tier]   -- applies the patch to a scratch copy of /repo (outside /repo and /verif),
# checks that it compiles and passes the pinned suite, runs the check against it, expects a VIOLATION, deletes the copy.
set -u
export GOFLAGS=-mod=mod GOPROXY=off GOSUMDB=off GOTOOLCHAIN=local
V="$(dirname "$(readlink -f "$0")")/.."
PATCH=$(readlink -f "$1"); PROP=$2; TIER=${3:-quick}
D=$(mktemp -d /tmp/drill.XXXXXX)
trap 'rm -rf "$D"' EXIT
rsync -a --exclude .git /repo/ "$D/repo/"
cd "$D/repo" || exit 3
if ! patch -p1 -s < "$PATCH"; then echo "DRILL $(basename $PATCH) $PROP: PATCH-DOES-NOT-APPLY"; exit 3; fi
if ! go build ./... 2>/dev/null; then echo "DRILL $(basename $PATCH) $PROP: DOES-NOT-COMPILE"; exit 3; fi
if [ -z "${DRILL_SKIP_SUITE:-}" ]; then
  if ! go test -vet=off -count=1 ./... >/dev/null 2>&1; then echo "DRILL $(basename $PATCH) $PROP: CAUGHT-BY-PINNED-SUITE (not a valid drill)"; exit 3; fi
fi
out=$(cd "$V" && VERIF_REPO="$D/repo" ./check "$PROP" "$TIER" 2>&1)
rc=$?
if echo "$out" | grep -q "^VIOLATION property=$PROP"; then
  echo "DRILL $(basename $PATCH) $PROP: DETECTED ($(echo "$out" | grep -m1 '^  key=' | cut -c1-150))"
  exit 0
fi
echo "DRILL $(basename $PATCH) $PROP: MISSED rc=$rc"; echo "$out" | tail -3 | cut -c1-300
exit 1
