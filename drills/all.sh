#!/bin/bash
# runs every drill (reverted fixes + hand-written mutations listed in drills/mutations.txt + seeded changes) against the quick
# check that is recorded as detecting it; DRILL_JOBS drills at a time (default 3)
cd "$(dirname "$(readlink -f "$0")")/.."
{ cat drills/reverts.txt; cat drills/mutations.txt 2>/dev/null; for d in seeded/*/; do p=$(python3 -c "import json;print(json.load(open('$d/meta.json'))['detected_by']['check'])"); echo "$d/patch.diff $p"; done; } | grep -v '^$' | while read f p; do
  if grep -q "^$f " drills/neutral.txt; then echo "DRILL $f $p: NEUTRAL (skipped)"; else echo "$f $p"; fi
done | grep -v '^DRILL' | xargs -P ${DRILL_JOBS:-3} -L 1 bash -c 'DRILL_SKIP_SUITE=1 drills/run.sh "$0" "$1" ${DRILL_TIER:-quick} 2>&1 | grep "^DRILL" | sed "s|patch.diff|$0|"'
grep -c . drills/neutral.txt | sed 's/$/ drills are listed as neutral (drills\/neutral.txt)/'
