#!/bin/bash
# runs every drill (reverted fixes + hand-written mutations listed in drills/mutations.txt + seeded changes) against its property's quick check
cd "$(dirname "$(readlink -f "$0")")/.."
{ cat drills/reverts.txt; cat drills/mutations.txt 2>/dev/null; for d in seeded/*/; do p=$(python3 -c "import json;print(json.load(open('$d/meta.json'))['detected_by']['check'])"); echo "$d/patch.diff $p"; done; } | while read f p; do
  [ -z "$f" ] && continue; grep -q "^$f " drills/neutral.txt && { echo "DRILL $f $p: NEUTRAL (skipped)"; continue; }
  DRILL_SKIP_SUITE=1 drills/run.sh "$f" "$p" ${DRILL_TIER:-quick} 2>&1 | grep '^DRILL' | sed "s|patch.diff|$f|"
done
