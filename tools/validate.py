#!/usr/bin/env python3
# validates MANIFEST.json and every evidence file against the schemas (run with python3-vt)
import json, sys, glob, jsonschema
ok = True
m = json.load(open('/verif/MANIFEST.json'))
jsonschema.validate(m, json.load(open('/root/.vp/MANIFEST.schema.json')))
es = json.load(open('/root/.vp/EVIDENCE.schema.json'))
props = [json.loads(l)['id'] for l in open('/verif/properties.jsonl')]
claimed = [c['property_id'] for c in m['checks']]
na = [c['property_id'] for c in m.get('not_applicable', [])]
for p in props:
    if (p in claimed) == (p in na):
        print('property', p, 'must be in exactly one of checks / not_applicable'); ok = False
for c in m['checks']:
    try:
        e = json.load(open(c['evidence_file']))
        jsonschema.validate(e, es)
        if e['level'] != c['level_claimed']['category']:
            print('level mismatch', c['property_id']); ok = False
    except Exception as ex:
        print('evidence', c['property_id'], 'invalid:', str(ex)[:300]); ok = False
print('valid' if ok else 'INVALID')
sys.exit(0 if ok else 1)
