#!/usr/bin/env python3
# regenerates drills/revert-*.patch (one reversed fix commit each) from the "fixed:" lines of known_findings.txt
import subprocess,re,glob,os
for f in glob.glob('/verif/drills/revert-*.patch'): os.remove(f)
lines=[l for l in open('/verif/known_findings.txt') if l.startswith('fixed:')]
seen=set(); rows=[]
for l in lines:
    m=re.match(r'fixed: property=(C\d+) ([0-9a-f]{7})',l)
    prop,sha=m.group(1),m.group(2)
    if sha in seen: continue
    seen.add(sha)
    patch=subprocess.run(['git','-C','/repo','show','-R','--format=',sha],capture_output=True,text=True).stdout
    fn=f'drills/revert-{prop}-{sha}.patch'
    open('/verif/'+fn,'w').write(patch); rows.append((fn,prop))
re_as={}
try:
    for l in open('/verif/drills/reassign.txt'):
        if l.startswith('#') or not l.strip(): continue
        f,pr=l.split()[:2]; re_as[f]=pr
except FileNotFoundError: pass
rows=[(f,re_as.get(f,p)) for f,p in rows]
open('/verif/drills/reverts.txt','w').write(''.join(f'{f} {p}\n' for f,p in rows))
print(len(rows),'revert drills')
