#!/usr/bin/env python3
# saveseed.py <srcdir> <seed-id> <property> <detected-key> <"needs"> [<"strengthened note">]
import sys, json, shutil, os, subprocess
src, sid, prop, key, needs = sys.argv[1:6]
note = sys.argv[6] if len(sys.argv) > 6 else ""
d = f'/verif/seeded/{sid}'
os.makedirs(d, exist_ok=True)
for f in ('patch.diff', 'demo_test.go', 'notes.md'):
    if os.path.exists(f'{src}/{f}'): shutil.copy(f'{src}/{f}', f'{d}/{f}')
head = subprocess.run(['git','-C','/repo','log','-1','--format=%h'],capture_output=True,text=True).stdout.strip()
meta = {"property": prop, "breaks": open(f'{src}/notes.md').read()[:1200] if os.path.exists(f'{src}/notes.md') else "",
 "needs_to_manifest": needs, "origin": "independent sub-agent given only the property text and a scratch worktree",
 "confirmed": f"tools/seedcheck.sh: applies to /repo {head}, go build ok, pinned suite passes with the change, demo fails with the change and passes without",
 "ran": f"drills/run.sh seeded/{sid}/patch.diff {prop} quick (scratch copy of /repo + patch, VERIF_REPO)", "detected_by": {"check": prop, "tier": "quick", "key": key},
 "history": note}
json.dump(meta, open(f'{d}/meta.json','w'), indent=1)
print("saved", d)
