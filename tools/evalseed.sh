#!/bin/bash
# usage: evalseed.sh <PROP> <outdir> : confirm the seed and run the property's quick check against it
P=$1; O=$2
/verif/tools/seedcheck.sh $O 2>&1 | tail -1
cd /verif && DRILL_SKIP_SUITE=1 drills/run.sh $O/patch.diff $P ${3:-quick} 2>&1 | grep "^DRILL" | cut -c1-260
