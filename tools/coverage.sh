#!/bin/bash
# tools/coverage.sh [tier] [ids...] : statement coverage of github.com/robfig/soy/... reached by the checks' workloads.
# Out-of-band aid for finding code no workload drives (not a registered command). Results accumulate in
# .build/cover: raw-<ID>/ per check, all.txt (merged profile), func.txt (per function), uncovered.txt (source of unreached blocks).
export GOFLAGS=-mod=mod GOPROXY=off GOSUMDB=off GOTOOLCHAIN=local
V=$(dirname "$(dirname "$(readlink -f "$0")")")
TIER=${1:-quick}; shift
IDS=${@:-C01 C02 C03 C04 C05 C06 C07 C08 C09 C10 C11 C12 C13 C14 C15 C16 C17 C18 C19 C20}
C=$V/.build/cover; mkdir -p $C
for id in $IDS; do
  rm -rf $C/raw-$id
  VERIF_REPO=${VERIF_REPO:-/repo} VERIF_COVER=$C/raw-$id $V/check $id $TIER > $C/$id.log 2>&1
  echo "$id rc=$? files=$(ls $C/raw-$id 2>/dev/null | wc -l)"
done
dirs=$(ls -d $C/raw-* | paste -sd,)
for d in $C/raw-*; do go tool covdata textfmt -i=$d -o=$d.txt; done
(echo "mode: atomic"; cat $C/raw-*.txt | grep -v "^mode:") > $C/all.raw
grep -v "^verif/" $C/all.raw > $C/all.txt
(cd /repo && go tool cover -func=$C/all.txt > $C/func.txt)
python3 - $C/all.txt > $C/uncovered.txt <<'PY'
import sys,re,collections
hit=collections.defaultdict(int)
for l in open(sys.argv[1]):
    m=re.match(r'github.com/robfig/soy/(\S+):(\d+)\.(\d+),(\d+)\.(\d+) (\d+) (\d+)',l)
    if m:
        k=(m.group(1),int(m.group(2)),int(m.group(4)))
        hit[k]+=int(m.group(7))
for (f,a,b),n in sorted(hit.items()):
    if n==0 and 'verif_' not in f:
        src=open('/repo/'+f).read().split('\n')
        print(f"--- {f}:{a}-{b}")
        for i in range(a-1,min(b,a+5)): print("    "+src[i])
PY
tail -1 $C/func.txt
