#!/bin/bash
# usage: fixcommit.sh "<commit message>"  -- runs the pinned suite (guard off and on); commits /repo only if it passes
export GOFLAGS=-mod=mod GOPROXY=off GOSUMDB=off GOTOOLCHAIN=local
cd /repo || exit 1
out=$(go test -vet=off -count=1 ./... 2>&1) || { echo "$out" | grep -v "^ok\|no test files"; echo "TESTS FAILED - not committed"; exit 1; }
out=$(go test -tags verif -vet=off -count=1 ./... 2>&1) || { echo "$out" | grep -v "^ok\|no test files"; echo "TESTS FAILED (verif tag) - not committed"; exit 1; }
git commit -qam "$1" && git log --oneline | head -1
