#!/bin/bash
# usage: tools/sweep.sh [tier] [seed...]  -- runs every claimed check; prints one line per check
cd "$(dirname "$(readlink -f "$0")")/.."
TIER=${1:-quick}; shift
SEEDS=${@:-1}
for s in $SEEDS; do
 for p in $(python3 -c "import json;print(' '.join(c['property_id'] for c in json.load(open('MANIFEST.json'))['checks']))"); do
  out=$(VERIF_SEED=$s ./check $p $TIER 2>&1); rc=$?
  echo "seed=$s $p rc=$rc $(echo "$out" | grep -E '^SUMMARY' | sed 's/SUMMARY property=[A-Z0-9]* tier=[a-z]* seed=[0-9]* //' | cut -c1-150)"
  [ $rc -ne 0 ] && echo "$out" | grep -E '^(VIOLATION|INCONCLUSIVE|KNOWN|BUILD)' -A2 | cut -c1-300 | head -12
 done
done
