#!/usr/bin/env python3
# Regenerates /verif/MANIFEST.json from the table below. Properties without a built check are
# listed under not_applicable with the reason (they are not claimed).
import json, subprocess
ENV = "GOFLAGS=-mod=mod GOPROXY=off GOSUMDB=off GOTOOLCHAIN=local"
CHECKS = {
 "C05": dict(cat="exploration", tech="runtime monitoring: child-process crash monitor + step-budget hooks in scanner/parser + RLIMIT_CPU and Go deadlock detector on isolated re-run",
   text="Process-level runtime monitoring of parse.SoyFile / parse.Expr / ParseGlobals on generated hostile inputs (all prefixes of valid files, tag-dictionary sequences in every block context, token edits, random bytes): panic at the call boundary, death of the process (scanner-goroutine panic), step budgets at hooks in the scanner and parser loops, CPU limit and deadlock detector on isolated re-runs. Held on the inputs executed, nothing more.",
   note="Termination is restated as bounded progress: at most 64*(n+64) scanner steps and token reads for n input bytes. Trusts the Go runtime, RLIMIT_CPU and the harness's input generators.", ref="DESIGN.md §6 C05, §3.3"),
 "C18": dict(cat="exploration", tech="runtime monitoring: live-scanner gauge at a hook + goroutine census (runtime.Stack) after every parse return, goroutine count at end of each sequence",
   text="After every return of parse.SoyFile / Bundle.Compile / parse.Expr / soy.ParseGlobals in long in-process sequences over the hostile input families, the hook gauge of live scanner goroutines must be back to its previous value; a census showing a scanner blocked in chan send after the return is the refuting observation; the goroutine count at the end of each sequence must equal the baseline. Held on the sequences executed.",
   note="Gauge hook (build tag verif) cross-checked against the goroutine census every 256 calls; a still-runnable scanner is waited for, never judged by time.", ref="DESIGN.md §6 C18"),
 "C02": dict(cat="exploration", tech="runtime monitoring: reference-model monitor (independent renderer over the harness's own syntax trees) comparing every Tofu.Render of generated bundles",
   text="Seeded valid bundles from the whole command grammar are compiled and rendered by the real code; every output/error is compared with an independent reference renderer implementing the language's block scoping and call data passing. Held on the bundles and data executed.",
   note="Trusted: the reference renderer and generator in /verif/harness (ref, gen); outputs compared modulo character-reference spelling; cases the language does not pin down are dropped and counted.", ref="DESIGN.md §6 C02, §5.2"),
 "C01": dict(cat="exploration", tech="runtime monitoring: reference-model monitor (independent expression evaluator) over systematic operator x operand-class x position cells and seeded random trees",
   text="Every binary operator x every ordered pair of 17 operand classes, every unary, every ordered operator pair in both nestings (minimal and redundant parentheses), every function x argument classes, every literal and data-reference form, placed in 21 syntactic positions, plus seeded random typed trees: compiled and rendered by the real code and compared with a reference evaluator (value text, must-error cases, acceptance of valid source). Held on the cells and trees executed.",
   note="Trusted: reference evaluator/printer in /verif/harness/ref (official precedence table). Out-of-domain cases (ill-typed operands, ints beyond 2^53, float text outside the dyadic zone, map order) are dropped and counted, not judged.", ref="DESIGN.md §6 C01, §5.1"),
 "C15": dict(cat="exploration", tech="runtime monitoring: reference-rule monitor over an exhaustively enumerated bounded alphabet of text runs x neighbour tags, rendered by the real code",
   text="Every string of length <=5 (thorough <=7) over {a < > space tab CR LF é} is placed as template text between 11x10 kinds of neighbouring tags, compiled and rendered; the output must equal the line-joining rule. Comment placements are compared modulo whitespace. Exhaustive for the bounded alphabet, sampled beyond.",
   note="Trusted: the 40-line statement of the rule in ref/rawtext.go. Whitespace touching comments and Unicode spaces are not judged.", ref="DESIGN.md §6 C15"),
 "C17": dict(cat="exploration", tech="runtime monitoring: round-trip monitor (real parser used twice, reflective tree comparison) over systematic operator-nesting cells and seeded random trees",
   text="parse.Expr(s).String() must parse again to a structurally identical tree (positions ignored), for every operator as parent x every operator as child in every slot, hostile literals and keys, and seeded random trees; the same for print commands with directives; two different trees seen in one process must not share a printed form.",
   note="The oracle is the code under test's own parser; tree comparison by reflection in the harness.", ref="DESIGN.md §6 C17"),
 "C20": dict(cat="exploration", tech="runtime monitoring: expectation-by-construction monitor for data.New/NewWith plus pairwise law checks (symmetry, numeric equality, truthiness table, String determinism)",
   text="Seeded nested Go values over every reflect kind the converter accepts (expectation built together with the value), under both struct-option settings, must convert to the same structure and be idempotent; all ordered pairs of a pool of ~80 values must satisfy symmetric Equals, int/float numeric equality and the truthiness table.",
   note="Trusted: the value/expectation constructors in props/c20.go.", ref="DESIGN.md §6 C20"),
 "C06": dict(cat="exploration", tech="runtime monitoring: totality monitor (panic at the API boundary, process death, render work budget at walk/range hooks, RLIMIT_CPU on isolated re-run) over ill-typed programs and hostile data",
   text="Compilable programs without regard to types (every operator/operand-class cell in every position, every function and directive at every arity, valid bundles with hostile data and missing $ij, duplicate template names, errors at call depth 1-4 across files), standalone expressions through EvalExpr, globals files through ParseGlobals and API misuse: each call must return normally with a result xor an error.",
   note="Totality only; bounded progress = 10^7 walk+range steps per render. Finite-but-huge range() calls are kept out of the workload.", ref="DESIGN.md §6 C06"),
 "C12": dict(cat="fault_enumeration", tech="runtime monitoring with fault injection at the caller's io.Writer: every write-call index and boundary byte capacity of the fault-free run, per generated template",
   text="For each generated bundle whose fault-free render succeeds, the write calls are recorded; then a sticky failing writer is injected at every write-call index (accepting nothing / half) and at byte capacities 0, 1, every write boundary +-1 and |O|-1: Render must return an error and the accepted bytes must be a prefix of the fault-free output; capacity |O| must give nil. Exhaustive over write indices per template; templates are sampled.",
   note="Faults exist only at the io.Writer boundary (render does no other I/O). Content blocks and {log} buffer and are not write sites.", ref="DESIGN.md §6 C12"),
 "C07": dict(cat="exploration", tech="runtime monitoring: reference-rule monitor (independent lexical resolver) on Bundle.Compile accept/reject over single-violation injections at every site, plus the scope-miss hook watched during renders",
   text="Every generated valid bundle must compile and, rendered with all declared params supplied, must never look up a name nothing binds (hook in scope.lookup). For each of 14 violation kinds, every applicable site of the bundle gets that one violation injected; whenever the reference rules reject the result, the compiler must reject it too.",
   note="Trusted: ref/check.go. Readings the statement leaves open (data=all coverage, loop functions on non-loop variables) are not generated.", ref="DESIGN.md §6 C07"),
 "C03": dict(cat="exploration", tech="runtime monitoring: reference-model monitor plus an independent safety predicate (HTML tokenizer / character-reference recogniser) over hostile values x print paths x autoescape modes x directive chains",
   text="Hostile values (every byte, all pairs/triples of the five specials, entity- and tag-like text, long runs, non-strings) printed through 8 paths (direct, let value/content, param value/content, msg placeholder, data=all, nested content blocks) under all namespace/template autoescape combinations and chains of up to 3 directives: output must equal the reference renderer modulo reference spelling, and in an escaping context must contain no raw special outside well-formed references and directive-added <br>/<wbr>. Control group (mode off / noAutoescape / id) must show the raw value.",
   note="Chains where truncate follows an escaper and <wbr> re-escaped by an outer print are run for totality only (documented carve-outs).", ref="DESIGN.md §6 C03"),
 "C19": dict(cat="exploration", tech="runtime monitoring: position oracle by construction (the generator knows the line of every construct) over faults inserted at every command line, and failing prints at call depth 0-3",
   text="23 parse-fault kinds inserted as a line of their own before every command line of generated multi-line files: the error must carry the file name, a line inside the input, the fault's line (single-line faults) or a later one (unterminated constructs), and show file:line in its text. Render errors at call depth 0-3 across files, plain or inside blocks and quoted attribute expressions, must carry the entry template's file and the line of the failing command (or its enclosing block command) there.",
   note="'Outermost command whose execution failed' is read as the failing command or an enclosing block command in the entry template.", ref="DESIGN.md §6 C19"),
 "C08": dict(cat="exploration", tech="runtime monitoring: deep structural digest (reflect walk incl. unexported fields and pointer identities) of registry, data, $ij and message bundle before/after every operation of a history, plus golden outputs from fresh compiles",
   text="Histories of 20-200 operations (renders of any template with valid, empty and hostile data, with/without $ij and translations; JS generation ES5/ES6; Generator.WriteFile) over one compiled bundle: after every operation the digests of the compiled bundle, every data map, $ij and the message bundle must be unchanged, and the operation must return exactly what it returns on a freshly compiled bundle. One worker process per registry configuration (default, obligatory directives, custom function/directive).",
   note="Pointer values are used as identities (Go's heap does not move objects).", ref="DESIGN.md §6 C08"),
 "C09": dict(cat="exploration", tech="Go race detector (-race build of the worker, reports read from the race log, only those with a frame of the code under test count) over concurrent stanzas, plus per-operation comparison with sequential results",
   text="G goroutines x R operations (renders of the same and other templates, JS generation, compilation of an independent bundle, parse.Expr+EvalExpr) share one Tofu, data maps, $ij and message bundle under GOMAXPROCS 2/4/16 with hook-driven scheduler yields; the race detector must report nothing inside the code under test and every concurrent result must equal the sequential one. Evidence counts distinct interleaving signatures and overlapping operations; a deliberately racy probe in the harness proves the detector and its log are live.",
   note="Only the interleavings produced are explored; races on paths the workload does not execute are invisible.", ref="DESIGN.md §6 C09"),
 "C10": dict(cat="exploration", tech="runtime monitoring: metamorphic monitors (stability across compilations and processes, invariance under context, sensitivity to content) plus a reference re-implementation of the official fingerprint and placeholder naming, self-tested against official ids",
   text="Seeded message bodies (arbitrary text around the 12-byte hash blocks, placeholders over 10 expression shapes, html tags, colliding base names, plurals, meanings): ids and placeholder strings must be identical over 20-100 compilations and in another process, unchanged by description/siblings/surrounding code, changed by any change of text, meaning, placeholder name, part order or plural structure, and equal to the official algorithm where that is unambiguous.",
   note="Reference fingerprint in ref/msgid.go passes the 10 official ids quoted in the repository's tests at start-up (else the run is inconclusive). Messages with two or more calls are not compared with the official naming.", ref="DESIGN.md §6 C10"),
 "C13": dict(cat="exploration", tech="runtime monitoring: equality monitor over the whole observable tuple (accept/reject, error text, ids, rendered output, SHA-1 of JS per file and formatter) across repetitions, processes and all file-order permutations",
   text="For seeded bundles plus an extras file leaning on everything Go maps touch (ES6 imports, map literals in error messages, colliding placeholder names), one third with exactly one injected compile error: the observable tuple must be identical over 20-60 in-process repetitions (map iteration re-randomised each time), in another process, and under every permutation of file insertion order.",
   note="Render error text embeds stack traces and is compared by success/failure only.", ref="DESIGN.md §6 C13"),
}
PENDING = "check not built yet (planned with runtime monitoring, see DESIGN.md §6); not claimed"
props = [json.loads(l)['id'] for l in open('/verif/properties.jsonl')]
hooks = subprocess.run(["git","-C","/repo","log","--format=%h","--grep","^verif hooks"],capture_output=True,text=True).stdout.split()
m = {
 "version": 1,
 "setup_cmd": f"cd /verif/harness && {ENV} go build -o /dev/null ./cmd/vcheck && {ENV} go build -tags verif -o /dev/null ./cmd/vchild",
 "hooks": {"guard": "verif",
   "enable": "go build -tags verif: ./check builds /verif/harness/cmd/vchild against /repo's working tree with -tags verif (and -race for C09)",
   "baseline_off_cmd": f"cd /repo && {ENV} go test -json -vet=off -count=1 -timeout 25m ./...",
   "source_commits": hooks, "add_only": True},
 "engines": [{"name": "soy-rtmon", "path": "/verif/check", "serves_properties": sorted(CHECKS), "kind_free_text": "runtime monitoring harness: Go supervisor + worker processes linked against /repo with -tags verif; reference-model, differential, decoder, digest, fault-injection and process-level monitors; Go race detector for C09"}],
 "checks": [], "not_applicable": [],
 "notes": "Every check: ./check <ID> <quick|thorough>; VERIF_SEED selects the seed; exit 0 held, 1 violation (VIOLATION line + replay file), 2 inconclusive, 3 build failure. known_findings.txt lists open findings and repaired defects.",
}
for p in props:
    if p in CHECKS:
        c = CHECKS[p]
        m["checks"].append({"property_id": p, "quick_cmd": f"./check {p} quick", "thorough_cmd": f"./check {p} thorough",
          "evidence_file": f"/verif/evidence/{p}.json", "replay_cmd_template": f"./check {p} --replay {{path}}", "engine": "soy-rtmon",
          "level_claimed": {"category": c["cat"], "text": c["text"], "design_ref": c["ref"]}, "level_note": c["note"], "technique": c["tech"]})
    else:
        m["not_applicable"].append({"property_id": p, "reason": PENDING})
json.dump(m, open('/verif/MANIFEST.json','w'), indent=1)
print("claimed:", sorted(CHECKS))
