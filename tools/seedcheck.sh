#!/bin/bash
# usage: seedcheck.sh <outdir with patch.diff demo_test.go notes.md> -- confirms a seeded change independently:
# applies to a scratch worktree of /repo HEAD: builds, pinned suite passes, demo fails with the change and passes without it.
export GOFLAGS=-mod=mod GOPROXY=off GOSUMDB=off GOTOOLCHAIN=local
OUT=$(readlink -f "$1")
WT=$(mktemp -d /tmp/sc.XXXXXX); rmdir "$WT"
git -C /repo worktree add -q --detach "$WT" HEAD || exit 3
cleanup() { git -C /repo worktree remove --force "$WT" 2>/dev/null; rm -rf "$WT"; }
trap cleanup EXIT
cd "$WT"
if ! git apply "$OUT/patch.diff"; then echo "SEED $OUT: patch does not apply to current HEAD"; exit 2; fi
if ! go build ./... ; then echo "SEED $OUT: does not compile"; exit 2; fi
if ! go test -vet=off -count=1 ./... > /tmp/sc.suite.$$ 2>&1; then echo "SEED $OUT: pinned suite FAILS with the change"; grep -v '^ok' /tmp/sc.suite.$$ | head; rm -f /tmp/sc.suite.$$; exit 2; fi
rm -f /tmp/sc.suite.$$
place=$(head -1 "$OUT/demo_test.go" | sed -n 's|.*place in: *\([^ ]*\).*|\1|p'); place=${place:-.}
[ "$place" = "(repo" ] && place=.
mkdir -p "$place"; cp "$OUT/demo_test.go" "$place/zz_seeddemo_test.go"
pkg="./$place"
if go test -vet=off -count=1 "$pkg" > /tmp/sc.demo.$$ 2>&1; then echo "SEED $OUT: demo PASSES with the change (not a demonstration)"; rm -f /tmp/sc.demo.$$; exit 2; fi
git apply -R "$OUT/patch.diff"
if ! go test -vet=off -count=1 "$pkg" > /tmp/sc.demo.$$ 2>&1; then echo "SEED $OUT: demo FAILS without the change"; tail -5 /tmp/sc.demo.$$; rm -f /tmp/sc.demo.$$; exit 2; fi
rm -f /tmp/sc.demo.$$
echo "SEED $OUT: CONFIRMED (compiles, suite passes, demo fails with / passes without)"
