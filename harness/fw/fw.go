// Package fw is the worker-side framework: a property is a deterministic list
// of cases (pure function of tier and seed); a worker process runs a shard of
// them, logging each case to disk before it executes it.
package fw

import (
	"bufio"
	"encoding/binary"
	"encoding/json"
	"flag"
	"fmt"
	"hash/fnv"
	"os"
	"runtime"
	"runtime/debug"
	"sort"
	"strings"
	"sync"
	"time"
)

// Verdicts.
const (
	Held         = "held"
	Violated     = "violated"
	Inconclusive = "inconclusive"
	Skip         = "skip" // out of domain: dropped, counted
)

// Result of one case.
type Result struct {
	Verdict string      `json:"v"`
	Key     string      `json:"key,omitempty"` // stable violation key
	Msg     string      `json:"msg,omitempty"`
	Case    interface{} `json:"case,omitempty"` // materialised case (for replay files / samples)
}

// Ctx is handed to a case; it collects what the monitors observed.
type Ctx struct {
	Tier  string
	Seed  uint64
	Index int
	Rng   *Rand

	mu     sync.Mutex
	evals  int64
	hashes hashSet
	obs    map[string]int64
	cells  map[string]struct{}
	maxes  map[string]float64
	sample []interface{}
}

// hashSet is a set of 64-bit identities kept as a slice that is sorted and deduplicated whenever it has doubled
// (8 bytes per distinct element instead of a map's ~40).
type hashSet struct {
	s     []uint64
	limit int
}

func (h *hashSet) add(x uint64) {
	h.s = append(h.s, x)
	if h.limit == 0 {
		h.limit = 1 << 16
	}
	if len(h.s) >= h.limit {
		h.all()
		for h.limit < 2*len(h.s) {
			h.limit *= 2
		}
	}
}

// all returns the distinct elements, sorted.
func (h *hashSet) all() []uint64 {
	sort.Slice(h.s, func(i, j int) bool { return h.s[i] < h.s[j] })
	out := h.s[:0]
	for i, x := range h.s {
		if i == 0 || x != h.s[i-1] {
			out = append(out, x)
		}
	}
	h.s = out
	return h.s
}

// Eval records one evaluation (an execution of the code under test judged by
// the oracle). hash != "" marks it non-trivial with that canonical identity.
func (c *Ctx) Eval(nontrivialIdentity string) {
	c.mu.Lock()
	c.evals++
	if nontrivialIdentity != "" {
		h := fnv.New64a()
		h.Write([]byte(nontrivialIdentity))
		c.hashes.add(h.Sum64())
		if len(c.sample) == 0 {
			// fallback so that a run always shows what a case looks like
			c.sample = append(c.sample, map[string]string{"case_identity": trim(nontrivialIdentity, 600)})
		}
	}
	c.mu.Unlock()
}

// Obs adds n to a named counter.
func (c *Ctx) Obs(name string, n int64) {
	c.mu.Lock()
	c.obs[name] += n
	c.mu.Unlock()
}

// Max records the maximum of a named gauge.
func (c *Ctx) Max(name string, v float64) {
	c.mu.Lock()
	if old, ok := c.maxes[name]; !ok || v > old {
		c.maxes[name] = v
	}
	c.mu.Unlock()
}

// Cell marks a coverage cell as hit.
func (c *Ctx) Cell(name string) {
	c.mu.Lock()
	c.cells[name] = struct{}{}
	c.mu.Unlock()
}

// Sample offers a materialised case as a sample for the evidence file.
func (c *Ctx) Sample(s interface{}) {
	c.mu.Lock()
	if len(c.sample) < 4 {
		c.sample = append(c.sample, s)
	}
	c.mu.Unlock()
}

// Prop is one property's workload + oracle.
type Prop struct {
	ID    string
	Level string // evidence level
	Rule  string // how cases are generated, what is distinct / non-trivial
	// N returns the number of cases for a tier.
	N func(tier string) int
	// Run executes case i. It may call ctx.Eval many times (a case can be a batch).
	Run func(ctx *Ctx, i int) Result
	// Setup runs once per worker process, before any case (self-tests, global
	// configuration). A non-empty return makes the whole run inconclusive.
	Setup func(tier string, seed uint64, config string) string
	// Finish runs once per worker process after the last case of the shard and
	// may return a final result (e.g. goroutine census at end of sequence).
	Finish func(ctx *Ctx) *Result
	// Configs lists process-level configurations; each shard runs under one
	// (shard k uses Configs[k % len]). Empty means a single default config.
	Configs []string
	// Race requests a -race build.
	Race bool
	// Exhaustive reports whether the tier enumerates a finite space completely.
	Exhaustive func(tier string) bool
	// Assumptions for the evidence file.
	Assumptions []string
	// Floors checks the merged observations; returned strings make the run inconclusive.
	Floors func(obs map[string]int64, cells map[string]bool, tier string) []string
	// Sequential: cases of a shard must be run as contiguous blocks (default is striding).
	Sequential bool
}

var registry = map[string]*Prop{}

// Register adds a property.
func Register(p *Prop) { registry[p.ID] = p }

// Get returns a registered property.
func Get(id string) *Prop { return registry[id] }

// IDs lists registered properties.
func IDs() []string {
	var ids []string
	for id := range registry {
		ids = append(ids, id)
	}
	sort.Strings(ids)
	return ids
}

// Summary is the last line a worker writes.
type Summary struct {
	Evals   int64              `json:"evals"`
	Obs     map[string]int64   `json:"obs"`
	Maxes   map[string]float64 `json:"maxes"`
	Cells   []string           `json:"cells"`
	Samples []interface{}      `json:"samples"`
	Cases   int                `json:"cases"`
	Skips   int                `json:"skips"`
	Wall    float64            `json:"wall"`
}

var logf *os.File
var logMu sync.Mutex

// LogLine writes one line to the shard log, unbuffered.
func LogLine(s string) {
	logMu.Lock()
	if logf != nil {
		logf.WriteString(s + "\n")
	}
	logMu.Unlock()
}

// LogResult writes an R line.
func LogResult(i int, r Result) {
	b, err := json.Marshal(r)
	if err != nil {
		r.Case = fmt.Sprintf("%v", r.Case)
		b, _ = json.Marshal(r)
	}
	if len(b) > 2<<20 {
		// a record of megabytes (a case over very large data): keep the verdict, key and message; the case is
		// regenerated from its index when it is replayed
		r.Case = fmt.Sprintf("(case of %d bytes not recorded; it is regenerated from its index)", len(b))
		r.Msg = trim(r.Msg, 4000)
		b, _ = json.Marshal(r)
	}
	LogLine(fmt.Sprintf("R %d %s", i, b))
}

// CurrentIndex is the case being executed (for hooks that abort the process).
var CurrentIndex int

// CurrentCase describes the operation in flight (for hooks that abort the process).
var CurrentCase interface{}

// Abort records a violation for the current case from any goroutine and exits.
func Abort(code int, key, msg string, c interface{}) {
	AbortWith(Violated, code, key, msg, c)
}

// AbortWith is Abort with an explicit verdict.
func AbortWith(verdict string, code int, key, msg string, c interface{}) {
	if c == nil {
		c = CurrentCase
	}
	LogResult(CurrentIndex, Result{Verdict: verdict, Key: key, Msg: msg, Case: c})
	os.Exit(code)
}

// TopRepoFrame returns the innermost frame of the calling goroutine that lies
// in github.com/robfig/soy, as "pkg.func", skipping hook functions.
func TopRepoFrame(skip int) string {
	pc := make([]uintptr, 64)
	n := runtime.Callers(skip+1, pc)
	frames := runtime.CallersFrames(pc[:n])
	for {
		f, more := frames.Next()
		if IsRepoFunc(f.Function) && !strings.Contains(f.Function, "verif") {
			return ShortFunc(f.Function)
		}
		if !more {
			break
		}
	}
	return "?"
}

// IsRepoFunc reports whether a function name (or a line of a stack dump) names code of the library under test: a
// sub-package (github.com/robfig/soy/parse.x) or the root package (github.com/robfig/soy.ParseGlobals).
func IsRepoFunc(fn string) bool {
	return strings.Contains(fn, "github.com/robfig/soy/") || strings.Contains(fn, "github.com/robfig/soy.")
}

// ShortFunc strips the module path.
func ShortFunc(fn string) string {
	fn = strings.TrimPrefix(fn, "github.com/robfig/soy/")
	fn = strings.TrimPrefix(fn, "github.com/robfig/")
	return fn
}

// PanicKey builds a violation key from a recovered panic and the stack at
// recovery time (debug.Stack() taken inside the deferred function).
func PanicKey(e interface{}, stack []byte) string {
	class := "panic"
	if re, ok := e.(runtime.Error); ok {
		msg := re.Error()
		switch {
		case strings.Contains(msg, "nil pointer"):
			class = "nil-deref"
		case strings.Contains(msg, "index out of range"), strings.Contains(msg, "slice bounds"):
			class = "bounds"
		case strings.Contains(msg, "interface conversion"):
			class = "type-assert"
		case strings.Contains(msg, "divide"):
			class = "div0"
		default:
			class = "runtime"
		}
	}
	return "panic:" + class + "@" + StackSite(string(stack))
}

// StackSite extracts the first github.com/robfig/soy function after the
// panic frames from a textual goroutine stack.
func StackSite(stack string) string {
	lines := strings.Split(stack, "\n")
	seenPanic := false
	for _, l := range lines {
		if strings.HasPrefix(l, "panic(") || strings.HasPrefix(l, "runtime.gopanic") {
			seenPanic = true
			continue
		}
		if strings.HasPrefix(l, "\t") || !IsRepoFunc(l) {
			continue
		}
		if strings.Contains(l, "verif") || strings.Contains(l, "errRecover") || strings.Contains(l, ".recover") {
			continue
		}
		if !seenPanic && strings.Contains(stack, "panic(") {
			continue
		}
		fn := l
		if k := strings.LastIndex(fn, "("); k > 0 {
			fn = fn[:k]
		}
		return ShortFunc(fn)
	}
	return "?"
}

// Guard runs f, converting a panic on this goroutine into a violated Result.
func Guard(f func() Result) (res Result) {
	defer func() {
		if e := recover(); e != nil {
			st := debug.Stack()
			if StackSite(string(st)) == "?" {
				// no frame of the code under test between the panic and here: the harness itself is at fault
				res = Result{Verdict: Inconclusive, Key: "harness-panic", Msg: fmt.Sprintf("panic in the harness: %v\n%s", e, trim(string(st), 3000))}
				return
			}
			res = Result{Verdict: Violated, Key: PanicKey(e, st), Msg: fmt.Sprintf("panic escaped: %v\n%s", e, trim(string(st), 3000))}
		}
	}()
	return f()
}

func trim(s string, n int) string {
	if len(s) > n {
		return s[:n] + "…"
	}
	return s
}

// Trim shortens long strings for messages.
func Trim(s string, n int) string { return trim(s, n) }

// WorkerMain is the entry point of cmd/vchild.
func WorkerMain() {
	var (
		propID  = flag.String("prop", "", "property id")
		tier    = flag.String("tier", "quick", "quick|thorough")
		seed    = flag.Uint64("seed", 1, "seed")
		shard   = flag.Int("shard", 0, "shard index")
		nshards = flag.Int("nshards", 1, "number of shards")
		from    = flag.Int("from", 0, "skip cases with index < from")
		only    = flag.Int("only", -1, "run only this case index")
		to      = flag.Int("to", -1, "stop after this case index (with -from: replays a stretch of one shard's sequence)")
		logpath = flag.String("log", "", "shard log path")
		list    = flag.Bool("list", false, "print registered properties as JSON")
		count   = flag.Bool("count", false, "print number of cases")
		floors  = flag.String("floors", "", "check floors over merged observations (JSON file)")
	)
	flag.Parse()
	if *list {
		type info struct {
			ID, Level, Rule string
			Race            bool
			Configs         []string
			Assumptions     []string
			Sequential      bool
		}
		var out []info
		for _, id := range IDs() {
			p := registry[id]
			out = append(out, info{p.ID, p.Level, p.Rule, p.Race, p.Configs, p.Assumptions, p.Sequential})
		}
		json.NewEncoder(os.Stdout).Encode(out)
		return
	}
	p := registry[*propID]
	if p == nil {
		fmt.Fprintf(os.Stderr, "unknown property %q\n", *propID)
		os.Exit(3)
	}
	if *floors != "" {
		var in struct {
			Obs   map[string]int64
			Cells []string
		}
		b, _ := os.ReadFile(*floors)
		json.Unmarshal(b, &in)
		cells := map[string]bool{}
		for _, c := range in.Cells {
			cells[c] = true
		}
		reasons := []string{}
		if p.Floors != nil {
			reasons = append(reasons, p.Floors(in.Obs, cells, *tier)...)
		}
		json.NewEncoder(os.Stdout).Encode(reasons)
		return
	}
	n := p.N(*tier)
	if *count {
		ex := false
		if p.Exhaustive != nil {
			ex = p.Exhaustive(*tier)
		}
		fmt.Printf("%d %v\n", n, ex)
		return
	}
	if *logpath != "" {
		f, err := os.OpenFile(*logpath, os.O_CREATE|os.O_WRONLY|os.O_APPEND, 0644)
		if err != nil {
			fmt.Fprintln(os.Stderr, err)
			os.Exit(3)
		}
		logf = f
	} else {
		logf = os.Stdout
	}
	config := ""
	if len(p.Configs) > 0 {
		config = p.Configs[*shard%len(p.Configs)]
	}
	if p.Setup != nil {
		if why := p.Setup(*tier, *seed, config); why != "" {
			LogResult(-1, Result{Verdict: Inconclusive, Key: "setup", Msg: why})
			LogLine("S {}")
			return
		}
	}
	ctx := &Ctx{Tier: *tier, Seed: *seed,
		obs: map[string]int64{}, cells: map[string]struct{}{}, maxes: map[string]float64{}}
	start := time.Now()
	cases, skips := 0, 0
	runOne := func(i int) {
		CurrentIndex = i
		ctx.Index = i
		ctx.Rng = NewRand(*seed*0x9E3779B97F4A7C15 + uint64(i)*0xD1B54A32D192ED03 + HashStr(p.ID))
		LogLine(fmt.Sprintf("B %d", i))
		r := Guard(func() Result { return p.Run(ctx, i) })
		cases++
		switch r.Verdict {
		case Held, "":
		case Skip:
			skips++
		default:
			LogResult(i, r)
		}
	}
	if *only >= 0 {
		runOne(*only)
	} else if p.Sequential {
		lo := n * *shard / *nshards
		hi := n * (*shard + 1) / *nshards
		for i := lo; i < hi; i++ {
			if i < *from {
				continue
			}
			runOne(i)
		}
	} else {
		for i := *shard; i < n; i += *nshards {
			if i < *from {
				continue
			}
			runOne(i)
		}
	}
	if p.Finish != nil && *only < 0 && *to < 0 {
		if r := p.Finish(ctx); r != nil && r.Verdict != Held && r.Verdict != "" {
			LogResult(-2, *r)
		}
	}
	// hashes side file
	if *logpath != "" {
		hf, err := os.Create(*logpath + ".hashes")
		if err == nil {
			w := bufio.NewWriter(hf)
			var b [8]byte
			for _, h := range ctx.hashes.all() {
				binary.LittleEndian.PutUint64(b[:], h)
				w.Write(b[:])
			}
			w.Flush()
			hf.Close()
		}
	}
	s := Summary{Evals: ctx.evals, Obs: ctx.obs, Maxes: ctx.maxes, Samples: ctx.sample, Cases: cases, Skips: skips,
		Wall: time.Since(start).Seconds()}
	for c := range ctx.cells {
		s.Cells = append(s.Cells, c)
	}
	sort.Strings(s.Cells)
	if *logpath == "" {
		s.Obs["distinct_nontrivial"] = int64(len(ctx.hashes.all()))
	}
	b, _ := json.Marshal(s)
	LogLine("S " + string(b))
}

func HashStr(s string) uint64 {
	h := fnv.New64a()
	h.Write([]byte(s))
	return h.Sum64()
}
