package fw

// Rand is a splitmix64 generator: deterministic, seedable, no global state.
type Rand struct{ s uint64 }

// NewRand returns a generator for the seed.
func NewRand(seed uint64) *Rand { return &Rand{seed} }

// U64 returns the next 64 random bits.
func (r *Rand) U64() uint64 {
	r.s += 0x9E3779B97F4A7C15
	z := r.s
	z = (z ^ (z >> 30)) * 0xBF58476D1CE4E5B9
	z = (z ^ (z >> 27)) * 0x94D049BB133111EB
	return z ^ (z >> 31)
}

// Intn returns a number in [0,n).
func (r *Rand) Intn(n int) int {
	if n <= 0 {
		return 0
	}
	return int(r.U64() % uint64(n))
}

// Bool returns a fair coin.
func (r *Rand) Bool() bool { return r.U64()&1 == 1 }

// P returns true with probability num/den.
func (r *Rand) P(num, den int) bool { return r.Intn(den) < num }

// Pick returns a random element of ss.
func (r *Rand) Pick(ss []string) string { return ss[r.Intn(len(ss))] }

// Fork derives an independent generator.
func (r *Rand) Fork() *Rand { return &Rand{r.U64()} }

// Perm returns a random permutation of 0..n-1.
func (r *Rand) Perm(n int) []int {
	p := make([]int, n)
	for i := range p {
		p[i] = i
	}
	for i := n - 1; i > 0; i-- {
		j := r.Intn(i + 1)
		p[i], p[j] = p[j], p[i]
	}
	return p
}

// Shuffle permutes n elements through swap (Fisher-Yates).
func (r *Rand) Shuffle(n int, swap func(i, j int)) {
	for i := n - 1; i > 0; i-- {
		swap(i, r.Intn(i+1))
	}
}
