// Package sup is the supervisor: it runs shards of a property's case list in
// child processes, watches them at process level, re-runs suspects in
// isolation under resource limits, merges what the monitors observed, applies
// the known-findings file and writes the evidence file. It does not link
// against the code under test.
package sup

import (
	"bufio"
	"bytes"
	"crypto/sha1"
	"encoding/binary"
	"encoding/json"
	"fmt"
	"os"
	"os/exec"
	"path/filepath"
	"regexp"
	"sort"
	"strconv"
	"strings"
	"sync"
	"syscall"
	"time"
)

type Result struct {
	Verdict string      `json:"v"`
	Key     string      `json:"key,omitempty"`
	Msg     string      `json:"msg,omitempty"`
	Case    interface{} `json:"case,omitempty"`
}

type Summary struct {
	Evals   int64              `json:"evals"`
	Obs     map[string]int64   `json:"obs"`
	Maxes   map[string]float64 `json:"maxes"`
	Cells   []string           `json:"cells"`
	Samples []interface{}      `json:"samples"`
	Cases   int                `json:"cases"`
	Skips   int                `json:"skips"`
	Wall    float64            `json:"wall"`
}

type PropInfo struct {
	ID, Level, Rule string
	Race            bool
	Configs         []string
	Assumptions     []string
	Sequential      bool
}

type Finding struct {
	Status   string `json:"status"` // open | fixed
	Property string `json:"property"`
	Key      string `json:"key,omitempty"`
	What     string `json:"what"`
	Commit   string `json:"commit,omitempty"`
	Witness  string `json:"witness,omitempty"`
}

type Options struct {
	Prop     string
	Tier     string
	Seed     uint64
	Child    string // path to vchild binary
	VerifDir string
	OutDir   string // evidence and replays go here (VerifDir when empty): runs against another tree must not overwrite the evidence of /repo
	WorkDir  string // scratch for logs
	Replay   string
	Shards   int
	Stall    time.Duration
}

type located struct {
	Result
	Index, Shard int
}

type runner struct {
	o     Options
	info  PropInfo
	n     int
	exh   bool
	mu    sync.Mutex
	res   []located
	sums  []Summary
	notes []string
	races []string
}

func (r *runner) note(f string, a ...interface{}) {
	r.mu.Lock()
	r.notes = append(r.notes, fmt.Sprintf(f, a...))
	r.mu.Unlock()
}

func (r *runner) add(l located) {
	r.mu.Lock()
	r.res = append(r.res, l)
	r.mu.Unlock()
}

// Main runs the check and returns the process exit code.
func Main(o Options) int {
	start := time.Now()
	r := &runner{o: o}
	out, err := exec.Command(o.Child, "-list").Output()
	if err != nil {
		fmt.Printf("INCONCLUSIVE property=%s what=child-list-failed: %v\n", o.Prop, err)
		return 2
	}
	var infos []PropInfo
	json.Unmarshal(out, &infos)
	found := false
	for _, in := range infos {
		if in.ID == o.Prop {
			r.info, found = in, true
		}
	}
	if !found {
		fmt.Printf("INCONCLUSIVE property=%s what=unknown-property\n", o.Prop)
		return 2
	}
	out, err = exec.Command(o.Child, "-prop", o.Prop, "-tier", o.Tier, "-count").Output()
	if err != nil {
		fmt.Printf("INCONCLUSIVE property=%s what=count-failed\n", o.Prop)
		return 2
	}
	fmt.Sscanf(string(out), "%d %v", &r.n, &r.exh)

	if o.Replay != "" {
		return r.replay()
	}

	nsh := o.Shards
	if nsh <= 0 {
		nsh = 16
	}
	if len(r.info.Configs) > 1 && nsh%len(r.info.Configs) != 0 {
		nsh = (nsh/len(r.info.Configs) + 1) * len(r.info.Configs)
	}
	if nsh > r.n {
		nsh = r.n
		if len(r.info.Configs) > nsh {
			nsh = len(r.info.Configs)
		}
	}
	if nsh < 1 {
		nsh = 1
	}
	sem := make(chan struct{}, 16)
	var wg sync.WaitGroup
	for k := 0; k < nsh; k++ {
		wg.Add(1)
		go func(k int) {
			defer wg.Done()
			sem <- struct{}{}
			defer func() { <-sem }()
			r.runShard(k, nsh)
		}(k)
	}
	wg.Wait()
	return r.finish(nsh, time.Since(start))
}

func (r *runner) childEnv(k int) []string {
	env := os.Environ()
	if r.info.Race {
		env = append(env, fmt.Sprintf("GORACE=halt_on_error=0 exitcode=0 history_size=5 log_path=%s", filepath.Join(r.o.WorkDir, fmt.Sprintf("race.%d", k))))
	}
	return env
}

// runShard runs shard k to completion, restarting after each suspect.
func (r *runner) runShard(k, nsh int) {
	logp := filepath.Join(r.o.WorkDir, fmt.Sprintf("shard.%d.log", k))
	from := 0
	restarts, stalls := 0, 0
	for {
		errp := filepath.Join(r.o.WorkDir, fmt.Sprintf("shard.%d.%d.err", k, restarts))
		ef, _ := os.Create(errp)
		cmd := exec.Command(r.o.Child, "-prop", r.o.Prop, "-tier", r.o.Tier, "-seed", fmt.Sprint(r.o.Seed),
			"-shard", fmt.Sprint(k), "-nshards", fmt.Sprint(nsh), "-from", fmt.Sprint(from), "-log", logp)
		cmd.Stderr = ef
		cmd.Stdout = ef
		cmd.Env = r.childEnv(k)
		if err := cmd.Start(); err != nil {
			r.add(located{Result{Verdict: "inconclusive", Key: "start-failed", Msg: err.Error()}, -1, k})
			return
		}
		done := make(chan error, 1)
		go func() { done <- cmd.Wait() }()
		stalled := false
		var werr error
		lastSize := int64(-1)
		lastChange := time.Now()
	wait:
		for {
			select {
			case werr = <-done:
				break wait
			case <-time.After(500 * time.Millisecond):
				if st, err := os.Stat(logp); err == nil && st.Size() != lastSize {
					lastSize = st.Size()
					lastChange = time.Now()
				} else if time.Since(lastChange) > r.o.Stall {
					stalled = true
					cmd.Process.Signal(syscall.SIGQUIT)
					select {
					case werr = <-done:
					case <-time.After(5 * time.Second):
						cmd.Process.Kill()
						werr = <-done
					}
					break wait
				}
			}
		}
		ef.Close()
		lastB, hasS, rs := parseLog(logp)
		if werr == nil && hasS {
			// normal completion
			return
		}
		// abnormal: find suspect
		code := -1
		if ee, ok := werr.(*exec.ExitError); ok {
			code = ee.ExitCode()
		}
		errText, _ := os.ReadFile(errp)
		already := false
		for _, x := range rs {
			if x.Index == lastB {
				already = true
			}
		}
		if lastB < 0 {
			r.add(located{Result{Verdict: "inconclusive", Key: "shard-died-before-first-case",
				Msg: fmt.Sprintf("exit=%d stalled=%v stderr=%s", code, stalled, tail(string(errText), 1500))}, -1, k})
			return
		}
		if !already {
			r.isolate(lastB, k, nsh, code, stalled, string(errText), from)
		}
		if stalled {
			stalls++
			if stalls >= 3 {
				// a process that keeps going quiet costs minutes each time; three witnesses are enough
				r.note("shard %d abandoned at case %d after going quiet %d times", k, lastB, stalls)
				return
			}
		}
		restarts++
		if restarts > 300 {
			r.add(located{Result{Verdict: "inconclusive", Key: "too-many-restarts", Msg: "shard restarted more than 300 times"}, lastB, k})
			return
		}
		from = lastB + 1
	}
}

// (a sub-package: soy/parse.(*tree).x -> parse.(*tree).x ; the root package: soy.ParseGlobals stays soy.ParseGlobals)
var reRepoFrame = regexp.MustCompile(`github\.com/robfig/(soy\.[A-Za-z0-9_().*]+|soy/[A-Za-z0-9_/]+\.[A-Za-z0-9_().*]+)`)

// repoFrame returns the library function named on a line of a stack dump.
func repoFrame(l string) []string {
	m := reRepoFrame.FindStringSubmatch(l)
	if m == nil {
		return nil
	}
	m[1] = strings.TrimPrefix(m[1], "soy/")
	return m
}

// siteFromDump picks the most specific /repo function from a Go crash or
// SIGQUIT dump: the first repo frame of the first goroutine that has one.
func siteFromDump(dump string) string {
	for _, l := range strings.Split(dump, "\n") {
		if strings.HasPrefix(l, "\t") {
			continue
		}
		if m := repoFrame(l); m != nil {
			fn := m[1]
			if strings.Contains(fn, "verif") || strings.Contains(fn, "errRecover") || isHelper(fn) {
				continue
			}
			return reArgs.ReplaceAllString(fn, "")
		}
	}
	return "?"
}

var helpers = []string{
	"(*lexer).next", "(*lexer).peek", "(*lexer).backup", "(*lexer).accept", "(*lexer).emit", "(*lexer).ignore",
	"(*lexer).errorf", "(*lexer).nextItem", "(*lexer).run", "(*lexer).drain", "skipSpace", "maybeEmitText",
	"(*tree).next", "(*tree).peek", "(*tree).backup", "(*tree).expect", "(*tree).nextNonComment",
	"(*tree).unexpected", "(*tree).errorf", "(*tree).error", "(*tree).recover",
}

func isHelper(fn string) bool {
	for _, h := range helpers {
		if strings.Contains(fn, h) {
			return true
		}
	}
	return false
}

func crashClass(errText string) string {
	switch {
	case strings.Contains(errText, "all goroutines are asleep"):
		return "blocked-forever"
	case strings.Contains(errText, "out of memory"), strings.Contains(errText, "cannot allocate memory"):
		return "unbounded-memory"
	case strings.Contains(errText, "slice bounds out of range"), strings.Contains(errText, "index out of range"):
		return "crash:bounds"
	case strings.Contains(errText, "nil pointer dereference"):
		return "crash:nil-deref"
	case strings.Contains(errText, "stack overflow"), strings.Contains(errText, "stack exceeds"):
		return "crash:stack-overflow"
	case strings.Contains(errText, "concurrent map"):
		return "crash:concurrent-map"
	case strings.Contains(errText, "panic:"):
		return "crash:panic"
	case strings.Contains(errText, "fatal error:"):
		return "crash:fatal"
	}
	return ""
}

// isolate re-runs one suspect case alone under CPU and memory limits.
func (r *runner) isolate(i, k, nsh, batchCode int, stalled bool, batchErr string, batchFrom int) {
	logp := filepath.Join(r.o.WorkDir, fmt.Sprintf("iso.%d.log", i))
	errp := filepath.Join(r.o.WorkDir, fmt.Sprintf("iso.%d.err", i))
	os.Remove(logp)
	limits := "ulimit -t 20; "
	if !r.info.Race {
		limits += "ulimit -v 8388608; "
	}
	sh := fmt.Sprintf("%sexec %q -prop %s -tier %s -seed %d -shard %d -nshards %d -only %d -log %q",
		limits, r.o.Child, r.o.Prop, r.o.Tier, r.o.Seed, k, nsh, i, logp)
	cmd := exec.Command("sh", "-c", sh)
	ef, _ := os.Create(errp)
	cmd.Stderr, cmd.Stdout = ef, ef
	cmd.Env = append(r.childEnv(k), "VERIF_ISOLATED=1")
	t0 := time.Now()
	cmd.Start()
	done := make(chan error, 1)
	go func() { done <- cmd.Wait() }()
	var werr error
	timedOut := false
	select {
	case werr = <-done:
	case <-time.After(10 * time.Minute):
		timedOut = true
		cmd.Process.Kill()
		werr = <-done
	}
	ef.Close()
	errText, _ := os.ReadFile(errp)
	_, hasS, rs := parseLog(logp)
	for _, x := range rs {
		if x.Index == i {
			x.Shard = k
			r.add(x)
			return
		}
	}
	res := Result{Case: map[string]interface{}{"index": i}}
	signaled := false
	if ee, ok := werr.(*exec.ExitError); ok {
		if ws, ok := ee.Sys().(syscall.WaitStatus); ok && ws.Signaled() {
			signaled = true
			cpu := ee.ProcessState.UserTime() + ee.ProcessState.SystemTime()
			if (ws.Signal() == syscall.SIGKILL || ws.Signal() == syscall.SIGXCPU) && cpu >= 19*time.Second {
				site := siteFromDump(batchErr)
				res.Verdict, res.Key = "violated", "unbounded-cpu@"+site
				res.Msg = fmt.Sprintf("isolated re-run of case %d killed by RLIMIT_CPU after %v of CPU time", i, cpu)
				r.add(located{res, i, k})
				return
			}
		}
	}
	cls := crashClass(string(errText))
	switch {
	case cls != "":
		res.Verdict, res.Key = "violated", cls+"@"+siteFromDump(string(errText))
		res.Msg = "isolated re-run died: " + tail(string(errText), 2500)
	case werr == nil && hasS:
		if c := crashClass(batchErr); c != "" && !stalled {
			res.Verdict, res.Key = "violated", c+"-in-sequence@"+siteFromDump(batchErr)
			res.Msg = "process died while running this case in sequence (not alone): " + tail(batchErr, 2500)
			if from, _, _, ok := r.reproduceInSequence(i, k, nsh, batchFrom); ok {
				res.Case = map[string]interface{}{"index": i, "sequence_from": from}
			}
		} else if from, site, dump, ok := r.reproduceInSequence(i, k, nsh, batchFrom); stalled && ok {
			// the case finishes alone but not after the cases before it: state carried from one operation to the next
			res.Verdict, res.Key = "violated", "blocked-in-sequence@"+site
			res.Case = map[string]interface{}{"index": i, "sequence_from": from}
			res.Msg = fmt.Sprintf("case %d finishes when run alone, but run after cases %d.. of its shard (%d of %d) in one process it never returns: "+
				"every goroutine with a frame in the library is parked (none running or runnable), twice in two fresh processes. Goroutines:\n%s", i, from, k, nsh, head(dump, 2500))
		} else {
			res.Verdict, res.Key = "inconclusive", "suspect-not-reproduced"
			res.Msg = fmt.Sprintf("case %d: batch exit=%d stalled=%v, isolated re-run finished normally in %v", i, batchCode, stalled, time.Since(t0))
		}
	default:
		res.Verdict, res.Key = "inconclusive", "isolated-run-unclassified"
		res.Msg = fmt.Sprintf("signaled=%v timedOut=%v err=%v stderr=%s", signaled, timedOut, werr, tail(string(errText), 1500))
	}
	r.add(located{res, i, k})
}

// runSeq runs cases from..to of shard k in a fresh process. It reports whether the process finished, and otherwise the
// index it stopped at and its stderr (a goroutine dump when it went quiet and was sent SIGQUIT).
func (r *runner) runSeq(from, to, k, nsh int, quiet time.Duration) (finished bool, lastB int, errText string) {
	logp := filepath.Join(r.o.WorkDir, fmt.Sprintf("seq.%d.%d.log", k, to))
	errp := filepath.Join(r.o.WorkDir, fmt.Sprintf("seq.%d.%d.err", k, to))
	os.Remove(logp)
	cmd := exec.Command(r.o.Child, "-prop", r.o.Prop, "-tier", r.o.Tier, "-seed", fmt.Sprint(r.o.Seed),
		"-shard", fmt.Sprint(k), "-nshards", fmt.Sprint(nsh), "-from", fmt.Sprint(from), "-to", fmt.Sprint(to), "-log", logp)
	ef, _ := os.Create(errp)
	cmd.Stderr, cmd.Stdout = ef, ef
	cmd.Env = r.childEnv(k)
	if cmd.Start() != nil {
		ef.Close()
		return true, -1, ""
	}
	done := make(chan error, 1)
	go func() { done <- cmd.Wait() }()
	lastSize, lastChange := int64(-1), time.Now()
	var werr error
wait:
	for {
		select {
		case werr = <-done:
			break wait
		case <-time.After(500 * time.Millisecond):
			if st, err := os.Stat(logp); err == nil && st.Size() != lastSize {
				lastSize, lastChange = st.Size(), time.Now()
			} else if time.Since(lastChange) > quiet {
				cmd.Process.Signal(syscall.SIGQUIT)
				select {
				case werr = <-done:
				case <-time.After(5 * time.Second):
					cmd.Process.Kill()
					werr = <-done
				}
				break wait
			}
		}
	}
	ef.Close()
	b, _ := os.ReadFile(errp)
	lastB, hasS, _ := parseLog(logp)
	return werr == nil && hasS, lastB, string(b)
}

var reArgs = regexp.MustCompile(`\((?:[^*)][^)]*|\.\.\.)?\)?$`)

var reGoroutineHead = regexp.MustCompile(`^goroutine \d+ (?:gp=\S+ m=\S+(?: mp=\S+)? )?\[([^\],]+)`)

// parkedInRepo reads a goroutine dump. It says yes only when at least one goroutine has a frame in the library and every
// goroutine that has one is parked on a lock, channel or condition - none of them running, runnable or in a system call.
// A slow case on a loaded machine therefore never qualifies: its goroutine is running or runnable.
func parkedInRepo(dump string) (site string, summary string, ok bool) {
	parked := map[string]bool{"chan send": true, "chan receive": true, "select": true, "select (no cases)": true, "semacquire": true,
		"sync.Mutex.Lock": true, "sync.RWMutex.Lock": true, "sync.RWMutex.RLock": true, "sync.Cond.Wait": true, "sync.WaitGroup.Wait": true,
		"chan send (nil chan)": true, "chan receive (nil chan)": true}
	var lines []string
	n := 0
	for _, blk := range strings.Split(dump, "\n\n") {
		blk = strings.TrimSpace(blk)
		m := reGoroutineHead.FindStringSubmatch(blk)
		if m == nil {
			continue
		}
		fn := ""
		for _, l := range strings.Split(blk, "\n")[1:] {
			if strings.HasPrefix(l, "\t") {
				continue
			}
			if f := repoFrame(l); f != nil && !strings.Contains(f[1], "verif") {
				fn = f[1]
				break
			}
		}
		if fn == "" {
			// a goroutine of the harness that is busy means the harness is working, not the library hanging
			if strings.Contains(blk, "verif/") && !parked[m[1]] && m[1] != "sleep" && m[1] != "IO wait" && m[1] != "GC worker (idle)" {
				return "", "", false
			}
			continue
		}
		n++
		fn = reArgs.ReplaceAllString(fn, "")
		lines = append(lines, fmt.Sprintf("[%s] in %s", m[1], fn))
		if !parked[m[1]] {
			return "", "", false
		}
		if site == "" || (isHelper(site) && !isHelper(fn)) {
			site = fn
		}
	}
	return site, strings.Join(lines, "\n"), n > 0
}

// reproduceInSequence is used when a case that stopped its worker finishes normally alone: it re-runs the stretch of the
// shard's sequence that led to it in fresh processes, shortest suffix first. ok means the sequence from..i ended twice,
// in two fresh processes, at case i with every library goroutine parked (or with the process dead).
func (r *runner) reproduceInSequence(i, k, nsh, batchFrom int) (from int, site, dump string, ok bool) {
	if batchFrom > i {
		batchFrom = i
	}
	stride := nsh
	if r.info.Sequential {
		stride = 1
	}
	try := func(f int) (string, string, bool) {
		for rep := 0; rep < 2; rep++ {
			fin, lastB, errText := r.runSeq(f, i, k, nsh, 20*time.Second)
			if fin || lastB != i {
				return "", "", false
			}
			if crashClass(errText) != "" && !strings.Contains(errText, "SIGQUIT") {
				site, dump = siteFromDump(errText), tail(errText, 2500)
				continue
			}
			s, sum, parked := parkedInRepo(errText)
			if !parked {
				return "", "", false
			}
			site, dump = s, sum
		}
		return site, dump, true
	}
	for back := 1; ; back *= 4 {
		f := i - back*stride
		if f < batchFrom {
			f = batchFrom
		}
		if s, d, good := try(f); good {
			return f, s, d, true
		}
		if f == batchFrom {
			return 0, "", "", false
		}
	}
}

func tail(s string, n int) string {
	if len(s) > n {
		return "…" + s[len(s)-n:]
	}
	return s
}

func head(s string, n int) string {
	if len(s) > n {
		return s[:n] + "…"
	}
	return s
}

// parseLog returns the last begun case, whether a summary line exists, and all results.
func parseLog(path string) (lastB int, hasS bool, rs []located) {
	lastB = -1
	f, err := os.Open(path)
	if err != nil {
		return
	}
	defer f.Close()
	sc := bufio.NewScanner(f)
	sc.Buffer(make([]byte, 1<<20), 1<<28)
	for sc.Scan() {
		l := sc.Text()
		switch {
		case strings.HasPrefix(l, "B "):
			lastB, _ = strconv.Atoi(l[2:])
			hasS = false
		case strings.HasPrefix(l, "R "):
			rest := l[2:]
			sp := strings.IndexByte(rest, ' ')
			if sp < 0 {
				continue
			}
			idx, _ := strconv.Atoi(rest[:sp])
			var res Result
			if json.Unmarshal([]byte(rest[sp+1:]), &res) == nil {
				rs = append(rs, located{res, idx, 0})
			}
		case strings.HasPrefix(l, "S "):
			hasS = true
		}
	}
	return
}

func (r *runner) collect(nsh int) (sum Summary, distinct int) {
	sum.Obs = map[string]int64{}
	sum.Maxes = map[string]float64{}
	cells := map[string]bool{}
	var hashes []uint64
	begun := 0
	for k := 0; k < nsh; k++ {
		logp := filepath.Join(r.o.WorkDir, fmt.Sprintf("shard.%d.log", k))
		f, err := os.Open(logp)
		if err != nil {
			continue
		}
		sc := bufio.NewScanner(f)
		sc.Buffer(make([]byte, 1<<20), 1<<28)
		for sc.Scan() {
			l := sc.Text()
			if strings.HasPrefix(l, "B ") {
				begun++
			} else if strings.HasPrefix(l, "R ") {
				rest := l[2:]
				sp := strings.IndexByte(rest, ' ')
				idx, _ := strconv.Atoi(rest[:sp])
				var res Result
				if json.Unmarshal([]byte(rest[sp+1:]), &res) == nil {
					r.res = append(r.res, located{res, idx, k})
				}
			} else if strings.HasPrefix(l, "S ") {
				var s Summary
				if json.Unmarshal([]byte(l[2:]), &s) == nil {
					sum.Evals += s.Evals
					sum.Skips += s.Skips
					for n, v := range s.Obs {
						sum.Obs[n] += v
					}
					for n, v := range s.Maxes {
						if old, ok := sum.Maxes[n]; !ok || v > old {
							sum.Maxes[n] = v
						}
					}
					for _, c := range s.Cells {
						cells[c] = true
					}
					if len(sum.Samples) < 6 {
						for _, sm := range s.Samples {
							if len(sum.Samples) < 6 {
								sum.Samples = append(sum.Samples, sm)
							}
						}
					}
				}
			}
		}
		f.Close()
		if hb, err := os.ReadFile(logp + ".hashes"); err == nil {
			for i := 0; i+8 <= len(hb); i += 8 {
				hashes = append(hashes, binary.LittleEndian.Uint64(hb[i:]))
			}
		}
	}
	for c := range cells {
		sum.Cells = append(sum.Cells, c)
	}
	sort.Strings(sum.Cells)
	sum.Cases = begun
	sort.Slice(hashes, func(i, j int) bool { return hashes[i] < hashes[j] })
	distinct = 0
	for i, h := range hashes {
		if i == 0 || h != hashes[i-1] {
			distinct++
		}
	}
	return sum, distinct
}

func loadFindings(dir string) []Finding {
	var fs []Finding
	b, err := os.ReadFile(filepath.Join(dir, "known_findings.txt"))
	if err != nil {
		return nil
	}
	for _, l := range strings.Split(string(b), "\n") {
		l = strings.TrimSpace(l)
		if l == "" || strings.HasPrefix(l, "#") {
			continue
		}
		var f Finding
		if json.Unmarshal([]byte(l), &f) == nil {
			fs = append(fs, f)
		}
	}
	return fs
}

func (r *runner) raceReports(nsh int) (blocks int, distinct map[string]int) {
	distinct = map[string]int{}
	files, _ := filepath.Glob(filepath.Join(r.o.WorkDir, "race.*"))
	for _, f := range files {
		b, _ := os.ReadFile(f)
		for _, blk := range strings.Split(string(b), "==================") {
			if !strings.Contains(blk, "WARNING: DATA RACE") {
				continue
			}
			blocks++
			distinct[raceKey(blk)]++
			if len(r.races) < 3 {
				r.races = append(r.races, head(blk, 3000))
			}
		}
	}
	return
}

var reFuncLine = regexp.MustCompile(`^\s{2}([A-Za-z0-9_./*()\[\]·-]+)\(`)

// raceKey de-duplicates a race report by the innermost /repo function of each
// of the two accesses (line numbers stripped).
func raceKey(blk string) string {
	var sites []string
	cur := ""
	inAccess := false
	flush := func() {
		if inAccess {
			sites = append(sites, cur)
		}
	}
	for _, l := range strings.Split(blk, "\n") {
		t := strings.TrimSpace(l)
		if strings.HasPrefix(t, "Write at") || strings.HasPrefix(t, "Read at") || strings.HasPrefix(t, "Previous write at") || strings.HasPrefix(t, "Previous read at") {
			flush()
			inAccess, cur = true, ""
			continue
		}
		if strings.HasPrefix(t, "Goroutine ") {
			flush()
			inAccess = false
			continue
		}
		if inAccess && cur == "" {
			if m := repoFrame(l); m != nil && !strings.Contains(m[1], "verif") {
				cur = m[1]
				if i := strings.LastIndex(cur, "("); i > 0 && !strings.HasPrefix(cur[i:], "(*") {
					cur = cur[:i]
				}
			}
		}
	}
	flush()
	sort.Strings(sites)
	return strings.Join(sites, " <-> ")
}

func (r *runner) finish(nsh int, wall time.Duration) int {
	sum, distinct := r.collect(nsh)
	// race reports
	if r.info.Race {
		blocks, dist := r.raceReports(nsh)
		sum.Obs["race_report_blocks"] = int64(blocks)
		sum.Obs["race_reports_distinct"] = int64(len(dist))
		for key, n := range dist {
			repo := strings.TrimSpace(strings.ReplaceAll(key, "<->", ""))
			if repo == "" {
				r.note("race report without /repo frames ignored (%d blocks)", n)
				sum.Obs["race_reports_outside_repo"] += int64(n)
				continue
			}
			r.res = append(r.res, located{Result{Verdict: "violated", Key: "race:" + key,
				Msg: fmt.Sprintf("%d race report blocks; first reports:\n%s", n, strings.Join(r.races, "\n---\n"))}, -3, 0})
		}
	}
	// floors
	{
		in, _ := json.Marshal(map[string]interface{}{"obs": sum.Obs, "cells": sum.Cells})
		fp := filepath.Join(r.o.WorkDir, "floors.json")
		os.WriteFile(fp, in, 0644)
		out, err := exec.Command(r.o.Child, "-prop", r.o.Prop, "-tier", r.o.Tier, "-floors", fp).Output()
		if err != nil {
			r.res = append(r.res, located{Result{Verdict: "inconclusive", Key: "floors-failed", Msg: err.Error()}, -1, 0})
		} else {
			var reasons []string
			json.Unmarshal(out, &reasons)
			for _, why := range reasons {
				r.res = append(r.res, located{Result{Verdict: "inconclusive", Key: "floor", Msg: why}, -1, 0})
			}
		}
	}
	if sum.Cases < r.n {
		// every case of the list must have been begun (a case that killed its worker is begun and attributed to a suspect)
		r.res = append(r.res, located{Result{Verdict: "inconclusive", Key: "cases-missing",
			Msg: fmt.Sprintf("%d of %d cases were begun", sum.Cases, r.n)}, -1, 0})
	}

	findings := loadFindings(r.o.VerifDir)
	open := map[string]Finding{}
	for _, f := range findings {
		if f.Status == "open" && f.Property == r.o.Prop {
			open[f.Key] = f
		}
	}
	type group struct {
		first located
		n     int
	}
	viol := map[string]*group{}
	incon := map[string]*group{}
	sort.SliceStable(r.res, func(a, b int) bool { return r.res[a].Index < r.res[b].Index })
	for _, x := range r.res {
		m := viol
		if x.Verdict != "violated" {
			m = incon
		}
		if g, ok := m[x.Key]; ok {
			g.n++
		} else {
			m[x.Key] = &group{x, 1}
		}
	}
	var vkeys, ikeys []string
	for k := range viol {
		vkeys = append(vkeys, k)
	}
	for k := range incon {
		ikeys = append(ikeys, k)
	}
	sort.Strings(vkeys)
	sort.Strings(ikeys)

	unlisted, known := 0, 0
	var knownSeen []string
	if r.o.OutDir == "" {
		r.o.OutDir = r.o.VerifDir
	}
	os.RemoveAll(filepath.Join(r.o.OutDir, "replays", r.o.Prop))
	os.MkdirAll(filepath.Join(r.o.OutDir, "replays", r.o.Prop), 0755)
	for _, k := range vkeys {
		g := viol[k]
		if f, ok := open[k]; ok {
			known++
			knownSeen = append(knownSeen, k)
			fmt.Printf("KNOWN-FINDING: property=%s %s [key=%s, %d cases]\n", r.o.Prop, f.What, k, g.n)
			continue
		}
		unlisted++
		h := sha1.Sum([]byte(k))
		rp := filepath.Join(r.o.OutDir, "replays", r.o.Prop, fmt.Sprintf("%x.json", h[:6]))
		rep := map[string]interface{}{
			"property": r.o.Prop, "tier": r.o.Tier, "seed": r.o.Seed, "index": g.first.Index,
			"shard": g.first.Shard, "nshards": nsh, "key": k, "msg": g.first.Msg, "case": g.first.Case, "count": g.n,
		}
		b, _ := json.MarshalIndent(rep, "", " ")
		os.WriteFile(rp, b, 0644)
		fmt.Printf("VIOLATION property=%s replay=%s\n", r.o.Prop, rp)
		fmt.Printf("  key=%s cases=%d\n  %s\n", k, g.n, head(strings.ReplaceAll(g.first.Msg, "\n", "\n  "), 1800))
	}
	for _, k := range ikeys {
		g := incon[k]
		fmt.Printf("INCONCLUSIVE property=%s what=%s (%d) %s\n", r.o.Prop, k, g.n, head(g.first.Msg, 600))
	}

	// evidence
	cov := map[string]interface{}{
		"evaluations":         sum.Evals,
		"distinct_nontrivial": distinct,
		"rule":                r.info.Rule,
		"samples":             sum.Samples,
		"cases_in_list":       r.n,
		"cases_run":           sum.Cases,
		"cases_out_of_domain": sum.Skips,
		"shards":              nsh,
		"observed":            sum.Obs,
		"observed_max":        sum.Maxes,
		"cells_hit":           len(sum.Cells),
		"cells":               capList(sum.Cells, 400),
		"known_findings_seen": knownSeen,
		"inconclusive":        len(ikeys),
		"notes":               r.notes,
	}
	if r.exh {
		cov["exhaustive"] = true
	}
	if r.info.Level == "translation_validation" {
		cov["programs"] = sum.Obs["programs"]
		cov["disagreements_checked"] = sum.Obs["disagreements_checked"]
	}
	if len(sum.Samples) == 0 {
		cov["samples"] = []interface{}{map[string]string{"note": "no worker finished its shard, so no sample was handed over"}}
	}
	ev := map[string]interface{}{
		"property_id": r.o.Prop,
		"tier":        r.o.Tier,
		"seed":        r.o.Seed,
		"level":       r.info.Level,
		"coverage":    cov,
		"assumptions": r.info.Assumptions,
		"wall_s":      wall.Seconds(),
		"violations":  unlisted,
	}
	b, _ := json.MarshalIndent(ev, "", " ")
	os.MkdirAll(filepath.Join(r.o.OutDir, "evidence"), 0755)
	os.WriteFile(filepath.Join(r.o.OutDir, "evidence", r.o.Prop+".json"), b, 0644)

	fmt.Printf("SUMMARY property=%s tier=%s seed=%d cases=%d/%d evaluations=%d distinct_nontrivial=%d skipped=%d violations=%d known=%d inconclusive=%d wall=%.1fs\n",
		r.o.Prop, r.o.Tier, r.o.Seed, sum.Cases, r.n, sum.Evals, distinct, sum.Skips, unlisted, known, len(ikeys), wall.Seconds())
	var obsKeys []string
	for k := range sum.Obs {
		obsKeys = append(obsKeys, k)
	}
	sort.Strings(obsKeys)
	var ob bytes.Buffer
	for _, k := range obsKeys {
		fmt.Fprintf(&ob, " %s=%d", k, sum.Obs[k])
	}
	fmt.Printf("OBSERVED%s cells=%d\n", ob.String(), len(sum.Cells))
	switch {
	case unlisted > 0:
		return 1
	case len(ikeys) > 0:
		return 2
	}
	return 0
}

func capList(l []string, n int) []string {
	if len(l) > n {
		return append(append([]string{}, l[:n]...), fmt.Sprintf("… %d more", len(l)-n))
	}
	return l
}

func (r *runner) replay() int {
	b, err := os.ReadFile(r.o.Replay)
	if err != nil {
		fmt.Println("cannot read replay file:", err)
		return 2
	}
	var rep struct {
		Property string
		Tier     string
		Seed     uint64
		Index    int
		Shard    int
		Nshards  int
		Key      string
		Case     map[string]interface{}
	}
	if err := json.Unmarshal(b, &rep); err != nil {
		fmt.Println("bad replay file:", err)
		return 2
	}
	if rep.Index < 0 {
		fmt.Printf("replay: this witness is a whole-run observation (index %d); re-running the %s tier\n", rep.Index, rep.Tier)
		r.o.Replay = ""
		r.o.Tier, r.o.Seed = rep.Tier, rep.Seed
		return Main(r.o)
	}
	r.o.Tier, r.o.Seed = rep.Tier, rep.Seed
	if rep.Nshards < 1 {
		rep.Nshards = 1
	}
	if sf, ok := rep.Case["sequence_from"].(float64); ok {
		// the witness is a stretch of one shard's sequence, not one case
		if from, site, dump, ok := r.reproduceInSequence(rep.Index, rep.Shard, rep.Nshards, int(sf)); ok {
			fmt.Printf("replay: cases %d..%d of shard %d/%d never return (or kill the process) at %s\n%s\n", from, rep.Index, rep.Shard, rep.Nshards, site, dump)
			fmt.Printf("VIOLATION property=%s replay=%s\n", r.o.Prop, r.o.Replay)
			return 1
		}
		fmt.Printf("replay: the sequence %d..%d of shard %d/%d ran to its end\n", int(sf), rep.Index, rep.Shard, rep.Nshards)
		return 0
	}
	r.isolate(rep.Index, rep.Shard, rep.Nshards, 0, false, "", rep.Index)
	code := 0
	for _, x := range r.res {
		fmt.Printf("replay: case %d verdict=%s key=%s\n  %s\n", x.Index, x.Verdict, x.Key, head(x.Msg, 3000))
		if x.Verdict == "violated" {
			code = 1
			fmt.Printf("VIOLATION property=%s replay=%s\n", r.o.Prop, r.o.Replay)
		} else if x.Verdict == "inconclusive" && x.Key != "suspect-not-reproduced" && code == 0 {
			code = 2
		}
	}
	if code == 0 {
		fmt.Printf("replay: case %d held\n", rep.Index)
	}
	return code
}
