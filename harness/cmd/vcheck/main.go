// vcheck is the supervisor; it does not link against the code under test.
package main

import (
	"flag"
	"os"
	"strconv"
	"time"

	"verif/sup"
)

func main() {
	var o sup.Options
	flag.StringVar(&o.Prop, "prop", "", "property id")
	flag.StringVar(&o.Tier, "tier", "quick", "quick|thorough")
	flag.StringVar(&o.Child, "child", "", "path to vchild")
	flag.StringVar(&o.VerifDir, "verif", "/verif", "verif dir")
	flag.StringVar(&o.OutDir, "out", "", "where evidence/ and replays/ are written (default: the verif dir)")
	flag.StringVar(&o.WorkDir, "work", "", "scratch dir")
	flag.StringVar(&o.Replay, "replay", "", "replay file")
	flag.Parse()
	o.Seed = 1
	if s := os.Getenv("VERIF_SEED"); s != "" {
		if v, err := strconv.ParseUint(s, 10, 64); err == nil {
			o.Seed = v
		}
	}
	o.Shards = 16
	if s := os.Getenv("VERIF_SHARDS"); s != "" {
		o.Shards, _ = strconv.Atoi(s)
	}
	o.Stall = 180 * time.Second
	if s := os.Getenv("VERIF_STALL_S"); s != "" {
		if v, err := strconv.Atoi(s); err == nil {
			o.Stall = time.Duration(v) * time.Second
		}
	}
	os.Exit(sup.Main(o))
}
