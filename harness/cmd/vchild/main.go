// vchild is the worker: linked against the code under test (build tag verif).
package main

import (
	"verif/fw"
	_ "verif/props"
)

func main() { fw.WorkerMain() }
