package main

import (
	"fmt"
	"os"
	"strconv"

	"verif/fw"
	"verif/gen"
	"verif/ref"
)

func main() {
	i, _ := strconv.Atoi(os.Args[1])
	seed := uint64(1)
	h := fw.HashStr("C02")
	r := fw.NewRand(seed*0x9E3779B97F4A7C15 + uint64(i)*0xD1B54A32D192ED03 + h)
	g := &gen.G{R: r}
	g.O = gen.Opts{MaxDepth: 2 + r.Intn(2), Msgs: r.P(1, 2), Directives: r.P(2, 3), Autoescape: r.P(1, 2), LetShadow: true,
		Globals: r.P(1, 3), IJ: r.P(1, 3), ErrPlants: r.P(1, 4)}
	prog := g.Bundle(1+r.Intn(3), 2+r.Intn(4))
	for _, f := range prog.B.Files {
		fmt.Println(ref.FileSrc(f, ref.Layout{Multiline: true}, nil))
	}
	fmt.Println(ref.Check(prog.B))
}
