// Package jsx runs generated JavaScript: node (when installed) or otto.
package jsx

import (
	"bufio"
	"encoding/json"
	"errors"
	"fmt"
	"os"
	"os/exec"
	"path/filepath"
	"strings"
	"sync"

	"github.com/robertkrimen/otto"
)

// Engine evaluates JavaScript in a context that has soyutils.js loaded.
type Engine interface {
	Name() string
	// Reset starts a fresh context with soyutils loaded.
	Reset() error
	// Load runs code for its effects.
	Load(code string) error
	// Eval evaluates an expression and returns its value (strings verbatim, other values as JSON) and typeof.
	Eval(code string) (val string, typ string, err error)
	// ParseModule checks that code is a syntactically valid ES module.
	ParseModule(code string) error
	Close()
}

var (
	utilsOnce sync.Once
	utilsSrc  string
	utilsOtto string
	utilsErr  error
)

func repoDir() string {
	if d := os.Getenv("VERIF_REPO"); d != "" {
		return d
	}
	return "/repo"
}

func loadUtils() {
	utilsOnce.Do(func() {
		b, err := os.ReadFile(filepath.Join(repoDir(), "soyjs", "lib", "soyutils.js"))
		if err != nil {
			utilsErr = err
			return
		}
		utilsSrc = string(b)
		// otto cannot compile three of the regular expressions (as in the repository's own otto tests)
		var sb strings.Builder
		for i, l := range strings.Split(utilsSrc, "\n") {
			switch i + 1 {
			case 2565, 2579, 2586:
			default:
				sb.WriteString(l + "\n")
			}
		}
		utilsOtto = sb.String()
	})
}

// NodePath returns the node binary, or "".
func NodePath() string {
	if os.Getenv("VERIF_JS") == "otto" {
		return ""
	}
	if p, err := exec.LookPath("node"); err == nil {
		return p
	}
	cands := []string{"/usr/bin/node", "/usr/local/bin/node"}
	m, _ := filepath.Glob("/root/.nvm/versions/node/*/bin/node")
	cands = append(cands, m...)
	for _, c := range cands {
		if st, err := os.Stat(c); err == nil && !st.IsDir() {
			return c
		}
	}
	return ""
}

// New returns the preferred engine.
func New() (Engine, error) {
	loadUtils()
	if utilsErr != nil {
		return nil, utilsErr
	}
	if p := NodePath(); p != "" {
		e, err := newNode(p)
		if err == nil {
			return e, nil
		}
	}
	return &ottoEngine{}, nil
}

// ---- node

const nodeWorker = `
const vm = require('vm'), readline = require('readline');
let ctx = null;
const rl = readline.createInterface({input: process.stdin, terminal: false});
rl.on('line', (line) => {
  let r = {};
  try {
    const m = JSON.parse(line);
    if (m.cmd === 'new') { ctx = vm.createContext({console: {log() {}}}); vm.runInContext(m.code, ctx, {timeout: 20000}); r.ok = true; }
    else if (m.cmd === 'load') { vm.runInContext(m.code, ctx, {timeout: 20000}); r.ok = true; }
    else if (m.cmd === 'eval') { const v = vm.runInContext(m.code, ctx, {timeout: 20000}); r.ok = true; r.type = typeof v; r.result = (typeof v === 'string') ? v : JSON.stringify(v); if (r.result === undefined) r.result = String(v); }
    else if (m.cmd === 'module') { new vm.SourceTextModule(m.code); r.ok = true; }
    else { r.ok = false; r.error = 'bad cmd'; }
  } catch (e) { r.ok = false; r.error = String((e && e.stack) || e).slice(0, 3000); }
  process.stdout.write(JSON.stringify(r) + '\n');
});
`

type nodeEngine struct {
	cmd *exec.Cmd
	in  *bufio.Writer
	out *bufio.Reader
	mu  sync.Mutex
}

func newNode(path string) (*nodeEngine, error) {
	cmd := exec.Command(path, "--experimental-vm-modules", "--no-warnings", "-e", nodeWorker)
	stdin, err := cmd.StdinPipe()
	if err != nil {
		return nil, err
	}
	stdout, err := cmd.StdoutPipe()
	if err != nil {
		return nil, err
	}
	cmd.Stderr = nil
	if err := cmd.Start(); err != nil {
		return nil, err
	}
	e := &nodeEngine{cmd: cmd, in: bufio.NewWriter(stdin), out: bufio.NewReaderSize(stdout, 1<<20)}
	if err := e.Reset(); err != nil {
		e.Close()
		return nil, err
	}
	return e, nil
}

type nodeResp struct {
	Ok     bool   `json:"ok"`
	Result string `json:"result"`
	Type   string `json:"type"`
	Error  string `json:"error"`
}

func (e *nodeEngine) rt(cmd, code string) (nodeResp, error) {
	e.mu.Lock()
	defer e.mu.Unlock()
	b, _ := json.Marshal(map[string]string{"cmd": cmd, "code": code})
	e.in.Write(b)
	e.in.WriteByte('\n')
	if err := e.in.Flush(); err != nil {
		return nodeResp{}, fmt.Errorf("node worker: %v", err)
	}
	line, err := e.out.ReadBytes('\n')
	if err != nil {
		return nodeResp{}, fmt.Errorf("node worker died: %v", err)
	}
	var r nodeResp
	if err := json.Unmarshal(line, &r); err != nil {
		return nodeResp{}, fmt.Errorf("node worker: bad reply %q", line)
	}
	return r, nil
}

// EngineError marks a failure of the engine itself (as opposed to a JavaScript error).
type EngineError struct{ error }

func (e *nodeEngine) do(cmd, code string) (nodeResp, error) {
	r, err := e.rt(cmd, code)
	if err != nil {
		return r, EngineError{err}
	}
	if !r.Ok {
		return r, errors.New(r.Error)
	}
	return r, nil
}

func (e *nodeEngine) Name() string { return "node" }
func (e *nodeEngine) Reset() error { _, err := e.do("new", utilsSrc); return err }
func (e *nodeEngine) Load(code string) error {
	_, err := e.do("load", code)
	return err
}
func (e *nodeEngine) Eval(code string) (string, string, error) {
	r, err := e.do("eval", code)
	return r.Result, r.Type, err
}
func (e *nodeEngine) ParseModule(code string) error {
	_, err := e.do("module", code)
	return err
}
func (e *nodeEngine) Close() {
	e.cmd.Process.Kill()
	e.cmd.Wait()
}

// ---- otto

type ottoEngine struct{ vm *otto.Otto }

func (e *ottoEngine) Name() string { return "otto" }
func (e *ottoEngine) Reset() error {
	e.vm = otto.New()
	_, err := e.vm.Run(utilsOtto)
	return err
}
func (e *ottoEngine) Load(code string) (err error) {
	defer func() {
		if r := recover(); r != nil {
			err = EngineError{fmt.Errorf("otto panic: %v", r)}
		}
	}()
	_, err = e.vm.Run(code)
	return err
}
func (e *ottoEngine) Eval(code string) (val string, typ string, err error) {
	defer func() {
		if r := recover(); r != nil {
			err = EngineError{fmt.Errorf("otto panic: %v", r)}
		}
	}()
	v, err := e.vm.Run(code)
	if err != nil {
		return "", "", err
	}
	switch {
	case v.IsString():
		return v.String(), "string", nil
	case v.IsUndefined():
		return "undefined", "undefined", nil
	case v.IsFunction():
		return "function", "function", nil
	}
	j, err := e.vm.Call("JSON.stringify", nil, v)
	if err != nil {
		return v.String(), "object", nil
	}
	t := "object"
	if v.IsNumber() {
		t = "number"
	} else if v.IsBoolean() {
		t = "boolean"
	}
	return j.String(), t, nil
}
func (e *ottoEngine) ParseModule(code string) error {
	var sb strings.Builder
	for _, l := range strings.Split(code, "\n") {
		if strings.HasPrefix(l, "import ") {
			sb.WriteString("// " + l + "\n")
			continue
		}
		sb.WriteString(strings.Replace(l, "export function ", "function ", 1) + "\n")
	}
	_, err := otto.New().Compile("", sb.String())
	return err
}
func (e *ottoEngine) Close() {}
