package jsx

import "testing"

func TestEngines(t *testing.T) {
	e, err := New()
	if err != nil {
		t.Fatal(err)
	}
	defer e.Close()
	t.Log("engine:", e.Name())
	if err := e.Load("var ns = {}; ns.f = function(d){ return soy.$$escapeHtml(d.x) + ' '.length; };"); err != nil {
		t.Fatal(err)
	}
	v, typ, err := e.Eval(`ns.f({"x":"<a>"})`)
	if err != nil || v != "&lt;a&gt;1" || typ != "string" {
		t.Fatal(v, typ, err)
	}
	if err := e.ParseModule("import { a } from 'a.js';\nexport function f(x) { return x; }\n"); err != nil {
		t.Fatal(err)
	}
	if err := e.ParseModule("export function f(x) { return x +; }\n"); err == nil {
		t.Fatal("expected syntax error")
	}
	o := &ottoEngine{}
	if err := o.Reset(); err != nil {
		t.Fatal(err)
	}
	o.Load("var ns = {}; ns.f = function(d){ return soy.$$escapeHtml(d.x); };")
	v, _, err = o.Eval(`ns.f({"x":"<a>"})`)
	if err != nil || v != "&lt;a&gt;" {
		t.Fatal(v, err)
	}
}
