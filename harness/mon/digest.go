// Package mon holds monitors that are independent of any one property.
package mon

import (
	"fmt"
	"hash/fnv"
	"reflect"
	"sort"
)

// Digest computes a deep structural digest of any Go value through exported
// and unexported fields: every scalar, string, slice length and element, map
// entry (in sorted key order) and the address of every pointer, slice backing
// array and map, so that both a changed value and a re-pointed child are seen.
func Digest(v interface{}) uint64 {
	d := &digester{h: fnv.New64a(), seen: map[uintptr]bool{}}
	d.walk(reflect.ValueOf(v), 0)
	return d.sum()
}

type digester struct {
	h interface {
		Write([]byte) (int, error)
		Sum64() uint64
	}
	seen map[uintptr]bool
	n    int
}

func (d *digester) sum() uint64 { return d.h.Sum64() }

func (d *digester) w(s string) { d.h.Write([]byte(s)); d.h.Write([]byte{0}) }

func (d *digester) walk(v reflect.Value, depth int) {
	d.n++
	if !v.IsValid() {
		d.w("<invalid>")
		return
	}
	if depth > 200 {
		d.w("<deep>")
		return
	}
	d.w(v.Type().String())
	switch v.Kind() {
	case reflect.Bool:
		d.w(fmt.Sprint(v.Bool()))
	case reflect.Int, reflect.Int8, reflect.Int16, reflect.Int32, reflect.Int64:
		d.w(fmt.Sprint(v.Int()))
	case reflect.Uint, reflect.Uint8, reflect.Uint16, reflect.Uint32, reflect.Uint64, reflect.Uintptr:
		d.w(fmt.Sprint(v.Uint()))
	case reflect.Float32, reflect.Float64:
		d.w(fmt.Sprintf("%x", v.Float()))
	case reflect.String:
		d.w(v.String())
	case reflect.Ptr:
		if v.IsNil() {
			d.w("nil")
			return
		}
		p := v.Pointer()
		d.w(fmt.Sprintf("ptr@%x", p))
		if d.seen[p] {
			return
		}
		d.seen[p] = true
		d.walk(v.Elem(), depth+1)
	case reflect.Interface:
		if v.IsNil() {
			d.w("nil")
			return
		}
		d.walk(v.Elem(), depth+1)
	case reflect.Slice:
		if v.IsNil() {
			d.w("nilslice")
			return
		}
		d.w(fmt.Sprintf("slice@%x len=%d", v.Pointer(), v.Len()))
		if v.Type().Elem().Kind() == reflect.Uint8 {
			d.h.Write(v.Bytes())
			return
		}
		for i := 0; i < v.Len(); i++ {
			d.walk(v.Index(i), depth+1)
		}
	case reflect.Array:
		for i := 0; i < v.Len(); i++ {
			d.walk(v.Index(i), depth+1)
		}
	case reflect.Map:
		if v.IsNil() {
			d.w("nilmap")
			return
		}
		d.w(fmt.Sprintf("map@%x len=%d", v.Pointer(), v.Len()))
		keys := v.MapKeys()
		sort.Slice(keys, func(i, j int) bool { return fmt.Sprint(keys[i]) < fmt.Sprint(keys[j]) })
		for _, k := range keys {
			d.walk(k, depth+1)
			d.walk(v.MapIndex(k), depth+1)
		}
	case reflect.Struct:
		for i := 0; i < v.NumField(); i++ {
			d.w(v.Type().Field(i).Name)
			d.walk(v.Field(i), depth+1)
		}
	case reflect.Func, reflect.Chan, reflect.UnsafePointer:
		if v.IsNil() {
			d.w("nil")
		} else {
			d.w(fmt.Sprintf("@%x", v.Pointer()))
		}
	default:
		d.w("<" + v.Kind().String() + ">")
	}
}

// DigestCount returns the digest and how many values were visited.
func DigestCount(v interface{}) (uint64, int) {
	d := &digester{h: fnv.New64a(), seen: map[uintptr]bool{}}
	d.walk(reflect.ValueOf(v), 0)
	return d.sum(), d.n
}
