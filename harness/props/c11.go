package props

import (
	"bytes"
	"fmt"
	"github.com/robfig/soy/ast"
	"os"
	"os/exec"
	"path/filepath"
	"strconv"
	"strings"

	"github.com/robfig/gettext/po"
	"github.com/robfig/soy/soyhtml"
	"github.com/robfig/soy/soyjs"
	"github.com/robfig/soy/soymsg"
	"github.com/robfig/soy/soymsg/pomsg"

	"verif/fw"
	"verif/jsx"
	"verif/ref"
)

// ---- message generator for the round trip

func c11Placeholder(r *fw.Rand) ref.Node {
	a, b := &ref.DataRef{Name: "a"}, &ref.DataRef{Name: "b"}
	one, two := &ref.Lit{V: ref.Int(1)}, &ref.Lit{V: ref.Int(2)}
	switch r.Intn(24) {
	case 21: // bracket access with keys that are not identifiers
		return &ref.Print{E: &ref.DataRef{Name: "m", Acc: []ref.Acc{{Kind: 2, Arg: &ref.Lit{V: ref.Str("first-name")}}}}}
	case 22:
		return &ref.Print{E: &ref.DataRef{Name: "m", Acc: []ref.Acc{{Kind: 2, Arg: &ref.Lit{V: ref.Str("a b")}}}}}
	case 23:
		return &ref.Print{E: &ref.DataRef{Name: "m", Acc: []ref.Acc{{Kind: 2, Arg: &ref.Lit{V: ref.Str("s")}}}}}
	case 18: // calls that differ only inside a content param are different placeholders
		return &ref.CallT{Target: "c11.callee", NameSrc: ".callee", Params: []ref.Param{{Name: "p", IsContent: true, Content: []ref.Node{&ref.Raw{Text: "yes, "}, &ref.Print{E: &ref.DataRef{Name: "s"}}}}}}
	case 19:
		return &ref.CallT{Target: "c11.callee", NameSrc: ".callee", Params: []ref.Param{{Name: "p", IsContent: true, Content: []ref.Node{&ref.Raw{Text: "no"}}}}}
	case 20:
		return &ref.CallT{Target: "c11.callee", NameSrc: ".callee", Params: []ref.Param{{Name: "p", IsContent: true, Content: []ref.Node{&ref.Raw{Text: "yes, "}, &ref.Print{E: &ref.DataRef{Name: "t"}}}}}}
	case 15: // ... and so is the same expression under the same directive with other arguments
		return &ref.Print{E: &ref.DataRef{Name: "s"}, Dirs: []ref.Dir{{Name: "truncate", Args: []ref.Expr{&ref.Lit{V: ref.Int(int64(3 + r.Intn(2)))}}}}}
	case 16:
		return &ref.Print{E: &ref.DataRef{Name: "s"}, Dirs: []ref.Dir{{Name: "truncate", Args: []ref.Expr{&ref.Lit{V: ref.Int(2)}, &ref.Lit{V: ref.Bool(false)}}}}}
	case 17:
		return &ref.Print{E: &ref.DataRef{Name: "t"}, Dirs: []ref.Dir{{Name: "truncate", Args: []ref.Expr{&ref.Lit{V: ref.Int(int64(1 + r.Intn(3)))}}}, {Name: "id"}}}
	case 12: // the same expression under different directives is a different placeholder
		return &ref.Print{E: &ref.DataRef{Name: "s"}, Dirs: []ref.Dir{{Name: "noAutoescape"}}}
	case 13:
		return &ref.Print{E: &ref.DataRef{Name: "s"}, Dirs: []ref.Dir{{Name: "truncate", Args: []ref.Expr{&ref.Lit{V: ref.Int(2)}}}}}
	case 14:
		return &ref.Print{E: &ref.DataRef{Name: "t"}, Dirs: []ref.Dir{{Name: "escapeHtml"}, {Name: "id"}}}
	case 0:
		return &ref.Print{E: &ref.DataRef{Name: "s"}}
	case 1:
		return &ref.Print{E: &ref.DataRef{Name: "t"}}
	case 2:
		return &ref.Print{E: a}
	case 3:
		return &ref.Print{E: &ref.DataRef{Name: "m", Acc: []ref.Acc{{Kind: 0, Key: "s"}}}}
	case 4:
		return &ref.Print{E: &ref.DataRef{Name: "m", Acc: []ref.Acc{{Kind: 0, Key: "a"}}}}
	case 5: // ($a + 1) * 2   -- differs from the next only by parentheses
		return &ref.Print{E: &ref.Binary{Op: "*", L: &ref.Binary{Op: "+", L: a, R: one}, R: two}, Explicit: true}
	case 6: // $a + 1 * 2
		return &ref.Print{E: &ref.Binary{Op: "+", L: a, R: &ref.Binary{Op: "*", L: one, R: two}}}
	case 7: // $a - ($b - 1)  vs  $a - $b - 1
		return &ref.Print{E: &ref.Binary{Op: "-", L: a, R: &ref.Binary{Op: "-", L: b, R: one}}}
	case 8:
		return &ref.Print{E: &ref.Binary{Op: "-", L: &ref.Binary{Op: "-", L: a, R: b}, R: one}}
	case 9: // strings that differ only by an escape
		return &ref.Print{E: &ref.Binary{Op: "+", L: &ref.DataRef{Name: "s"}, R: &ref.Lit{V: ref.Str("a'b")}}}
	case 10:
		return &ref.Print{E: &ref.Binary{Op: "+", L: &ref.DataRef{Name: "s"}, R: &ref.Lit{V: ref.Str("a\\b")}}}
	default:
		return &ref.CallT{Target: "c11.callee", NameSrc: ".callee", Params: []ref.Param{{Name: "p", E: &ref.DataRef{Name: []string{"s", "t", "a"}[r.Intn(3)]}}}}
	}
}

var c11Words = []string{"Hello", "you have", "items in", "your cart", "Click", "here", "to see", "and", "from", "total:"}
var c11Tags = []string{"<b>", "</b>", "<a href=\"/x\">", "</a>", "<br/>", "<i>", "</i>", "<my-button kind=\"ok\">", "</my-button>", "<o:p>", "</o:p>", "<x-1/>", "<h2>", "</h2>"}

func c11Parts(r *fw.Rand, allowCall bool) []ref.Node {
	var out []ref.Node
	n := 2 + r.Intn(5)
	for i := 0; i < n; i++ {
		switch r.Intn(5) {
		case 0, 1:
			t := c11Words[r.Intn(len(c11Words))]
			if r.P(1, 3) {
				t += " " + c11Tags[r.Intn(len(c11Tags))] + c11Words[r.Intn(len(c11Words))]
			}
			out = append(out, &ref.Raw{Text: " " + t + " "})
		default:
			p := c11Placeholder(r)
			if _, isCall := p.(*ref.CallT); isCall && !allowCall {
				p = &ref.Print{E: &ref.DataRef{Name: "s"}}
			}
			switch r.Intn(12) {
			case 0:
				// literal braces right around a placeholder: "{{NAME}}" in the catalogue
				out = append(out, &ref.Special{Name: "lb"}, p, &ref.Special{Name: "rb"})
			case 1:
				out = append(out, &ref.Special{Name: "lb"}, &ref.Raw{Text: "ID_"}, p, &ref.Special{Name: "rb"})
			default:
				out = append(out, p)
			}
		}
	}
	// merge adjacent text; trim the ends (template text rules would trim them anyway at block boundaries? no: they are kept, but PO tools dislike them)
	var merged []ref.Node
	for _, n := range out {
		if rw, ok := n.(*ref.Raw); ok && len(merged) > 0 {
			if p, ok := merged[len(merged)-1].(*ref.Raw); ok {
				p.Text = strings.TrimRight(p.Text, " ") + " " + strings.TrimLeft(rw.Text, " ")
				continue
			}
		}
		merged = append(merged, n)
	}
	if rw, ok := merged[0].(*ref.Raw); ok {
		rw.Text = strings.TrimLeft(rw.Text, " ")
	}
	if rw, ok := merged[len(merged)-1].(*ref.Raw); ok {
		rw.Text = strings.TrimRight(rw.Text, " ")
	}
	var out2 []ref.Node
	for _, n := range merged {
		if rw, ok := n.(*ref.Raw); ok && rw.Text == "" {
			continue
		}
		out2 = append(out2, n)
	}
	if len(out2) == 0 {
		out2 = []ref.Node{&ref.Raw{Text: "x"}}
	}
	return out2
}

// c11Edges sometimes puts a special-character command at an end of a message body (a line break, a tab, a space):
// what is at the edges of the text is part of the message.
func c11Edges(r *fw.Rand, body []ref.Node) []ref.Node {
	sp := []string{`\n`, `\t`, "sp", `\n`, `\r`}
	if r.P(1, 8) {
		body = append([]ref.Node{&ref.Special{Name: sp[r.Intn(len(sp))]}}, body...)
	}
	if r.P(1, 8) {
		body = append(body, &ref.Special{Name: sp[r.Intn(len(sp))]})
	}
	return body
}

func c11Msg(r *fw.Rand, k int) *ref.Msg {
	m := &ref.Msg{Desc: fmt.Sprintf("message %d", k)}
	if r.P(1, 6) {
		// a description of several lines (written with \n in the attribute), or with a tab, a quote, a backslash
		m.Desc += []string{"\nsecond line\nthird", "\twith a tab", " \"quoted\" \\ backslash", "\n"}[r.Intn(4)]
	}
	if r.P(1, 4) {
		m.Meaning = []string{"noun", "verb"}[r.Intn(2)]
	}
	if r.P(1, 3) {
		p := &ref.Plural{E: &ref.DataRef{Name: "n"}}
		if r.P(1, 3) {
			p.E = &ref.Call{Fn: "length", Args: []ref.Expr{&ref.DataRef{Name: "l"}}}
		}
		p.Cases = []ref.PluralCase{{N: 1, Body: c11Edges(r, c11Parts(r, false))}}
		p.Default = c11Edges(r, c11Parts(r, false))
		m.Body = []ref.Node{p}
		return m
	}
	m.Body = c11Edges(r, c11Parts(r, true))
	return m
}

// c11Twin copies a message, replacing placeholder expressions by others with the same placeholder name.
func c11Twin(m *ref.Msg) *ref.Msg {
	changed := false
	swap := func(n ref.Node) ref.Node {
		p, ok := n.(*ref.Print)
		if !ok {
			return n
		}
		d, ok := p.E.(*ref.DataRef)
		if !ok {
			return n
		}
		switch {
		case d.Name == "s" && len(d.Acc) == 0:
			changed = true
			return &ref.Print{E: &ref.DataRef{Name: "m", Acc: []ref.Acc{{Kind: 0, Key: "s"}}}}
		case d.Name == "a" && len(d.Acc) == 0:
			changed = true
			return &ref.Print{E: &ref.DataRef{Name: "m", Acc: []ref.Acc{{Kind: 0, Key: "a"}}}}
		case d.Name == "m" && len(d.Acc) == 1 && d.Acc[0].Key == "s":
			changed = true
			return &ref.Print{E: &ref.DataRef{Name: "s"}}
		case d.Name == "m" && len(d.Acc) == 1 && d.Acc[0].Key == "a":
			changed = true
			return &ref.Print{E: &ref.DataRef{Name: "a"}}
		}
		return n
	}
	var copyParts func(ns []ref.Node) []ref.Node
	copyParts = func(ns []ref.Node) []ref.Node {
		var out []ref.Node
		for _, n := range ns {
			switch n := n.(type) {
			case *ref.Raw:
				out = append(out, &ref.Raw{Text: n.Text})
			case *ref.Plural:
				p := &ref.Plural{E: n.E, Default: copyParts(n.Default)}
				for _, c := range n.Cases {
					p.Cases = append(p.Cases, ref.PluralCase{N: c.N, Body: copyParts(c.Body)})
				}
				out = append(out, p)
			default:
				out = append(out, swap(n))
			}
		}
		return out
	}
	t := &ref.Msg{Desc: m.Desc + " (twin)", Meaning: m.Meaning, Body: copyParts(m.Body)}
	if !changed {
		return nil
	}
	// the twin must really have the same id (a placeholder named after both $s and $m.s in one message would get suffixes)
	if ref.ModelMsg(t).ID != ref.ModelMsg(m).ID {
		return nil
	}
	return t
}

// c11Bundle: messages at top level, in a loop, in a callee.
func c11Bundle(r *fw.Rand) (*ref.Bundle, []*ref.Msg) {
	var msgs []*ref.Msg
	mk := func() *ref.Msg { m := c11Msg(r, len(msgs)); msgs = append(msgs, m); return m }
	main := &ref.Template{Name: "main", Params: []ref.ParamDecl{{Name: "a"}, {Name: "b"}, {Name: "n"}, {Name: "s"}, {Name: "t"}, {Name: "m"}, {Name: "l"}}}
	use := func(v string) ref.Node {
		return &ref.If{Conds: []ref.Expr{&ref.Call{Fn: "isNonnull", Args: []ref.Expr{&ref.DataRef{Name: v}}}}, Bodies: [][]ref.Node{{}}}
	}
	for _, v := range []string{"a", "b", "n", "s", "t", "m", "l"} {
		main.Body = append(main.Body, use(v))
	}
	main.Body = append(main.Body, &ref.Raw{Text: "["}, mk(), &ref.Raw{Text: "]"})
	if r.Bool() {
		main.Body = append(main.Body, &ref.Foreach{Var: "q", List: &ref.DataRef{Name: "l"}, Keyword: "foreach",
			Body: []ref.Node{&ref.Print{E: &ref.DataRef{Name: "q"}}, &ref.Raw{Text: ":"}, mk(), &ref.Raw{Text: ";"}}})
	}
	if r.Bool() {
		main.Body = append(main.Body, &ref.Raw{Text: "{"}, mk(), &ref.Raw{Text: "}"})
		main.Body[len(main.Body)-3] = &ref.Special{Name: "lb"}
		main.Body[len(main.Body)-1] = &ref.Special{Name: "rb"}
	}
	if r.Bool() {
		// messages in branches: one branch is not taken at run time, yet its message is in the catalogue like any other
		cond := &ref.Binary{Op: "==", L: &ref.DataRef{Name: "a"}, R: &ref.Lit{V: ref.Int(int64(r.Intn(2) * 7))}}
		iff := &ref.If{Conds: []ref.Expr{cond}, Bodies: [][]ref.Node{{&ref.Raw{Text: "then:"}, mk()}}}
		if r.Bool() {
			iff.HasElse, iff.Else = true, []ref.Node{&ref.Raw{Text: "else:"}, mk()}
		}
		main.Body = append(main.Body, iff, &ref.Raw{Text: "after:"}, mk())
	}
	if r.P(1, 3) {
		// a message in the {ifempty} branch of a loop over nothing
		main.Body = append(main.Body, &ref.Foreach{Var: "q", List: &ref.ListLit{}, Keyword: "foreach", Body: []ref.Node{&ref.Raw{Text: "never"}},
			HasEmpty: true, IfEmpty: []ref.Node{&ref.Raw{Text: "empty:"}, mk()}})
	}
	if r.Bool() {
		// messages inside content blocks: their translated text belongs to the block, like everything else in it
		if r.Bool() {
			main.Body = append(main.Body, &ref.LetContent{Name: "w", Body: []ref.Node{&ref.Raw{Text: "<"}, mk(), &ref.Raw{Text: ">"}}}, &ref.Raw{Text: "let["},
				&ref.Print{E: &ref.DataRef{Name: "w"}, Dirs: []ref.Dir{{Name: "noAutoescape"}}}, &ref.Raw{Text: "]"})
		} else {
			main.Body = append(main.Body, &ref.Raw{Text: "param["}, &ref.CallT{Target: "c11.callee", NameSrc: ".callee",
				Params: []ref.Param{{Name: "p", IsContent: true, Content: []ref.Node{&ref.Raw{Text: "<"}, mk(), &ref.Raw{Text: ">"}}}}}, &ref.Raw{Text: "]"})
		}
	}
	if r.P(2, 3) {
		// a twin of the first message: same text and placeholder names (hence the same id and one catalogue
		// entry), but its placeholders stand for other expressions ($s <-> $m.s, $a <-> $m.a, $t <-> $s + 'x')
		twin := c11Twin(msgs[0])
		if twin != nil {
			msgs = append(msgs, twin)
			main.Body = append(main.Body, &ref.Raw{Text: "|twin:"}, twin, &ref.Raw{Text: "|"})
		}
	}
	main.Body = append(main.Body, &ref.CallT{Target: "c11.sub", NameSrc: ".sub", DataAll: true, SelfClose: true})
	sub := &ref.Template{Name: "sub", Params: main.Params}
	for _, v := range []string{"a", "b", "n", "s", "t", "m", "l"} {
		sub.Body = append(sub.Body, use(v))
	}
	sub.Body = append(sub.Body, &ref.Raw{Text: "<sub>"}, mk(), &ref.Raw{Text: "</sub>"})
	callee := &ref.Template{Name: "callee", Params: []ref.ParamDecl{{Name: "p"}}, Body: []ref.Node{&ref.Raw{Text: "("}, &ref.Print{E: &ref.DataRef{Name: "p"}}, &ref.Raw{Text: ")"}}}
	f := &ref.File{Name: "c11.soy", Namespace: "c11", Templates: []*ref.Template{main, sub, callee}}
	return &ref.Bundle{Files: []*ref.File{f}}, msgs
}

// ---- PO writing (the harness's own)

func poQuote(s string) string {
	return `"` + strings.NewReplacer(`\`, `\\`, `"`, `\"`, "\n", `\n`, "\t", `\t`, "\r", `\r`).Replace(s) + `"`
}

type c11Locale struct {
	name   string
	forms  int
	header string
	rule   func(n int) int
}

var c11Locales = []c11Locale{
	{"ja", 1, "nplurals=1; plural=0;", func(n int) int { return 0 }},
	{"en", 2, "nplurals=2; plural=(n != 1);", func(n int) int {
		if n != 1 {
			return 1
		}
		return 0
	}},
	{"cs", 3, "nplurals=3; plural=(n==1) ? 0 : (n>=2 && n<=4) ? 1 : 2;", func(n int) int {
		switch {
		case n == 1:
			return 0
		case n >= 2 && n <= 4:
			return 1
		}
		return 2
	}},
	{"fr", 2, "nplurals=2; plural=(n > 1);", func(n int) int {
		if n > 1 {
			return 1
		}
		return 0
	}},
	{"ru", 3, "nplurals=3; plural=(n%10==1 && n%100!=11 ? 0 : n%10>=2 && n%10<=4 && (n%100<10 || n%100>=20) ? 1 : 2);", func(n int) int {
		switch {
		case n%10 == 1 && n%100 != 11:
			return 0
		case n%10 >= 2 && n%10 <= 4 && (n%100 < 10 || n%100 >= 20):
			return 1
		}
		return 2
	}},
}

// transform of a braced string for a catalogue kind
func c11Transform(kind string, braced string, form int) string {
	parts := ref.ParseParts(braced)
	switch kind {
	case "identity":
		return braced
	case "reversed":
		// placeholders in reverse order, text segments kept in place and marked
		var phs []string
		for _, p := range parts {
			if p.Ph != "" {
				phs = append(phs, p.Ph)
			}
		}
		var b strings.Builder
		k := len(phs) - 1
		for _, p := range parts {
			if p.Ph != "" {
				b.WriteString("{" + phs[k] + "}")
				k--
			} else {
				b.WriteString("‹" + p.Text + "›")
			}
		}
		if form >= 0 {
			return fmt.Sprintf("F%d:", form) + b.String()
		}
		return b.String()
	}
	return braced
}

// c11ManyLocales: one provider over catalogues for three languages, asked for hundreds of regional locales that
// have no catalogue of their own, twice over: each request is answered with the catalogue of its own language, however
// many other locales were asked for before.
func c11ManyLocales(ctx *fw.Ctx) *fw.Result {
	dir, err := os.MkdirTemp("", "c11loc")
	if err != nil {
		return &fw.Result{Verdict: fw.Inconclusive, Key: "tempdir", Msg: err.Error()}
	}
	defer os.RemoveAll(dir)
	reg, err := compileRegistry([]srcFile{{"loc.soy", "{namespace loc}\n/** */\n{template .t}{msg desc=\"greeting\"}hello{/msg}{/template}\n"}}, nil)
	if err != nil {
		return &fw.Result{Verdict: fw.Inconclusive, Key: "locale-template", Msg: err.Error()}
	}
	var id uint64
	walkAst(reg.Templates[0].Node, func(n ast.Node) {
		if m, ok := n.(*ast.MsgNode); ok {
			id = m.ID
		}
	})
	langs := []string{"en", "fr", "de", "pt", "es"}
	for _, l := range langs {
		po := "msgid \"\"\nmsgstr \"\"\n\"Content-Type: text/plain; charset=UTF-8\\n\"\n\n#. greeting\n#: id=" + strconv.FormatUint(id, 10) + "\nmsgid \"hello\"\nmsgstr \"[" + l + "] hello\"\n"
		os.WriteFile(filepath.Join(dir, l+".po"), []byte(po), 0644)
	}
	prov, err := pomsg.Dir(dir)
	if err != nil {
		return &fw.Result{Verdict: fw.Violated, Key: "catalogue-not-loadable", Case: dir, Msg: err.Error()}
	}
	tofu := soyhtml.NewTofu(reg)
	regions := strings.Fields("AD AE AF AG AL AM AO AR AT AU AZ BA BB BD BE BF BG BH BI BJ BN BO BR BS BT BW BY BZ CA CD CF CG CH CI CL CM CN CO CR CU CV CY CZ DE DJ DK DM DO DZ EC EE EG ER ES ET FI FJ FR GA GB GD GE GH GM GN GQ GR GT GW GY HN HR HT HU ID IE IL IN IQ IR IS IT JM JO JP KE KG KH KM KR KW KZ LA LB LK LR LS LT LU LV LY MA MC MD ME MG MK ML MM MN MR MT MU MV MW MX MY MZ NA NE NG NI NL NO NP NZ OM PA PE PG PH PK PL PT PY QA RO RS RU RW SA SC SD SE SG SI SK SL SM SN SO SR SV SY SZ TD TG TH TJ TM TN TO TR TT TZ UA UG US UY UZ VE VN YE ZA ZM ZW")
	asked := 0
	for round := 0; round < 3; round++ {
		for k, rg := range regions {
			l := langs[(k+round)%len(langs)]
			if round > 0 {
				l = langs[k%len(langs)] // the same locale strings again
			}
			loc := l + "-" + rg
			b := prov.Bundle(loc)
			asked++
			if b == nil {
				return &fw.Result{Verdict: fw.Violated, Key: "locale-fallback:no-bundle", Case: loc, Msg: fmt.Sprintf("no bundle for %s although %s.po exists (request %d of this provider)", loc, l, asked)}
			}
			var buf bytes.Buffer
			if err := tofu.NewRenderer("loc.t").WithMessages(b).Execute(&buf, nil); err != nil || buf.String() != "["+l+"] hello" {
				return &fw.Result{Verdict: fw.Violated, Key: "locale-fallback:wrong-catalogue", Case: map[string]interface{}{"locale": loc, "request": asked, "round": round},
					Msg: fmt.Sprintf("request %d of one provider, locale %s: rendered %q (err %v), want %q", asked, loc, buf.String(), err, "["+l+"] hello")}
			}
		}
	}
	ctx.Obs("regional_locales_resolved", int64(asked))
	ctx.Cell("many-locales")
	return nil
}

func init() {
	fw.Register(&fw.Prop{
		ID:    "C11",
		Level: "exploration",
		Rule: "cases = seeded bundles with 2-4 messages (text with html tags, 2-6 placeholders incl. pairs of expressions that differ only by parentheses or by a string escape, calls, plurals " +
			"{case 1}/{default}; at top level, in a loop, in a callee) x catalogue kind (identity, placeholder order reversed with marked text, partial, mixed = some forms / messages left as the source text and the others reversed) x locale (ja 1 form, en and fr 2, cs and ru 3; Plural-Forms " +
			"header present or left to the library) x 3 data maps with distinct values. Pipeline: the real xgettext-soy binary (built from the tree under test) extracts a POT, the harness writes the " +
			"translated .po with its own writer, pomsg.Dir loads it, Renderer.WithMessages renders, soyjs.Write(Options.Messages) + JS engine renders. Oracles: extracted msgid = reference placeholder " +
			"string; identity catalogue = render without catalogue (en); every catalogue = reference renderer with the same translation (each placeholder's live value where the translation puts it, " +
			"plural form by the locale's rule written down in the harness); Go = JS. distinct = distinct (sources, catalogue, locale, data); non-trivial = message has >= 2 placeholders or a plural",
		N: func(tier string) int {
			if tier == "thorough" {
				return 40000
			}
			return 2000
		},
		Setup: func(tier string, seed uint64, config string) string {
			if os.Getenv("VERIF_XGETTEXT") == "" {
				return "VERIF_XGETTEXT not set (the check script builds xgettext-soy from the tree under test)"
			}
			if _, err := engine(); err != nil {
				return "no JavaScript engine: " + err.Error()
			}
			for _, l := range c11Locales[1:] {
				_ = l
			}
			return ""
		},
		Run: func(ctx *fw.Ctx, i int) fw.Result {
			if i%100 == 37 {
				if res := c11ManyLocales(ctx); res != nil {
					return *res
				}
			}
			r := ctx.Rng
			b, msgs := c11Bundle(r)
			src := ref.FileSrc(b.Files[0], ref.Layout{}, nil)
			files := []srcFile{{"c11.soy", src}}
			for _, m := range msgs {
				if strings.HasSuffix(m.Desc, "(twin)") {
					ctx.Obs("twin_messages", 1)
				}
			}
			infos := make([]*ref.MsgInfo, len(msgs))
			ambiguous := false
			for k, m := range msgs {
				infos[k] = ref.ModelMsg(m)
				if infos[k].Ambiguous {
					ambiguous = true
				}
			}
			if ambiguous {
				// (several calls in one message: the official names are not pinned down, so extraction is not compared.)
				// What does not depend on names is still judged: a catalogue holding each message's own text changes nothing.
				if reg, cerr := compileRegistry(files, nil); cerr == nil {
					ls := ref.Value{K: ref.KList, ID: 41}
					d := map[string]ref.Value{"a": ref.Int(7), "b": ref.Int(3), "n": ref.Int(2), "s": ref.Str("S<0>"), "t": ref.Str("T&t"),
						"m": ref.MapOf("a", ref.Int(40), "s", ref.Str("ms\""), "first-name", ref.Str("fn<"), "a b", ref.Int(12)), "l": ls}
					tofu := soyhtml.NewTofu(reg)
					plain, perr := render(tofu, "c11.main", d, nil, nil)
					under, uerr := render(tofu, "c11.main", d, nil, identityCatalogue(reg))
					if perr == nil {
						ctx.Obs("identity_compared_call_twins", 1)
						if uerr != nil || under != plain {
							return fw.Result{Verdict: fw.Violated, Key: "identity-translation-differs:several-calls", Case: map[string]interface{}{"files": files, "data": goData(d)},
								Msg: fmt.Sprintf("a message with several calls, rendered from the source %q and from a catalogue holding its own text %q (err %v)", fw.Trim(plain, 300), fw.Trim(under, 300), uerr)}
						}
					}
				}
				return fw.Result{Verdict: fw.Skip}
			}
			dir, err := os.MkdirTemp("", "c11")
			if err != nil {
				return fw.Result{Verdict: fw.Inconclusive, Key: "tempdir", Msg: err.Error()}
			}
			defer os.RemoveAll(dir)
			os.MkdirAll(filepath.Join(dir, "src"), 0755)
			os.MkdirAll(filepath.Join(dir, "po"), 0755)
			os.WriteFile(filepath.Join(dir, "src", "c11.soy"), []byte(src), 0644)
			if i%3 == 0 {
				// a message without content beside them: there is nothing to translate, and nothing to stumble over
				os.WriteFile(filepath.Join(dir, "src", "empty.soy"), []byte("{namespace emp}\n/** */\n{template .t}[{msg desc=\"nothing\"}{/msg}]{/template}\n"), 0644)
				ctx.Cell("empty-message-extracted")
			}
			// 1. extract with the real binary
			var stdout, stderr bytes.Buffer
			cmd := exec.Command(os.Getenv("VERIF_XGETTEXT"), filepath.Join(dir, "src"))
			cmd.Stdout, cmd.Stderr = &stdout, &stderr
			if err := cmd.Run(); err != nil {
				return fw.Result{Verdict: fw.Violated, Key: "extractor-fails", Case: files, Msg: fmt.Sprintf("xgettext-soy: %v: %s", err, fw.Trim(stderr.String(), 500))}
			}
			pot, err := po.Parse(bytes.NewReader(stdout.Bytes()))
			if err != nil {
				return fw.Result{Verdict: fw.Violated, Key: "pot-unreadable", Case: map[string]interface{}{"files": files, "pot": stdout.String()}, Msg: err.Error()}
			}
			ctx.Obs("pot_entries", int64(len(pot.Messages)))
			byID := map[uint64]po.Message{}
			for _, pm := range pot.Messages {
				for _, rf := range pm.References {
					if strings.HasPrefix(rf, "id=") {
						id, _ := strconv.ParseUint(rf[3:], 10, 64)
						byID[id] = pm
					}
				}
			}
			// 2. the extracted entries must be the messages
			for k, m := range msgs {
				pm, ok := byID[infos[k].ID]
				if !ok {
					return fw.Result{Verdict: fw.Violated, Key: "message-not-extracted", Case: map[string]interface{}{"files": files, "pot": stdout.String()},
						Msg: fmt.Sprintf("message %d (official id %d, %q) is not in the extracted catalogue", k, infos[k].ID, infos[k].PhString)}
				}
				wantID, wantPl := infos[k].PhString, ""
				if pl, isPl := m.Body[0].(*ref.Plural); isPl {
					wantID, wantPl = infos[k].Braced(pl.Cases[0].Body), infos[k].Braced(pl.Default)
				}
				if pm.Id != wantID || pm.IdPlural != wantPl || pm.Ctxt != m.Meaning {
					return fw.Result{Verdict: fw.Violated, Key: "extracted-entry-differs", Case: map[string]interface{}{"files": files, "pot": stdout.String()},
						Msg: fmt.Sprintf("message %d extracted as msgctxt=%q msgid=%q msgid_plural=%q; expected %q / %q / %q", k, pm.Ctxt, pm.Id, pm.IdPlural, m.Meaning, wantID, wantPl)}
				}
			}
			// 3. catalogues
			tofuReg, err := compileRegistry(files, nil)
			if err != nil {
				return fw.Result{Verdict: fw.Skip}
			}
			tofu := soyhtml.NewTofu(tofuReg)
			e, _ := engine()
			kind := []string{"identity", "reversed", "partial", "mixed"}[i%4]
			loc := c11Locales[(i/4)%len(c11Locales)]
			withHeader := (i/20)%2 == 0
			mixPhase := r.Intn(2)
			omitted := map[int]bool{}
			if kind == "partial" {
				// a catalogue entry is addressed by id: leaving a message out means leaving out every message with its id
				o := r.Intn(len(msgs))
				for k := range msgs {
					if infos[k].ID == infos[o].ID {
						omitted[k] = true
					}
				}
			}
			tkind := kind
			if kind == "partial" {
				tkind = "reversed"
			}
			var pof bytes.Buffer
			pof.WriteString("msgid \"\"\nmsgstr \"\"\n\"Content-Type: text/plain; charset=UTF-8\\n\"\n")
			if withHeader {
				pof.WriteString("\"Plural-Forms: " + loc.header + "\\n\"\n")
			}
			pof.WriteString("\n")
			trans := map[*ref.Msg]*ref.Translation{}
			seenID := map[uint64]bool{}
			for k, m := range msgs {
				if omitted[k] || seenID[infos[k].ID] {
					if seenID[infos[k].ID] && !omitted[k] {
						// the same message twice: one catalogue entry serves both
						for k2 := 0; k2 < k; k2++ {
							if infos[k2].ID == infos[k].ID && trans[msgs[k2]] != nil {
								trans[m] = trans[msgs[k2]]
							}
						}
					}
					continue
				}
				seenID[infos[k].ID] = true
				pm := byID[infos[k].ID]
				fmt.Fprintf(&pof, "#. %s\n#: id=%d", strings.ReplaceAll(m.Desc, "\n", "\n#. "), infos[k].ID)
				tr := &ref.Translation{}
				if pl, isPl := m.Body[0].(*ref.Plural); isPl {
					fmt.Fprintf(&pof, " var=%s\n", infos[k].PluralVar)
					if m.Meaning != "" {
						pof.WriteString("msgctxt " + poQuote(m.Meaning) + "\n")
					}
					pof.WriteString("msgid " + poQuote(pm.Id) + "\nmsgid_plural " + poQuote(pm.IdPlural) + "\n")
					sing, plur := infos[k].Braced(pl.Cases[0].Body), infos[k].Braced(pl.Default)
					for f := 0; f < loc.forms; f++ {
						src := plur
						if f == 0 && loc.forms > 1 {
							src = sing
						}
						form := f
						fk := tkind
						if kind == "mixed" {
							// some forms left as the source text, the others reordered and marked
							fk = []string{"identity", "reversed"}[(k+f+mixPhase)%2]
						}
						if fk == "identity" {
							form = -1
						}
						t := c11Transform(fk, src, form)
						fmt.Fprintf(&pof, "msgstr[%d] %s\n", f, poQuote(t))
						tr.Plural = append(tr.Plural, ref.ParseParts(t))
					}
				} else {
					pof.WriteString("\n")
					if m.Meaning != "" {
						pof.WriteString("msgctxt " + poQuote(m.Meaning) + "\n")
					}
					fk := tkind
					if kind == "mixed" {
						fk = []string{"identity", "reversed"}[(k+mixPhase)%2]
					}
					t := c11Transform(fk, infos[k].PhString, -1)
					pof.WriteString("msgid " + poQuote(pm.Id) + "\nmsgstr " + poQuote(t) + "\n")
					tr.Parts = ref.ParseParts(t)
				}
				pof.WriteString("\n")
				trans[m] = tr
			}
			os.WriteFile(filepath.Join(dir, "po", loc.name+".po"), pof.Bytes(), 0644)
			prov, err := pomsg.Dir(filepath.Join(dir, "po"))
			if err != nil {
				return fw.Result{Verdict: fw.Violated, Key: "catalogue-not-loadable", Case: map[string]interface{}{"po": pof.String()}, Msg: err.Error()}
			}
			var bundle soymsg.Bundle = prov.Bundle(loc.name)
			if bundle == nil {
				return fw.Result{Verdict: fw.Violated, Key: "catalogue-not-loadable", Case: map[string]interface{}{"po": pof.String()}, Msg: "no bundle for locale " + loc.name}
			}
			js, err := genJS(tofuReg, soyjs.Options{Messages: bundle})
			if err != nil {
				return fw.Result{Verdict: fw.Violated, Key: "js-generation-fails", Case: map[string]interface{}{"files": files, "po": pof.String()}, Msg: errText(err)}
			}
			if file, err := loadBundleJS(e, tofuReg, js); err != nil {
				if _, isEng := err.(jsx.EngineError); isEng {
					return fw.Result{Verdict: fw.Inconclusive, Key: "engine-failure", Msg: err.Error()}
				}
				return fw.Result{Verdict: fw.Violated, Key: "js-does-not-load", Case: map[string]interface{}{"files": files, "js": js[file]}, Msg: fw.Trim(err.Error(), 300)}
			}
			// the locale's plural rule for the generated JavaScript
			rules := map[string]string{"ja": "return 0;", "en": "return n != 1 ? 1 : 0;", "cs": "return n == 1 ? 0 : (n >= 2 && n <= 4) ? 1 : 2;", "fr": "return n > 1 ? 1 : 0;",
				"ru": "return (n%10==1 && n%100!=11 ? 0 : n%10>=2 && n%10<=4 && (n%100<10 || n%100>=20) ? 1 : 2);"}
			if err := e.Load("soy.$$pluralIndex = function(n) { " + rules[loc.name] + " };"); err != nil {
				return fw.Result{Verdict: fw.Inconclusive, Key: "engine-failure", Msg: err.Error()}
			}
			ctx.Cell("catalogue:" + kind)
			ctx.Cell("locale:" + loc.name)
			ctx.Cell(fmt.Sprintf("plural-forms-header:%v", withHeader))
			nontrivial := false
			for k, m := range msgs {
				if _, isPl := m.Body[0].(*ref.Plural); isPl || len(infos[k].Order) >= 2 {
					nontrivial = true
				}
			}
			for dk, n := range []int64{1, 3, []int64{0, 2, 5, 7, 22, 21, 11, 101}[r.Intn(8)]} {
				ls := ref.Value{K: ref.KList, ID: 77}
				for q := int64(0); q < []int64{1, 2, 3}[dk]; q++ {
					ls.L = append(ls.L, ref.Int(100+q))
				}
				d := map[string]ref.Value{"a": ref.Int(7 + int64(dk)), "b": ref.Int(3), "n": ref.Int(n), "s": ref.Str("S<" + strconv.Itoa(dk) + ">"), "t": ref.Str("T&t"),
					"m": ref.MapOf("a", ref.Int(40+int64(dk)), "s", ref.Str("ms\""), "first-name", ref.Str("fn<"), "a b", ref.Int(12)), "l": ls}
				cd := map[string]interface{}{"files": files, "po": pof.String(), "locale": loc.name, "catalogue": kind, "data": goData(d), "pot": stdout.String()}
				plain, perr := render(tofu, "c11.main", d, nil, nil)
				if perr != nil {
					return fw.Result{Verdict: fw.Skip}
				}
				if dk == 0 {
					// the same Tofu first under another catalogue of the same locale (every message left as it is in the
					// source): what a render is given belongs to that render
					other := identityCatalogue(tofuReg)
					other.locale = bundle.Locale()
					_, _ = render(tofu, "c11.main", d, nil, other)
					ctx.Obs("renders_under_another_catalogue_first", 1)
				}
				got, gerr := render(tofu, "c11.main", d, nil, bundle)
				id := ""
				if nontrivial {
					id = fmt.Sprintf("%s|%s|%s|%v|%d", src, kind, loc.name, withHeader, dk)
				}
				ctx.Eval(id)
				if gerr != nil {
					return fw.Result{Verdict: fw.Violated, Key: "render-with-catalogue-fails", Case: cd, Msg: errText(gerr)}
				}
				// identity translation = no catalogue (where PO can express it: en)
				if kind == "identity" && loc.name == "en" {
					ctx.Obs("identity_compared", 1)
					if got != plain {
						return fw.Result{Verdict: fw.Violated, Key: "identity-translation-differs", Case: cd,
							Msg: fmt.Sprintf("identity catalogue renders %q, without catalogue %q", fw.Trim(got, 300), fw.Trim(plain, 300))}
					}
				}
				// reference: each translated segment and each placeholder's live value where the translation puts it
				segs, st := ref.Render(b, "c11.main", d, ref.RenderOpts{
					Translate:   func(m *ref.Msg) *ref.Translation { return trans[m] },
					PluralIndex: loc.rule,
				})
				if st != ref.OK {
					return fw.Result{Verdict: fw.Inconclusive, Key: "reference-cannot-render", Case: cd}
				}
				want := ref.Text(segs)
				ctx.Obs("translated_renders_compared", 1)
				if ref.NormalizeRefs(got) != ref.NormalizeRefs(want) {
					cd["want"], cd["got"] = want, got
					return fw.Result{Verdict: fw.Violated, Key: "translated-render-differs:" + kind, Case: cd,
						Msg: fmt.Sprintf("catalogue %s, locale %s (Plural-Forms header: %v), n=%d:\n want %q\n got  %q", kind, loc.name, withHeader, n, fw.Trim(want, 400), fw.Trim(got, 400))}
				}
				if kind == "partial" {
					ctx.Obs("fallbacks_to_source", 1)
				}
				if kind == "reversed" && strings.Contains(got, "‹") {
					ctx.Obs("reordered_placeholders_rendered", 1)
				}
				// Go = JS
				jout, typ, jerr := e.Eval("c11.main(" + jsonArg(goData(d)) + ", null, {})")
				if jerr != nil || typ != "string" {
					if _, isEng := jerr.(jsx.EngineError); isEng {
						return fw.Result{Verdict: fw.Inconclusive, Key: "engine-failure", Msg: jerr.Error()}
					}
					cd["js"] = js["c11.soy"]
					return fw.Result{Verdict: fw.Violated, Key: "js-throws-with-catalogue", Case: cd, Msg: fw.Trim(fmt.Sprint(jerr), 400)}
				}
				ctx.Obs("go_js_compared", 1)
				if jout != got {
					cd["js"] = js["c11.soy"]
					return fw.Result{Verdict: fw.Violated, Key: "go-js-differ-with-catalogue", Case: cd,
						Msg: fmt.Sprintf("catalogue %s, locale %s, n=%d:\n Go %q\n JS %q", kind, loc.name, n, fw.Trim(got, 400), fw.Trim(jout, 400))}
				}
				if i%40 == 0 && dk == 0 {
					ctx.Sample(map[string]interface{}{"source": src, "catalogue": kind, "locale": loc.name, "po": pof.String(), "output": fw.Trim(got, 300)})
				}
			}
			return fw.Result{Verdict: fw.Held}
		},
		Floors: func(obs map[string]int64, cells map[string]bool, tier string) []string {
			var why []string
			if obs["pot_entries"] == 0 {
				why = append(why, "the extractor produced no entry")
			}
			if obs["twin_messages"] == 0 {
				why = append(why, "no pair of different messages sharing one id was rendered")
			}
			if obs["reordered_placeholders_rendered"] == 0 || obs["identity_compared"] == 0 || obs["fallbacks_to_source"] == 0 || obs["go_js_compared"] == 0 {
				why = append(why, "one of the catalogue kinds / oracles never ran")
			}
			if !cells["catalogue:mixed"] {
				why = append(why, "no mixed catalogue")
			}
			for _, l := range c11Locales {
				if !cells["locale:"+l.name] {
					why = append(why, "locale never used: "+l.name)
				}
			}
			return why
		},
		Assumptions: []string{
			"robfig/gettext/po is trusted to read the extractor's POT; the translated .po is written by the harness's own writer",
			"plural rules of ja/en/fr/cs/ru are written down in the harness, independent of the library's selector",
			"PO can express only {case 1}/{default} plurals (the extractor refuses others); identity is asserted for en only",
		},
	})
}
