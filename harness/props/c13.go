package props

import (
	"bytes"
	"crypto/sha1"
	"fmt"
	"github.com/robfig/soy"
	"os"
	"os/exec"
	"path/filepath"
	"sort"
	"strconv"
	"strings"

	"github.com/robfig/soy/ast"
	"github.com/robfig/soy/data"
	"github.com/robfig/soy/errortypes"
	"github.com/robfig/soy/soyhtml"
	"github.com/robfig/soy/soyjs"
	"github.com/robfig/soy/soymsg"

	"verif/fw"
	"verif/gen"
	"verif/ref"
)

// the extras file leans on everything Go maps touch in the compiler and generator
func c13Extras(variant int, withError bool) srcFile {
	var b strings.Builder
	b.WriteString("{namespace ex}\n/** @param? a\n * @param? x_1 */\n{template .main}\n")
	b.WriteString("{call .c1 /}{call .c2 /}{call .c3 /}{call .c4 /}{call .c5 /}{call .c6 /}{call .c7 /}\n")
	b.WriteString("{foreach $k in keys(['k3': 1, 'k1': 2, 'k5': 3, 'k2': 4, 'k4': 5])}{$k}{/foreach}{keys(['z': 1, 'y': 2, 'x': 3, 'w': 4])}\n")
	b.WriteString("{length(keys(['k1': 1, 'k2': 2, 'k3': 3]))}{round(2.4)}{floor(1.5)}{ceiling(1.5)}{min(1,2)}{max(1,2)}{strContains('ab','a')}{isNonnull($a)}{hasData()}\n")
	b.WriteString("{$a|escapeHtml}{$a|escapeUri}{$a|escapeJsString}{$a|truncate:5}{$a|changeNewlineToBr}{$a|insertWordBreaks:4}{$a|json}{$a|noAutoescape}\n")
	b.WriteString("{msg desc=\"collide\"}{$a.x}{$a.y.x}{$x_1} <b>bold</b> <a href=\"u\">link</a> <a href=\"v\">other</a>{/msg}\n")
	// a message of more than a kilobyte (and of more than four), then short ones: an id is a function of its own message
	b.WriteString("{msg desc=\"long\"}" + strings.Repeat("lorem ipsum dolor sit amet ", 45) + "{$a.x}" + strings.Repeat(" consectetur", 20) + "{/msg}{msg desc=\"after the long one\"}short {$a.x}{/msg}\n")
	b.WriteString("{msg desc=\"longer\"}" + strings.Repeat("sed do eiusmod tempor ", 200) + "<b>{$a.y.x}</b>{/msg}{msg desc=\"after the longer one\"}brief{/msg}{msg desc=\"and another\"}{$x_1} brief{/msg}\n")
	b.WriteString("{msg desc=\"pl\"}{plural length($a)}{case 0}none{case 1}one {$a.x}{default}{$a.y.x} many{/plural}{/msg}\n")
	b.WriteString("{call .need}{param p: ['delta': 4, 'alpha': 1, 'charlie': 3, 'bravo': 2] /}{param q: GLOBAL_INT /}{/call}\n")
	extraTemplates := ""
	if withError {
		// error texts that list several names: the order of the names is part of the text
		switch variant % 10 {
		case 9:
			// several undefined globals as values of one map literal (values have no order of their own)
			b.WriteString("{print ['kb': verif.NOPE_B, 'ka': verif.NOPE_A, 'kc': verif.NOPE_C]}\n")
		case 8:
			// an undefined global whose name is equally close to several defined ones (verif.COLOR_n, verif.SIZE_x)
			b.WriteString("{verif.COLOR_3}{verif.SIZE_M}\n")
		case 0:
			b.WriteString("{call .need}{param p: ['delta': 4, 'alpha': 1, 'charlie': 3, 'bravo': 2] /}{/call}\n") // required q missing
		case 1:
			b.WriteString("{call .nosuch}{param p: ['zulu': 1, 'alpha': 2, 'mike': 3] /}{/call}\n")
		case 2:
			b.WriteString("{print ['kb': $undeclaredB, 'ka': $undeclaredA, 'kc': $undeclaredC, 'kd': [$undeclaredD]]}\n")
		case 3:
			b.WriteString("{call .need4}{param zulu: 1 /}{/call}\n") // four required params missing
			extraTemplates = "/** @param hotel\n * @param alpha\n * @param zulu\n * @param mike\n * @param bravo */\n{template .need4}{$hotel}{$alpha}{$zulu}{$mike}{$bravo}{/template}\n"
		case 4:
			b.WriteString("{call .c1}{param whiskey: 1 /}{param alpha: 2 /}{param kilo: 3 /}{param echo: 4 /}{/call}\n") // four undeclared params
		case 5:
			b.WriteString("{let $whiskey: 1 /}{let $alpha: 2 /}{let $kilo: 3 /}{let $echo: 4 /}\n") // four unused lets
		case 6:
			extraTemplates = "/** @param hotel\n * @param alpha\n * @param zulu\n * @param mike */\n{template .unused4}x{/template}\n" // four unused params
		default:
			extraTemplates = "/** @param hotel\n * @param alpha\n * @param zulu */\n{template .scope}{$hotel}{$alpha}{$zulu}{let $mike: 1 /}{let $bravo: 2 /}{let $tango: 3 /}{$mike}{$bravo}{$tango}{$nowhere}{/template}\n"
		}
	}
	b.WriteString("{/template}\n")
	for i := 1; i <= 7; i++ {
		fmt.Fprintf(&b, "{template .c%d}c%d{/template}\n", i, i)
	}
	b.WriteString("/** @param p\n * @param q */\n{template .need}{length(keys($p))}{$q}{/template}\n")
	// a render that always fails, several lines into its template: the error names a file and a line
	b.WriteString("/** */\n{template .fail}\nbefore\n{if true}\n  {print -'x'}\n{/if}\nafter\n{/template}\n")
	// ... and one whose failing expressions are the values of a map literal
	b.WriteString("/** */\n{template .failmap}\n{print ['kb': -'b', 'ka': -'a', 'kc': -'c', 'kd': 1]}\n{/template}\n")
	b.WriteString(extraTemplates)
	return srcFile{"extras.soy", b.String()}
}

// c13Tuple compiles the files in the given order and returns everything observable, as text.
func c13Tuple(files []srcFile, globals map[string]ref.Value, entry string, d map[string]ref.Value, ij *ref.Value) string {
	var out bytes.Buffer
	// files named *.globals are globals files, added after the bundle's own globals map in name order
	var soyFiles, globalsFiles []srcFile
	for _, f := range files {
		if strings.HasSuffix(f.Name, ".globals") {
			globalsFiles = append(globalsFiles, f)
		} else {
			soyFiles = append(soyFiles, f)
		}
	}
	sort.Slice(globalsFiles, func(a, b int) bool { return globalsFiles[a].Name < globalsFiles[b].Name })
	bnd := soy.NewBundle()
	for _, f := range soyFiles {
		bnd.AddTemplateString(f.Name, f.Text)
	}
	if len(globals) > 0 {
		bnd.AddGlobalsMap(toDataMap(globals))
	}
	for _, gf := range globalsFiles {
		m, gerr := soy.ParseGlobals(strings.NewReader(gf.Text))
		if gerr != nil {
			fmt.Fprintf(&out, "GLOBALS-ERROR %s\n", gerr.Error())
			return out.String()
		}
		bnd.AddGlobalsMap(m)
	}
	c13Observe(&out, bnd, entry, d, ij)
	return out.String()
}

// c13TupleDir is c13Tuple for sources read from a directory through Bundle.AddTemplateDir.
func c13TupleDir(dir string, globals map[string]ref.Value, entry string, d map[string]ref.Value, ij *ref.Value) string {
	var out bytes.Buffer
	bnd := soy.NewBundle().AddTemplateDir(dir)
	if len(globals) > 0 {
		bnd.AddGlobalsMap(toDataMap(globals))
	}
	c13Observe(&out, bnd, entry, d, ij)
	return out.String()
}

func c13Observe(out *bytes.Buffer, bnd *soy.Bundle, entry string, d map[string]ref.Value, ij *ref.Value) {
	reg, err := bnd.Compile()
	if err != nil {
		fmt.Fprintf(out, "COMPILE-ERROR %s\n", err.Error())
		return
	}
	out.WriteString("COMPILED\n")
	// message ids and placeholder strings, keyed by file/template so that file order does not matter
	var msgs []string
	for _, t := range reg.Templates {
		k := 0
		walkAst(t.Node, func(n ast.Node) {
			if m, ok := n.(*ast.MsgNode); ok {
				msgs = append(msgs, fmt.Sprintf("MSG %s#%d %d %q", t.Node.Name, k, m.ID, soymsg.PlaceholderString(m)))
				k++
			}
		})
	}
	sort.Strings(msgs)
	out.WriteString(strings.Join(msgs, "\n") + "\n")
	// rendered output (error text of render errors embeds stack traces: only success/failure is compared)
	tofu := soyhtml.NewTofu(reg)
	for _, e := range []string{entry, "ex.main", "chain.user.main", "ex.fail", "ex.failmap"} {
		if _, ok := reg.Template(e); !ok {
			continue
		}
		got, rerr := render(tofu, e, d, ij, nil)
		fmt.Fprintf(out, "RENDER %s %s %q\n", e, c13ErrText(rerr), got)
	}
	// generated JavaScript per file, keyed by file name
	tr := translationsEmptying(reg)
	var js []string
	for _, sf := range reg.SoyFiles {
		for _, mode := range []string{"es5", "es6", "es5+msgs", "es6+msgs"} {
			var buf bytes.Buffer
			o := soyjs.Options{}
			if strings.HasPrefix(mode, "es6") {
				o.Formatter = &soyjs.ES6Formatter{}
			}
			if strings.HasSuffix(mode, "msgs") {
				o.Messages = tr
			}
			werr := soyjs.Write(&buf, sf, o)
			js = append(js, fmt.Sprintf("JS %s %s %s %x", sf.Name, mode, errClass(werr), sha1.Sum(buf.Bytes())))
		}
	}
	sort.Strings(js)
	out.WriteString(strings.Join(js, "\n") + "\n")
	// the same compiled bundle used a second time: generating and rendering again gives the same again
	for _, sf := range reg.SoyFiles {
		var buf bytes.Buffer
		werr := soyjs.Write(&buf, sf, soyjs.Options{})
		again := fmt.Sprintf("JS %s %s %s %x", sf.Name, "es5", errClass(werr), sha1.Sum(buf.Bytes()))
		found := false
		for _, l := range js {
			if l == again {
				found = true
			}
		}
		if !found {
			fmt.Fprintf(out, "SECOND-USE-DIFFERS second JavaScript generation of %s: %s\n", sf.Name, again)
		}
	}
	for _, e := range []string{entry, "ex.main", "chain.user.main", "ex.fail", "ex.failmap"} {
		if _, ok := reg.Template(e); !ok {
			continue
		}
		got, rerr := render(tofu, e, d, ij, nil)
		if line := fmt.Sprintf("RENDER %s %s %q\n", e, c13ErrText(rerr), got); !strings.Contains(out.String(), line) {
			fmt.Fprintf(out, "SECOND-USE-DIFFERS render after JavaScript generation: %s", line)
		}
	}
}

// c13ErrText is what a caller sees of a render error: its position and the first line of its text (a runtime error
// carries a stack trace after that, which names addresses).
func c13ErrText(err error) string {
	if err == nil {
		return "ok"
	}
	text := err.Error()
	if k := strings.IndexByte(text, '\n'); k >= 0 {
		text = text[:k]
	}
	pos := "no-position"
	if fp, ok := err.(errortypes.ErrFilePos); ok {
		pos = fmt.Sprintf("%s:%d:%d", fp.File(), fp.Line(), fp.Col())
	}
	return fmt.Sprintf("error[%s %q]", pos, fw.Trim(text, 300))
}

func c13Program(seed uint64, tier string) (files []srcFile, prog *gen.Program, hasErr bool) {
	r := fw.NewRand(seed)
	g := &gen.G{R: r}
	g.O = c02Opts(r, tier)
	g.O.Msgs, g.O.Globals = true, true
	prog = g.Bundle(1+r.Intn(3), 2+r.Intn(4))
	hasErr = r.P(1, 3)
	variant := r.Intn(13)
	// globals that differ in one character (an error text that offers 'the nearest name' must always offer the same one)
	if prog.B.Globals == nil {
		prog.B.Globals = map[string]ref.Value{}
	}
	for k, v := range map[string]ref.Value{"verif.COLOR_1": ref.Int(1), "verif.COLOR_2": ref.Int(2), "verif.COLOR_4": ref.Int(4), "verif.COLOR_5": ref.Int(5), "verif.SIZE_S": ref.Str("s"), "verif.SIZE_L": ref.Str("l"), "verif.SIZE_X": ref.Str("x")} {
		prog.B.Globals[k] = v
	}
	if hasErr && variant >= 10 {
		// one injected rule violation in the generated part
		kinds := []string{"undeclared-name", "unused-let", "unknown-callee", "undeclared-call-param"}
		ok, _ := inject(prog.B, kinds[r.Intn(len(kinds))], r.Intn(3))
		if !ok {
			hasErr = false
		}
		files = bundleSources(prog.B, ref.Layout{})
		files = append(files, c13Extras(variant, false))
	} else {
		files = bundleSources(prog.B, ref.Layout{})
		files = append(files, c13Extras(variant, hasErr))
	}
	if r.P(1, 6) {
		// two independent syntax errors in two files: a long file whose error is at its very end, and a tiny file whose
		// error is at its start. For one insertion order the reported error must be the same every time; under another
		// order it may be the other one (and only that).
		long := files[0]
		long.Text += "\n/** */\n{template .zzBad}\n" + strings.Repeat("some text {$ij.a} more text\n", 200) + "{if}\n{/template}\n"
		files[0] = long
		files = append(files, srcFile{"tiny.soy", "{namespace tiny}\n{template .x}{if}{/template}\n"})
		hasErr = true
	}
	if r.P(1, 3) {
		// aliases whose names chain (the last segment of one is the first segment of another): each call name is
		// resolved once, through the alias of its own first segment
		files = append(files,
			srcFile{"chainuser.soy", "{namespace chain.user}\n{alias foo.bar}\n{alias x.foo}\n{alias bar.x}\n/** */\n{template .main}{call bar.t /}{call foo.u /}{call x.v /}{call bar.t data=\"all\" /}{/template}\n"},
			srcFile{"chain1.soy", "{namespace foo.bar}\n/** */\n{template .t}T{/template}\n"},
			srcFile{"chain2.soy", "{namespace x.foo}\n/** */\n{template .u}U{/template}\n"},
			srcFile{"chain3.soy", "{namespace bar.x}\n/** */\n{template .v}V{/template}\n"})
	}
	if r.P(1, 8) {
		// a second source of globals that defines three names again: one error, always the same one
		files = append(files, srcFile{"more.globals", "// overlapping definitions\nGLOBAL_INT = 5\napp.NAME = 'x'\nOTHER = 1\nFLAG = false\n"})
		hasErr = true
	}
	if !hasErr && r.P(1, 8) {
		// one template defined in two files: one error, whose text does not depend on which file came first
		files = append(files, srcFile{"dup.soy", "{namespace ex}\n/** */\n{template .c3}again{/template}\n"})
		hasErr = true
	}
	if r.P(1, 4) && files[len(files)-1].Name != "tiny.soy" {
		// every file under one name (AddTemplateString does not ask for distinct names, or for a name at all)
		name := []string{"", "views.soy"}[r.Intn(2)]
		for k := range files {
			if strings.HasSuffix(files[k].Name, ".soy") && files[k].Name != "tiny.soy" {
				files[k].Name = name
			}
		}
	}
	if r.P(1, 2) {
		// a file that compiles but whose JavaScript cannot be generated: the function exists only in the HTML backend
		// and is met in the middle of param / data / index expressions (JS generation fails part-way)
		files = append(files, srcFile{"jsfail.soy", "{namespace jsf}\n/** @param? a */\n{template .t}\n{call .u}{param x: ($a ?: 1) + 7 * verifHtmlOnly($a) /}{/call}" +
			"{call .u data=\"['x': verifHtmlOnly(2)]\" /}{let $l: [1, 2] /}{$l[verifHtmlOnly(0)]}\n{/template}\n/** @param? x */\n{template .u}{$x ?: ''}{/template}\n"})
	}
	return
}

func firstDiff(a, b string) string {
	la, lb := strings.Split(a, "\n"), strings.Split(b, "\n")
	for i := 0; i < len(la) && i < len(lb); i++ {
		if la[i] != lb[i] {
			return fmt.Sprintf("line %d:\n  %s\n  %s", i, fw.Trim(la[i], 400), fw.Trim(lb[i], 400))
		}
	}
	return fmt.Sprintf("length %d vs %d lines", len(la), len(lb))
}

func diffKind(a, b string) string {
	la, lb := strings.Split(a, "\n"), strings.Split(b, "\n")
	for i := 0; i < len(la) && i < len(lb); i++ {
		if la[i] != lb[i] {
			f := strings.Fields(la[i])
			if len(f) == 0 {
				return "?"
			}
			k := strings.ToLower(f[0])
			if k == "js" && len(f) > 2 {
				k += "-" + f[2]
			}
			return k
		}
	}
	return "length"
}

func permutations(n int) [][]int {
	if n == 1 {
		return [][]int{{0}}
	}
	var out [][]int
	for _, p := range permutations(n - 1) {
		for pos := 0; pos <= len(p); pos++ {
			q := append(append(append([]int{}, p[:pos]...), n-1), p[pos:]...)
			out = append(out, q)
		}
	}
	return out
}

func init() {
	fw.Register(&fw.Prop{
		ID:    "C13",
		Level: "exploration",
		Rule: "cases = seeded bundles (C02 generator with messages and globals) plus an extras file that leans on what Go maps touch (7 callees and 9 functions / 8 directives for the ES6 import " +
			"block, map literals that reach error messages, colliding placeholder names, plurals, globals); one third carry exactly one injected compile error (eight of the eleven flavours produce an error text that lists several names). For each bundle the observable tuple " +
			"(accept/reject + compile error text, message ids + placeholder strings, rendered outputs, SHA-1 of the JavaScript of every file under ES5/ES6 with and without a message bundle) is " +
			"computed 20 (thorough 60) times in-process, once in another process, from a directory through AddTemplateDir (every fourth case), and under every permutation of file insertion order (<= 4 files, else 12 sampled): all must be identical. " +
			"distinct = distinct bundle; non-trivial = all",
		N: func(tier string) int {
			if tier == "thorough" {
				return 20000
			}
			return 1000
		},
		Setup: func(tier string, seed uint64, config string) string {
			soyhtml.Funcs["verifHtmlOnly"] = soyhtml.Func{Apply: func(a []data.Value) data.Value { return data.Int(0) }, ValidArgLengths: []int{1}}
			if s := os.Getenv("VERIF_C13_PRINT"); s != "" {
				sd, _ := strconv.ParseUint(s, 10, 64)
				files, prog, _ := c13Program(sd, os.Getenv("VERIF_C13_TIER"))
				os.Stdout.WriteString(c13Tuple(files, prog.B.Globals, prog.Entry, prog.Data, prog.IJ))
				os.Exit(0)
			}
			return ""
		},
		Run: func(ctx *fw.Ctx, i int) fw.Result {
			seed := ctx.Rng.U64()
			files, prog, hasErr := c13Program(seed, ctx.Tier)
			base := c13Tuple(files, prog.B.Globals, prog.Entry, prog.Data, prog.IJ)
			src := ""
			for _, f := range files {
				src += f.Text
			}
			ctx.Eval(src)
			if k := strings.Index(base, "SECOND-USE-DIFFERS"); k >= 0 {
				return fw.Result{Verdict: fw.Violated, Key: "second-use-differs", Case: map[string]interface{}{"files": files, "entry": prog.Entry, "data": goData(prog.Data)},
					Msg: "one compiled bundle, used twice in a row: " + fw.Trim(base[k:], 600)}
			}
			if strings.HasPrefix(base, "COMPILE-ERROR") {
				ctx.Obs("bundles_rejected", 1)
			} else {
				ctx.Obs("bundles_accepted", 1)
			}
			_ = hasErr
			mk := func(kind, other string) fw.Result {
				return fw.Result{Verdict: fw.Violated, Key: "nondeterministic:" + kind + ":" + diffKind(base, other), Case: map[string]interface{}{"files": files, "entry": prog.Entry, "data": goData(prog.Data)},
					Msg: fmt.Sprintf("the same sources gave two different results (%s); first difference at %s", kind, firstDiff(base, other))}
			}
			reps := 20
			if ctx.Tier == "thorough" {
				reps = 60
			}
			for k := 0; k < reps; k++ {
				if again := c13Tuple(files, prog.B.Globals, prog.Entry, prog.Data, prog.IJ); again != base {
					return mk("repetition", again)
				}
			}
			ctx.Obs("repetitions", int64(reps))
			// another process
			if i%3 == 0 {
				cmd := exec.Command(os.Args[0], "-prop", "C13")
				cmd.Env = append(os.Environ(), "VERIF_C13_PRINT="+strconv.FormatUint(seed, 10), "VERIF_C13_TIER="+ctx.Tier)
				out, err := cmd.Output()
				ctx.Obs("process_boundaries_crossed", 1)
				if err != nil {
					return fw.Result{Verdict: fw.Inconclusive, Key: "subprocess-failed", Msg: fmt.Sprint(err)}
				}
				if string(out) != base {
					return mk("process", string(out))
				}
			}
			// the same sources read from a directory (Bundle.AddTemplateDir walks it in lexical order): nothing but the
			// way the text reaches the compiler differs
			if i%4 == 1 {
				hasGlobalsFile := false // (or files that cannot lie side by side in a directory)
				seenName := map[string]bool{}
				for _, f := range files {
					if strings.HasSuffix(f.Name, ".globals") || f.Name == "" || seenName[f.Name] {
						hasGlobalsFile = true
					}
					seenName[f.Name] = true
				}
				if !hasGlobalsFile {
					dir, derr := os.MkdirTemp("", "c13dir")
					if derr != nil {
						return fw.Result{Verdict: fw.Inconclusive, Key: "tempdir", Msg: derr.Error()}
					}
					defer os.RemoveAll(dir)
					sorted := append([]srcFile{}, files...)
					for k := range sorted {
						// some files in a sub-directory; a file that is not a template beside them
						if k%2 == 1 {
							sorted[k].Name = filepath.Join("sub", sorted[k].Name)
						}
						os.MkdirAll(filepath.Dir(filepath.Join(dir, sorted[k].Name)), 0755)
						os.WriteFile(filepath.Join(dir, sorted[k].Name), []byte(sorted[k].Text), 0644)
						sorted[k].Name = filepath.Join(dir, sorted[k].Name)
					}
					os.WriteFile(filepath.Join(dir, "README.txt"), []byte("{not soy"), 0644)
					sort.Slice(sorted, func(a, b int) bool { return sorted[a].Name < sorted[b].Name })
					fromStrings := c13Tuple(sorted, prog.B.Globals, prog.Entry, prog.Data, prog.IJ)
					fromDir := c13TupleDir(dir, prog.B.Globals, prog.Entry, prog.Data, prog.IJ)
					ctx.Obs("directory_compilations", 1)
					if fromDir != fromStrings {
						base = fromStrings
						return mk("from-directory", fromDir)
					}
				}
			}
			// file insertion orders
			var perms [][]int
			if len(files) > 4 {
				// (never all n! of them: a bundle can have a dozen files)
				for k := 0; k < 12; k++ {
					perms = append(perms, ctx.Rng.Perm(len(files)))
				}
			} else {
				perms = permutations(len(files))
			}
			twoErrors := false
			for _, f := range files {
				if f.Name == "tiny.soy" {
					twoErrors = true
				}
			}
			if twoErrors {
				ctx.Obs("bundles_with_two_errors", 1)
			}
			allowed := map[string]bool{base: true}
			if twoErrors {
				// the error of each bad file alone is what may be reported when that file comes first
				for _, f := range files {
					if f.Name == "tiny.soy" || f.Name == files[0].Name {
						allowed[c13Tuple([]srcFile{f}, prog.B.Globals, prog.Entry, prog.Data, prog.IJ)] = true
					}
				}
			}
			for _, p := range perms {
				pf := make([]srcFile, len(files))
				for k, idx := range p {
					pf[k] = files[idx]
				}
				other := c13Tuple(pf, prog.B.Globals, prog.Entry, prog.Data, prog.IJ)
				ctx.Obs("permutations", 1)
				if other != base && !(twoErrors && allowed[other]) {
					return mk("file-order", other)
				}
				// the same order again must give the same result again
				if again := c13Tuple(pf, prog.B.Globals, prog.Entry, prog.Data, prog.IJ); again != other {
					base = other
					return mk("repetition-of-permuted-order", again)
				}
			}
			if i%25 == 0 {
				ctx.Sample(map[string]interface{}{"files": len(files), "permutations": len(perms), "tuple_head": fw.Trim(base, 400)})
			}
			return fw.Result{Verdict: fw.Held}
		},
		Floors: func(obs map[string]int64, cells map[string]bool, tier string) []string {
			var why []string
			if obs["bundles_rejected"] == 0 || obs["bundles_accepted"] == 0 {
				why = append(why, "both accepted and rejected bundles must be observed")
			}
			if obs["directory_compilations"] == 0 {
				why = append(why, "no bundle was compiled from a directory")
			}
			if obs["bundles_with_two_errors"] == 0 {
				why = append(why, "no bundle with two independent errors")
			}
			if obs["process_boundaries_crossed"] < 2 || obs["permutations"] < 2 {
				why = append(why, "at least 2 processes and 2 permutations must be compared")
			}
			return why
		},
		Assumptions: []string{
			"render-time error text embeds debug.Stack() output and is compared only by success/failure",
			"bundles carry at most one injected rule violation; some carry two independent syntax errors in two files: then the reported error may depend on the insertion order (it must be the error of one of the two files alone) but not on the repetition",
			"keys() over multi-key maps is not printed (order unspecified by the language)",
		},
	})
}
