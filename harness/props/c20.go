package props

import (
	"fmt"
	"math"
	"reflect"
	"sort"
	"strings"
	"sync"
	"time"
	"unicode"
	"unicode/utf8"

	"github.com/robfig/soy/data"

	"verif/fw"
)

// exp is the expected Soy value, built together with the Go value (so the
// expectation never comes from the converter under test).
type exp struct {
	kind     string // null bool int float string list map
	b        bool
	i        int64
	f        float64
	s        string
	list     []exp
	m        map[string]exp
	nilSlice bool // a nil slice: empty list or null are both accepted
}

// ---- harness-declared struct types

type c20Inner struct {
	Name  string
	Count int32
	note  string // unexported: must not appear
}

type c20Embedded struct {
	EmbeddedField uint16
}

// C20Pub is embedded (exported): it must appear as a nested map under its type name.
type C20Pub struct{ Level int }

type c20Marsh struct{ X int }

func (m c20Marsh) MarshalValue() data.Value { return data.String(fmt.Sprintf("marshaled-%d", m.X)) }

// c20Stamp embeds time.Time: every method of time.Time (MarshalText, MarshalJSON, String, ...) is promoted to it.
type c20Stamp struct {
	time.Time
	Note string
	Seq  int
}

// c20PtrMarsh has its marshaler on the pointer: only *c20PtrMarsh is a data.Marshaler.
type c20PtrMarsh struct{ X int }

func (m *c20PtrMarsh) MarshalValue() data.Value {
	return data.String(fmt.Sprintf("ptr-marshaled-%d", m.X))
}

// named primitive types with a custom marshaler: honoured wherever they occur (alone, in slices, maps, struct fields)
type c20Cents int64

func (c c20Cents) MarshalValue() data.Value { return data.String(fmt.Sprintf("%d cents", int64(c))) }

type c20Label string

func (l c20Label) MarshalValue() data.Value { return data.Map{"label": data.String(string(l))} }

type c20Ratio float64

func (r c20Ratio) MarshalValue() data.Value { return data.Int(int64(float64(r) * 100)) }

type c20Flag bool

func (f c20Flag) MarshalValue() data.Value {
	if f {
		return data.String("yes")
	}
	return data.String("no")
}

type c20Outer struct {
	ID        int64
	Title     string
	URLPath   string
	Ratio     float32
	Ok        bool
	Inner     c20Inner
	InnerPtr  *c20Inner
	Items     []c20Inner
	ByName    map[string]c20Inner
	Any       interface{}
	When      time.Time
	WhenPtr   *time.Time
	Custom    c20Marsh
	CustomPtr *c20Marsh
	PtrCustom *c20PtrMarsh
	c20Embedded
	C20Pub
	Tags    []string
	NilList []int
	hidden  int
	Ünicode int8
}

func lowerFirst(s string) string {
	r, n := utf8.DecodeRuneInString(s)
	return string(unicode.ToLower(r)) + s[n:]
}

type c20gen struct {
	r          *fw.Rand
	lowerCamel bool
	timeFmt    string
	kinds      map[string]bool
}

var (
	c20DynMu    sync.Mutex
	c20DynTypes = map[int]reflect.Type{}
)

// c20DynType is the t-th struct type of the family: two to four fields whose names, kinds and order depend on t.
func c20DynType(t int) reflect.Type {
	c20DynMu.Lock()
	defer c20DynMu.Unlock()
	if typ, ok := c20DynTypes[t]; ok {
		return typ
	}
	fields := []reflect.StructField{
		{Name: fmt.Sprintf("Label%d", t), Type: reflect.TypeOf("")},
		{Name: fmt.Sprintf("Count%d", t), Type: reflect.TypeOf(0)},
	}
	if t%3 == 0 {
		fields = append(fields, reflect.StructField{Name: fmt.Sprintf("Score%d", t), Type: reflect.TypeOf(0.5)})
	}
	if t%4 == 1 {
		fields = append([]reflect.StructField{{Name: fmt.Sprintf("Alpha%d", t), Type: reflect.TypeOf(0)}}, fields...)
	}
	if t%2 == 1 {
		fields[0], fields[len(fields)-1] = fields[len(fields)-1], fields[0]
	}
	typ := reflect.StructOf(fields)
	c20DynTypes[t] = typ
	return typ
}

func (g *c20gen) key(s string) string {
	if g.lowerCamel {
		return lowerFirst(s)
	}
	return s
}

func (g *c20gen) str() string {
	pool := []string{"", "a", "Hello", "héllo", "<b>&\"'", "0", "false", "😀", "line\nbreak", "  "}
	return pool[g.r.Intn(len(pool))]
}

func (g *c20gen) inner() (c20Inner, exp) {
	v := c20Inner{Name: g.str(), Count: int32(g.r.Intn(2000) - 1000), note: "secret"}
	return v, exp{kind: "map", m: map[string]exp{g.key("Name"): {kind: "string", s: v.Name}, g.key("Count"): {kind: "int", i: int64(v.Count)}}}
}

func (g *c20gen) timeVal() (time.Time, exp) {
	// any zone (whole hours, half and quarter hours, offsets below one hour of either sign, offsets with seconds, the
	// extremes), any year a layout can print (before 1000, after 9999, zero), with and without a fraction of a second
	loc := time.UTC
	if g.r.P(2, 3) {
		offs := []int{0, 3600, -3600, 19800, -12600, 1800, -1800, 60, -60, -59 * 60, 59 * 60, -1, 1, -2670, 45900, 50400, -43200, 86399, -86399}
		name := []string{"", "X", "LMT"}[g.r.Intn(3)]
		loc = time.FixedZone(name, offs[g.r.Intn(len(offs))])
	}
	year := 1990 + g.r.Intn(60)
	if g.r.P(1, 6) {
		year = []int{0, 1, 33, 999, 1000, 9999, 10000, 12345, -1, 1582, 1969, 1970}[g.r.Intn(12)]
	}
	ns := 0
	if g.r.P(1, 3) {
		ns = []int{1, 500000000, 999999999, 120000000, 1000}[g.r.Intn(5)]
	}
	t := time.Date(year, time.Month(1+g.r.Intn(12)), 1+g.r.Intn(28), g.r.Intn(24), g.r.Intn(60), g.r.Intn(60), ns, loc)
	if g.r.P(1, 40) {
		t = time.Time{}
	}
	if g.timeFmt == "" {
		// StructOptions.TimeFormat: "if empty, use ISO-8601"
		return t, exp{kind: "string", s: t.Format(time.RFC3339)}
	}
	return t, exp{kind: "string", s: t.Format(g.timeFmt)}
}

// scalar returns a random scalar of a random Go kind.
func (g *c20gen) scalar() (interface{}, exp) {
	switch g.r.Intn(21) {
	case 0:
		g.kinds["nil"] = true
		return nil, exp{kind: "null"}
	case 1:
		g.kinds["bool"] = true
		b := g.r.Bool()
		return b, exp{kind: "bool", b: b}
	case 2:
		g.kinds["int"] = true
		i := g.r.Intn(2000001) - 1000000
		return i, exp{kind: "int", i: int64(i)}
	case 3:
		g.kinds["int8"] = true
		i := int8(g.r.Intn(256) - 128)
		return i, exp{kind: "int", i: int64(i)}
	case 4:
		g.kinds["int16"] = true
		i := int16(g.r.Intn(65536) - 32768)
		return i, exp{kind: "int", i: int64(i)}
	case 5:
		g.kinds["int32"] = true
		i := int32(g.r.U64())
		return i, exp{kind: "int", i: int64(i)}
	case 6:
		g.kinds["int64"] = true
		i := int64(g.r.U64())
		if g.r.P(1, 4) {
			i = []int64{math.MaxInt64, math.MinInt64, 1 << 53, 1<<53 + 1, -(1<<53 + 1)}[g.r.Intn(5)]
		}
		return i, exp{kind: "int", i: i}
	case 7:
		g.kinds["uint"] = true
		i := uint(g.r.U64() >> 1)
		return i, exp{kind: "int", i: int64(i)}
	case 8:
		g.kinds["uint8"] = true
		i := uint8(g.r.Intn(256))
		return i, exp{kind: "int", i: int64(i)}
	case 9:
		g.kinds["uint16"] = true
		i := uint16(g.r.Intn(65536))
		return i, exp{kind: "int", i: int64(i)}
	case 10:
		g.kinds["uint32"] = true
		i := uint32(g.r.U64())
		return i, exp{kind: "int", i: int64(i)}
	case 11:
		g.kinds["uint64"] = true
		i := g.r.U64() >> 1 // representable in int64
		return i, exp{kind: "int", i: int64(i)}
	case 12:
		g.kinds["float32"] = true
		f := float32(g.r.Intn(2001)-1000) / 8
		return f, exp{kind: "float", f: float64(f)}
	case 13, 14:
		g.kinds["float64"] = true
		f := float64(int64(g.r.U64()>>12)) / 1024
		if g.r.P(1, 4) {
			f = []float64{0, math.Copysign(0, -1), math.Inf(1), math.Inf(-1), math.NaN(), 1e300, 5e-324, float64(1<<53) + 2}[g.r.Intn(8)]
		}
		return f, exp{kind: "float", f: f}
	case 15, 16:
		g.kinds["string"] = true
		s := g.str()
		return s, exp{kind: "string", s: s}
	case 17:
		g.kinds["time"] = true
		t, e := g.timeVal()
		if g.r.Bool() {
			g.kinds["*time"] = true
			return &t, e
		}
		return t, e
	case 18:
		g.kinds["marshaler"] = true
		m := c20Marsh{g.r.Intn(100)}
		e := exp{kind: "string", s: fmt.Sprintf("marshaled-%d", m.X)}
		if g.r.Bool() {
			g.kinds["*marshaler"] = true
			return &m, e
		}
		if g.r.P(1, 3) {
			g.kinds["pointer-receiver-marshaler"] = true
			return &c20PtrMarsh{m.X}, exp{kind: "string", s: fmt.Sprintf("ptr-marshaled-%d", m.X)}
		}
		return m, e
	case 19:
		if g.r.Bool() {
			return g.namedMarshaler()
		}
		fallthrough
	default:
		g.kinds["nil-pointer"] = true
		switch g.r.Intn(3) {
		case 0:
			var p *c20Inner
			return p, exp{kind: "null"}
		case 1:
			var p *int
			return p, exp{kind: "null"}
		default:
			var p *time.Time
			return p, exp{kind: "null"}
		}
	}
}

// namedMarshaler: a value of a named primitive type with MarshalValue, alone or as the element type of a slice or map.
func (g *c20gen) namedMarshaler() (interface{}, exp) {
	g.kinds["named-primitive-marshaler"] = true
	n := g.r.Intn(1000)
	cents := func(k int) (c20Cents, exp) {
		return c20Cents(k), exp{kind: "string", s: fmt.Sprintf("%d cents", k)}
	}
	switch g.r.Intn(8) {
	case 0:
		return cents(n)
	case 1:
		l := c20Label(g.str())
		return l, exp{kind: "map", m: map[string]exp{"label": {kind: "string", s: string(l)}}}
	case 2:
		return c20Ratio(0.25), exp{kind: "int", i: 25}
	case 3:
		return c20Flag(true), exp{kind: "string", s: "yes"}
	case 4:
		g.kinds["[]named-primitive-marshaler"] = true
		var sl []c20Cents
		e := exp{kind: "list"}
		for k := 0; k < 1+g.r.Intn(3); k++ {
			c, ce := cents(n + k)
			sl = append(sl, c)
			e.list = append(e.list, ce)
		}
		return sl, e
	case 5:
		g.kinds["[]named-primitive-marshaler"] = true
		sl := []c20Label{"a", "b"}
		return sl, exp{kind: "list", list: []exp{{kind: "map", m: map[string]exp{"label": {kind: "string", s: "a"}}}, {kind: "map", m: map[string]exp{"label": {kind: "string", s: "b"}}}}}
	case 6:
		g.kinds["[]named-primitive-marshaler"] = true
		return []c20Flag{true, false}, exp{kind: "list", list: []exp{{kind: "string", s: "yes"}, {kind: "string", s: "no"}}}
	default:
		c, ce := cents(n)
		return map[string]c20Cents{"price": c}, exp{kind: "map", m: map[string]exp{"price": ce}}
	}
}

func (g *c20gen) value(depth int) (interface{}, exp) {
	if depth <= 0 || g.r.P(2, 5) {
		return g.scalar()
	}
	switch g.r.Intn(14) {
	case 13:
		// one of a thousand struct types made at run time (no program declares as many, but code that is generated, or
		// a long-lived server, converts values of hundreds of types in one process): field names and order differ
		// from type to type
		g.kinds["struct-of-many-types"] = true
		t := g.r.Intn(1000)
		typ := c20DynType(t)
		v := reflect.New(typ).Elem()
		e := exp{kind: "map", m: map[string]exp{}}
		for f := 0; f < typ.NumField(); f++ {
			name := typ.Field(f).Name
			switch typ.Field(f).Type.Kind() {
			case reflect.String:
				sv := g.str()
				v.Field(f).SetString(sv)
				e.m[g.key(name)] = exp{kind: "string", s: sv}
			case reflect.Int:
				iv := int64(g.r.Intn(2001) - 1000)
				v.Field(f).SetInt(iv)
				e.m[g.key(name)] = exp{kind: "int", i: iv}
			default:
				fv := float64(g.r.Intn(2001)-1000) / 8
				v.Field(f).SetFloat(fv)
				e.m[g.key(name)] = exp{kind: "float", f: fv}
			}
		}
		if g.r.Bool() {
			p := reflect.New(typ)
			p.Elem().Set(v)
			return p.Interface(), e
		}
		return v.Interface(), e
	case 0, 1:
		g.kinds["[]interface{}"] = true
		n := g.r.Intn(4)
		l := make([]interface{}, n)
		e := exp{kind: "list", list: make([]exp, n)}
		for i := range l {
			l[i], e.list[i] = g.value(depth - 1)
		}
		return l, e
	case 2:
		g.kinds["[]int"] = true
		n := g.r.Intn(4)
		l := make([]int, n)
		e := exp{kind: "list", list: make([]exp, n)}
		for i := range l {
			l[i] = g.r.Intn(100)
			e.list[i] = exp{kind: "int", i: int64(l[i])}
		}
		return l, e
	case 3:
		g.kinds["nil-slice"] = true
		if g.r.Bool() {
			var l []string
			return l, exp{kind: "list", nilSlice: true}
		}
		var l []interface{}
		return l, exp{kind: "list", nilSlice: true}
	case 4, 5:
		g.kinds["map[string]interface{}"] = true
		n := g.r.Intn(4)
		m := map[string]interface{}{}
		e := exp{kind: "map", m: map[string]exp{}}
		for i := 0; i < n; i++ {
			k := []string{"a", "Key", "with space", "ü", "", "k" + fmt.Sprint(i), "key", "KEY", "A"}[g.r.Intn(9)]
			m[k], e.m[k] = g.value(depth - 1)
		}
		return m, e
	case 6:
		g.kinds["map[string]int"] = true
		m := map[string]int{"one": 1, "Two": 2}
		return m, exp{kind: "map", m: map[string]exp{"one": {kind: "int", i: 1}, "Two": {kind: "int", i: 2}}}
	case 7:
		g.kinds["nil-map"] = true
		var m map[string]interface{}
		return m, exp{kind: "map", m: map[string]exp{}}
	case 8:
		g.kinds["struct"] = true
		v, e := g.inner()
		if g.r.Bool() {
			g.kinds["*struct"] = true
			return &v, e
		}
		return v, e
	case 9:
		g.kinds["**struct"] = true
		v, e := g.inner()
		p := &v
		return &p, e
	case 10:
		// one pointer (or map, or slice) reachable at several places of the same value: a DAG, not a cycle
		g.kinds["shared-pointer"] = true
		var shared interface{}
		var se exp
		switch g.r.Intn(4) {
		case 0:
			v, e := g.inner()
			shared, se = &v, e
		case 1:
			shared, se = g.outer(0)
			if _, isPtr := shared.(*c20Outer); !isPtr {
				o := shared.(c20Outer)
				shared = &o
			}
		case 2:
			m := map[string]interface{}{"n": 1}
			shared, se = m, exp{kind: "map", m: map[string]exp{"n": {kind: "int", i: 1}}}
		default:
			t, te := g.timeVal()
			shared, se = &t, te
		}
		switch g.r.Intn(3) {
		case 0:
			return []interface{}{shared, "between", shared}, exp{kind: "list", list: []exp{se, {kind: "string", s: "between"}, se}}
		case 1:
			return map[string]interface{}{"first": shared, "second": shared, "deep": []interface{}{shared}},
				exp{kind: "map", m: map[string]exp{"first": se, "second": se, "deep": {kind: "list", list: []exp{se}}}}
		default:
			if ip, ok := shared.(*c20Inner); ok {
				return c20Pair{ip, ip, []*c20Inner{ip, ip}}, exp{kind: "map", m: map[string]exp{g.key("Left"): se, g.key("Right"): se, g.key("Both"): {kind: "list", list: []exp{se, se}}}}
			}
			return &[]interface{}{shared, shared}, exp{kind: "list", list: []exp{se, se}}
		}
	case 11:
		// two different struct types that print the same type name (types local to two functions)
		g.kinds["same-named-struct-types"] = true
		switch g.r.Intn(3) {
		case 0:
			return g.rowA()
		case 1:
			return g.rowB()
		}
		// a struct that embeds time.Time next to fields of its own (and so inherits all of its methods): still a struct
		g.kinds["struct-embedding-time"] = true
		t, te := g.timeVal()
		st := c20Stamp{Time: t, Note: g.str(), Seq: g.r.Intn(100)}
		se := exp{kind: "map", m: map[string]exp{g.key("Time"): te, g.key("Note"): {kind: "string", s: st.Note}, g.key("Seq"): {kind: "int", i: int64(st.Seq)}}}
		if g.r.Bool() {
			return &st, se
		}
		return st, se
	default:
		g.kinds["struct-nested"] = true
		return g.outer(depth - 1)
	}
}

func (g *c20gen) rowA() (interface{}, exp) {
	type Row struct {
		ID   int
		Name string
	}
	v := Row{g.r.Intn(1000), g.str()}
	return v, exp{kind: "map", m: map[string]exp{g.key("ID"): {kind: "int", i: int64(v.ID)}, g.key("Name"): {kind: "string", s: v.Name}}}
}

func (g *c20gen) rowB() (interface{}, exp) {
	type Row struct {
		Title string
		Score float64
		Tags  []string
	}
	v := Row{g.str(), float64(g.r.Intn(100)) / 4, []string{"t"}}
	return &v, exp{kind: "map", m: map[string]exp{g.key("Title"): {kind: "string", s: v.Title}, g.key("Score"): {kind: "float", f: v.Score},
		g.key("Tags"): {kind: "list", list: []exp{{kind: "string", s: "t"}}}}}
}

type c20Pair struct {
	Left, Right *c20Inner
	Both        []*c20Inner
}

func (g *c20gen) outer(depth int) (interface{}, exp) {
	var o c20Outer
	e := exp{kind: "map", m: map[string]exp{}}
	o.ID = int64(g.r.U64())
	e.m[g.key("ID")] = exp{kind: "int", i: o.ID}
	o.Title = g.str()
	e.m[g.key("Title")] = exp{kind: "string", s: o.Title}
	o.URLPath = "/p"
	e.m[g.key("URLPath")] = exp{kind: "string", s: "/p"}
	o.Ratio = float32(g.r.Intn(100)) / 4
	e.m[g.key("Ratio")] = exp{kind: "float", f: float64(o.Ratio)}
	o.Ok = g.r.Bool()
	e.m[g.key("Ok")] = exp{kind: "bool", b: o.Ok}
	var ie exp
	o.Inner, ie = g.inner()
	e.m[g.key("Inner")] = ie
	if g.r.Bool() {
		v, ve := g.inner()
		o.InnerPtr = &v
		e.m[g.key("InnerPtr")] = ve
	} else {
		e.m[g.key("InnerPtr")] = exp{kind: "null"}
	}
	le := exp{kind: "list"}
	for i := 0; i < g.r.Intn(3); i++ {
		v, ve := g.inner()
		o.Items = append(o.Items, v)
		le.list = append(le.list, ve)
	}
	if o.Items == nil {
		le.nilSlice = true
	}
	e.m[g.key("Items")] = le
	me := exp{kind: "map", m: map[string]exp{}}
	if g.r.Bool() {
		o.ByName = map[string]c20Inner{}
		for i := 0; i < g.r.Intn(3); i++ {
			v, ve := g.inner()
			k := fmt.Sprintf("K%d", i)
			o.ByName[k] = v
			me.m[k] = ve
		}
	}
	e.m[g.key("ByName")] = me
	var ae exp
	o.Any, ae = g.value(depth)
	e.m[g.key("Any")] = ae
	var te exp
	o.When, te = g.timeVal()
	e.m[g.key("When")] = te
	if g.r.Bool() {
		t, te2 := g.timeVal()
		o.WhenPtr = &t
		e.m[g.key("WhenPtr")] = te2
	} else {
		e.m[g.key("WhenPtr")] = exp{kind: "null"}
	}
	o.Custom = c20Marsh{g.r.Intn(50)}
	e.m[g.key("Custom")] = exp{kind: "string", s: fmt.Sprintf("marshaled-%d", o.Custom.X)}
	if g.r.Bool() {
		o.CustomPtr = &c20Marsh{7}
		e.m[g.key("CustomPtr")] = exp{kind: "string", s: "marshaled-7"}
	} else {
		e.m[g.key("CustomPtr")] = exp{kind: "null"}
	}
	if g.r.Bool() {
		o.PtrCustom = &c20PtrMarsh{9}
		e.m[g.key("PtrCustom")] = exp{kind: "string", s: "ptr-marshaled-9"}
	} else {
		e.m[g.key("PtrCustom")] = exp{kind: "null"}
	}
	// unexported embedded struct type: the promoted field is not reachable through the embedded field itself
	o.c20Embedded.EmbeddedField = uint16(g.r.Intn(1000))
	o.C20Pub.Level = g.r.Intn(9)
	e.m[g.key("C20Pub")] = exp{kind: "map", m: map[string]exp{g.key("Level"): {kind: "int", i: int64(o.C20Pub.Level)}}}
	o.Tags = []string{g.str(), g.str()}
	e.m[g.key("Tags")] = exp{kind: "list", list: []exp{{kind: "string", s: o.Tags[0]}, {kind: "string", s: o.Tags[1]}}}
	e.m[g.key("NilList")] = exp{kind: "list", nilSlice: true}
	o.hidden = 5
	o.Ünicode = int8(g.r.Intn(100))
	e.m[g.key("Ünicode")] = exp{kind: "int", i: int64(o.Ünicode)}
	if g.r.Bool() {
		return &o, e
	}
	return o, e
}

func cmpExp(got data.Value, want exp, path string) string {
	switch want.kind {
	case "null":
		if _, ok := got.(data.Null); !ok {
			return fmt.Sprintf("%s: want null, got %T %v", path, got, got)
		}
	case "bool":
		if b, ok := got.(data.Bool); !ok || bool(b) != want.b {
			return fmt.Sprintf("%s: want bool %v, got %T %v", path, want.b, got, got)
		}
	case "int":
		if i, ok := got.(data.Int); !ok || int64(i) != want.i {
			return fmt.Sprintf("%s: want int %d, got %T %v", path, want.i, got, got)
		}
	case "float":
		f, ok := got.(data.Float)
		if !ok || !(float64(f) == want.f || (math.IsNaN(float64(f)) && math.IsNaN(want.f))) || math.Signbit(float64(f)) != math.Signbit(want.f) {
			return fmt.Sprintf("%s: want float %v, got %T %v", path, want.f, got, got)
		}
	case "string":
		if s, ok := got.(data.String); !ok || string(s) != want.s {
			return fmt.Sprintf("%s: want string %q, got %T %v", path, want.s, got, got)
		}
	case "list":
		if want.nilSlice {
			if _, isNull := got.(data.Null); isNull {
				return ""
			}
		}
		l, ok := got.(data.List)
		if !ok || len(l) != len(want.list) {
			return fmt.Sprintf("%s: want list of %d, got %T %v", path, len(want.list), got, got)
		}
		for i := range l {
			if why := cmpExp(l[i], want.list[i], fmt.Sprintf("%s[%d]", path, i)); why != "" {
				return why
			}
		}
	case "map":
		m, ok := got.(data.Map)
		if !ok {
			return fmt.Sprintf("%s: want map, got %T %v", path, got, got)
		}
		for k, we := range want.m {
			gv, ok := m[k]
			if !ok {
				return fmt.Sprintf("%s: key %q missing (have %v)", path, k, keysOf(m))
			}
			if why := cmpExp(gv, we, path+"."+k); why != "" {
				return why
			}
		}
		for k := range m {
			if _, ok := want.m[k]; !ok {
				return fmt.Sprintf("%s: unexpected key %q", path, k)
			}
		}
	}
	return ""
}

func keysOf(m data.Map) []string {
	var ks []string
	for k := range m {
		ks = append(ks, k)
	}
	sort.Strings(ks)
	return ks
}

// valuePool builds Soy values for the pairwise laws.
func valuePool(r *fw.Rand) []data.Value {
	l1 := data.List{data.Int(1)}
	m1 := data.Map{"a": data.Int(1)}
	pool := []data.Value{
		data.Null{}, data.Undefined{}, data.Bool(true), data.Bool(false),
		data.Int(0), data.Int(1), data.Int(-1), data.Int(1 << 53), data.Int(1<<53 + 1), data.Int(math.MaxInt64), data.Int(math.MinInt64),
		data.Float(0), data.Float(math.Copysign(0, -1)), data.Float(1), data.Float(-1), data.Float(0.5), data.Float(float64(1 << 53)), data.Float(float64(1<<53) + 2),
		data.Float(math.NaN()), data.Float(math.Inf(1)), data.Float(math.Inf(-1)), data.Float(9.223372036854775807e18),
		data.String(""), data.String("0"), data.String("false"), data.String("a"), data.String("null"), data.String(" "),
		l1, l1, data.List{data.Int(1)}, data.List{}, data.List(nil), m1, m1, data.Map{"a": data.Int(1)}, data.Map{}, data.Map(nil),
		// maps with many keys, keys that differ only in case, in accents, in width, empty and odd keys: printing is a function of the value
		data.Map{"id": data.Int(1), "Id": data.Int(2), "ID": data.Int(3), "iD": data.Int(4), "a b": data.Int(5), "": data.Int(6), "\u00e4": data.Int(7), "\u00c4": data.Int(8), "k10": data.Int(9), "k9": data.Int(10)},
		data.List{data.Map{"x": data.Null{}, "X": data.List{data.Map{"b": data.Int(1), "B": data.Int(1), "a": data.Int(1)}}}, data.Map{"1": data.Int(1), "01": data.Int(1), "\uff11": data.Int(1), "true": data.Bool(true), "True": data.Bool(true)}},
	}
	for i := 0; i < 40; i++ {
		switch r.Intn(3) {
		case 0:
			pool = append(pool, data.Int(int64(r.U64())>>uint(r.Intn(60))))
		case 1:
			pool = append(pool, data.Float(float64(int64(r.U64()>>uint(r.Intn(60))))/float64(int64(1)<<uint(r.Intn(12)))))
		case 2:
			pool = append(pool, data.String(fmt.Sprint(r.Intn(5))))
		}
	}
	return pool
}

func wantTruthy(v data.Value) bool {
	switch v := v.(type) {
	case data.Undefined, data.Null:
		return false
	case data.Bool:
		return bool(v)
	case data.Int:
		return v != 0
	case data.Float:
		return float64(v) != 0 && !math.IsNaN(float64(v))
	case data.String:
		return v != ""
	}
	return true
}

func valDesc(v data.Value) string {
	if _, ok := v.(data.Undefined); ok {
		return "undefined"
	}
	return fmt.Sprintf("%T(%v)", v, v)
}

func init() {
	fw.Register(&fw.Prop{
		ID:    "C20",
		Level: "exploration",
		Rule: "conversion cases: seeded nested Go values over nil, bool, every int/uint kind (within int64), float32/64 (incl. NaN, +-0, +-Inf), string, time.Time, slices (typed, untyped, nil), " +
			"string-keyed maps (typed, untyped, nil), harness-declared structs (embedded, unexported, pointer, slice-of-struct, map-of-struct, marshaler fields), pointers and nil pointers, " +
			"under both struct-option settings; the expectation is built with the value. law cases: all ordered pairs of a pool of ~80 values (symmetry of Equals, int/float numeric " +
			"equality), truthiness table, determinism of String(). distinct = distinct (Go value rendering, options) / distinct value pair; non-trivial = nested value or a pair of different kinds",
		N: func(tier string) int {
			if tier == "thorough" {
				return 1000000
			}
			return 60000
		},
		Run: func(ctx *fw.Ctx, i int) fw.Result {
			r := ctx.Rng
			if i%10 == 9 {
				// value laws over all ordered pairs of a pool
				pool := valuePool(r)
				for ai, a := range pool {
					if a.Truthy() != wantTruthy(a) {
						return fw.Result{Verdict: fw.Violated, Key: fmt.Sprintf("truthiness:%T", a), Msg: fmt.Sprintf("%s.Truthy() = %v, the language table says %v", valDesc(a), a.Truthy(), wantTruthy(a))}
					}
					if _, undef := a.(data.Undefined); !undef {
						s1 := a.String()
						for rep := 0; rep < 8; rep++ {
							if s2 := a.String(); s1 != s2 {
								return fw.Result{Verdict: fw.Violated, Key: fmt.Sprintf("string-nondeterministic:%T", a), Msg: fmt.Sprintf("%q vs %q", s1, s2)}
							}
						}
					}
					for bi, b := range pool {
						ab, ba := a.Equals(b), b.Equals(a)
						id := ""
						if fmt.Sprintf("%T", a) != fmt.Sprintf("%T", b) {
							id = fmt.Sprintf("%d/%d:%s|%s", ai, bi, valDesc(a), valDesc(b))
						}
						ctx.Eval(id)
						if ab != ba {
							return fw.Result{Verdict: fw.Violated, Key: fmt.Sprintf("equals-asymmetric:%T/%T", a, b), Msg: fmt.Sprintf("%s.Equals(%s)=%v but the reverse is %v", valDesc(a), valDesc(b), ab, ba)}
						}
						ia, aInt := a.(data.Int)
						fb, bFloat := b.(data.Float)
						if aInt && bFloat && ab != (float64(ia) == float64(fb)) {
							return fw.Result{Verdict: fw.Violated, Key: "equals-int-float", Msg: fmt.Sprintf("Int(%d).Equals(Float(%v)) = %v", ia, fb, ab)}
						}
						if ai == bi && !ab {
							if f, isF := a.(data.Float); !(isF && math.IsNaN(float64(f))) {
								return fw.Result{Verdict: fw.Violated, Key: fmt.Sprintf("equals-irreflexive:%T", a), Msg: valDesc(a) + " does not equal itself"}
							}
						}
					}
				}
				ctx.Obs("law_pools", 1)
				return fw.Result{Verdict: fw.Held}
			}
			g := &c20gen{r: r, lowerCamel: r.Bool(), timeFmt: []string{time.RFC3339, time.RFC1123, "2006-01-02", ""}[r.Intn(4)], kinds: map[string]bool{}}
			depth := 1 + r.Intn(3)
			v, want := g.value(depth)
			opts := data.StructOptions{LowerCamel: g.lowerCamel, TimeFormat: g.timeFmt}
			got := data.NewWith(opts, v)
			for k := range g.kinds {
				ctx.Cell("kind:" + k)
			}
			ctx.Cell(fmt.Sprintf("lowerCamel:%v", g.lowerCamel))
			desc := fmt.Sprintf("%T %+v", v, v)
			id := ""
			if want.kind == "list" || want.kind == "map" {
				id = fmt.Sprintf("%v|%s|%s", g.lowerCamel, g.timeFmt, desc)
			}
			ctx.Eval(id)
			if i%1999 == 0 {
				ctx.Sample(map[string]interface{}{"go_value": fw.Trim(desc, 300), "lowerCamel": g.lowerCamel, "converted": fw.Trim(safeString(got), 300)})
			}
			if why := cmpExp(got, want, "$"); why != "" {
				kind := strings.SplitN(why, ":", 2)[0]
				_ = kind
				return fw.Result{Verdict: fw.Violated, Key: "conversion:" + want.kind, Case: fw.Trim(desc, 600),
					Msg: fmt.Sprintf("data.NewWith(%+v, %s) is not the same structure: %s", opts, fw.Trim(desc, 300), why)}
			}
			// data.New converts with the options in data.DefaultStructOptions, a variable the documentation tells callers to
			// assign to: it follows the variable whenever it is called, not only the first time
			if i%4 == 1 {
				saved := data.DefaultStructOptions
				data.DefaultStructOptions = opts
				viaDefault := data.New(v)
				data.DefaultStructOptions = saved
				ctx.Obs("default_options_reassigned", 1)
				if why := cmpExp(viaDefault, want, "$"); why != "" {
					return fw.Result{Verdict: fw.Violated, Key: "conversion:default-options-not-followed", Case: fw.Trim(desc, 600),
						Msg: fmt.Sprintf("data.DefaultStructOptions = %+v; data.New(%s) is not the same structure: %s", opts, fw.Trim(desc, 300), why)}
				}
			}
			// printing the converted value is a function of the value
			if p1 := safeString(got); true {
				for rep := 0; rep < 4; rep++ {
					if p2 := safeString(got); p1 != p2 {
						return fw.Result{Verdict: fw.Violated, Key: "string-nondeterministic:converted", Case: fw.Trim(desc, 600), Msg: fmt.Sprintf("printed %q, then %q", fw.Trim(p1, 300), fw.Trim(p2, 300))}
					}
				}
			}
			// the result belongs to the caller: writing into every map and list of it must not show in a later conversion of
			// the same Go value (no storage is shared between results)
			c20Poison(got)
			if why := cmpExp(data.NewWith(opts, v), want, "$"); why != "" {
				return fw.Result{Verdict: fw.Violated, Key: "conversion-results-share-storage", Case: fw.Trim(desc, 600),
					Msg: "after writing into the maps and lists of an earlier result, converting the same Go value again gives: " + why}
			}
			got = data.NewWith(opts, v)
			// converting again changes nothing
			again := data.NewWith(opts, got)
			if why := cmpExp(again, want, "$"); why != "" {
				return fw.Result{Verdict: fw.Violated, Key: "conversion-not-idempotent", Case: fw.Trim(desc, 600), Msg: why}
			}
			// default options entry point agrees with explicit default options
			if g.lowerCamel && g.timeFmt == time.RFC3339 {
				if why := cmpExp(data.New(v), want, "$"); why != "" {
					return fw.Result{Verdict: fw.Violated, Key: "conversion-default-options", Case: fw.Trim(desc, 600), Msg: why}
				}
				ctx.Obs("default_options_checked", 1)
			}
			ctx.Obs("conversions", 1)
			return fw.Result{Verdict: fw.Held}
		},
		Floors: func(obs map[string]int64, cells map[string]bool, tier string) []string {
			var why []string
			for _, k := range []string{"nil", "bool", "int", "int8", "int16", "int32", "int64", "uint", "uint8", "uint16", "uint32", "uint64", "float32", "float64", "string", "time", "*time",
				"marshaler", "*marshaler", "pointer-receiver-marshaler", "nil-pointer", "[]interface{}", "[]int", "nil-slice", "map[string]interface{}", "map[string]int", "nil-map", "struct", "*struct", "**struct", "struct-nested", "named-primitive-marshaler", "[]named-primitive-marshaler", "shared-pointer", "same-named-struct-types", "struct-embedding-time"} {
				if !cells["kind:"+k] {
					why = append(why, "Go kind never generated: "+k)
				}
			}
			if !cells["lowerCamel:true"] || !cells["lowerCamel:false"] {
				why = append(why, "both struct-option settings must be exercised")
			}
			if obs["law_pools"] == 0 {
				why = append(why, "no value-law pool was run")
			}
			return why
		},
		Assumptions: []string{"uint values above MaxInt64 are outside the statement (not representable) and not generated", "a nil slice may convert to an empty list or to null"},
	})
}

// c20Poison writes into every map and list reachable from v.
func c20Poison(v data.Value) {
	switch v := v.(type) {
	case data.Map:
		for _, x := range v {
			c20Poison(x)
		}
		v["__written_by_the_caller"] = data.Int(1)
	case data.List:
		for i, x := range v {
			c20Poison(x)
			v[i] = data.String("overwritten by the caller")
		}
	}
}

func safeString(v data.Value) (s string) {
	defer func() {
		if recover() != nil {
			s = "<unprintable>"
		}
	}()
	return v.String()
}
