package props

import (
	"fmt"
	"os"
	"path/filepath"
	"strings"

	"github.com/robfig/soy"
	"github.com/robfig/soy/soyhtml"
	"github.com/robfig/soy/soyjs"
	"verif/jsx"

	"verif/fw"
	"verif/ref"
)

var c15Alphabet = []string{"a", "<", ">", " ", "\t", "\r", "\n", "é"}

// nth string over the alphabet in length-then-lexicographic order.
func c15String(n int) string {
	l := 0
	count := 1
	for n >= count {
		n -= count
		l++
		count *= len(c15Alphabet)
	}
	var parts []string
	for k := 0; k < l; k++ {
		parts = append(parts, c15Alphabet[n%len(c15Alphabet)])
		n /= len(c15Alphabet)
	}
	return strings.Join(parts, "")
}

func c15Count(maxLen int) int {
	total, p := 0, 1
	for l := 0; l <= maxLen; l++ {
		total += p
		p *= len(c15Alphabet)
	}
	return total
}

type c15Neighbor struct {
	name, pre, tag, post, out string
}

// left neighbours: pre + tag come before the text, post (if any) closes a structure after the right neighbour
var c15Left = []c15Neighbor{
	{name: "template-start"},
	{name: "print", tag: "{$ij.x}", out: "X"},
	{name: "sp", tag: "{sp}", out: " "},
	{name: "nil", tag: "{nil}"},
	{name: "if-open", tag: "{if $ij.x}", post: "{/if}"},
	{name: "if-close", tag: "{if $ij.x}{/if}"},
	{name: "literal", tag: "{literal}x {/literal}", out: "x "},
	{name: "call", tag: "{call .u /}", out: "U"},
	{name: "msg-open", tag: "{msg desc=\"d\"}", post: "{/msg}"},
	{name: "css", tag: "{css k}", out: "k"},
	{name: "tab-char", tag: "{\\t}", out: "\t"},
	// a comment as the last thing before the tag that closes a block which is not rendered: the text run after that tag
	// touches no comment and is judged exactly
	{name: "block-ending-in-line-comment", tag: "{if not $ij.x}a // c\n{/if}"},
	{name: "block-ending-in-block-comment", tag: "{if not $ij.x}a /* c */{/if}"},
	{name: "else-ending-in-line-comment", tag: "{if $ij.x}{else}a // c\n{/if}"},
	{name: "case-ending-in-line-comment", tag: "{switch 1}{case 2}a // c\n{/switch}"},
	{name: "comment-only-block", tag: "{if not $ij.x} // c\n{/if}"},
	// header parameter declarations are tags like any other: the text after the last one is a text run
	{name: "header-param", tag: "{@param? z: ?}", post: "{if $z}{/if}"},
	{name: "two-header-params", tag: "{@param? z: ?}{@param? y: any = 1}", post: "{if $z}{/if}{if $y}{/if}"},
}

// right neighbours: tag comes after the text; pre opens a structure before the left neighbour
var c15Right = []c15Neighbor{
	{name: "template-end"},
	{name: "print", tag: "{$ij.x}", out: "X"},
	{name: "sp", tag: "{sp}", out: " "},
	{name: "nil", tag: "{nil}"},
	{name: "if-open", tag: "{if $ij.x}{/if}"},
	{name: "if-close", pre: "{if $ij.x}", tag: "{/if}"},
	{name: "literal", tag: "{literal} x{/literal}", out: " x"},
	{name: "call", tag: "{call .u /}", out: "U"},
	{name: "msg-close", pre: "{msg desc=\"d\"}", tag: "{/msg}"},
	{name: "newline-char", tag: "{\\n}", out: "\n"},
	{name: "block-starting-with-line-comment", tag: "{if not $ij.x} // c\na{/if}"},
	{name: "block-starting-with-block-comment", tag: "{if not $ij.x}/* c */a{/if}"},
}

func c15Template(name, t string, l, r c15Neighbor) (src, want string) {
	body := r.pre + l.pre + l.tag + t + r.tag + l.post
	want = l.out + ref.RawText(t) + r.out
	return "{template ." + name + "}" + body + "{/template}\n", want
}

// comment cases: template body with comments; expectation: the non-space
// characters of the text outside comments, in order (whitespace touching a comment is not constrained).
var c15Comments = []struct{ body, nonspace string }{
	{"a // c1\nb", "ab"}, {"a\n// c1\nb", "ab"}, {"// c1\na b", "ab"}, {"a b\n// c1", "ab"}, {"a /* c */ b", "ab"}, {"a/* c */b", "ab"},
	{"/* c */a", "a"}, {"a/* c\n c2 */\nb", "ab"}, {"{$ij.x} // c\nb", "Xb"}, {"{$ij.x}// c\nb", "X//cb"}, {"a {$ij.x} /* c */ {$ij.x}", "aXX"},
	{"http://x.y/z", "http://x.y/z"}, {"a//b", "a//b"}, {"<a href=\"http://x\">l</a> // c", "<ahref=\"http://x\">l</a>"}, {"a\t// c\nb", "ab"},
	{"a /* // */ b", "ab"}, {"a // /* c\nb", "ab"}, {"a /** doc-like */ b", "ab"}, {"x:// y", "x://y"}, {"a\n  // c1\n  // c2\nb", "ab"},
	{"{if $ij.x}// c\na{/if}", "//ca"}, {"{if $ij.x} // c\na{/if}", "a"}, {"{if $ij.x}a // c\n{/if}", "a"}, {"a /* c */", "a"}, {"a // c", "a"}, {"a /* 1 */ b /* 2 */ c", "abc"},
	// letters whose UTF-8 encoding ends in a byte that is a space in Latin-1 (0xA0, 0x85) are letters: // after them is text
	{"voil\u00e0//x", "voil\u00e0//x"}, {"\u0160//y z", "\u0160//yz"}, {"\u4e05//k", "\u4e05//k"}, {"\u0405// k", "\u0405//k"}, {"\u00e0/* c */b", "\u00e0b"}, {"x \u00e0 // c\nb", "x\u00e0b"},
	{"\u00e0//", "\u00e0//"}, {"a\u4e05//b // c", "a\u4e05//b"},
	// U+0000 is a character like any other: // after it is text, and it does not glue lines together
	{"a\x00//b", "a\x00//b"}, {"{$ij.x}\x00// c", "X\x00//c"}, {"a\x00\nb // c", "a\x00b"},
	// special-character commands emit exactly their characters, also inside a message and also when the result looks like a placeholder
	{"{msg desc=\"d\"}Write {lb}0{rb} to greet {lb}NAME{rb}{/msg}", "Write{0}togreet{NAME}"}, {"{msg desc=\"d\"}{lb}A_1{rb}{$ij.x}{lb}{$ij.x}{rb}{/msg}", "{A_1}X{X}"},
	{"{msg desc=\"d\"}{lb}{lb}X{rb}{rb} {lb}{rb} {rb}{lb}{/msg}", "{{X}}{}}{"}, {"{lb}NAME{rb}{sp}{lb}0{rb}{nil}{lb}", "{NAME}{0}{"},
	{"{msg desc=\"d\"}{literal}{NAME} {0}{/literal}{/msg}", "{NAME}{0}"},
}

// c15Tokens is the alphabet of the comment grammar: every sequence of up to four (thorough five) of them is a template body.
var c15Tokens = []string{"a", "/", "*", "//", "/*c*/", "/**/", " ", "\n", ":", "{$ij.x}"}

func c15GrammarCount(tier string) int {
	n, p := 0, 1
	max := 4
	if tier == "thorough" {
		max = 5
	}
	for l := 1; l <= max; l++ {
		p *= len(c15Tokens)
		n += p
	}
	return n
}

// c15GrammarBody is the k-th token sequence, shortest first.
func c15GrammarBody(k int) string {
	l, p := 1, len(c15Tokens)
	for k >= p {
		k -= p
		p *= len(c15Tokens)
		l++
	}
	var b strings.Builder
	for j := 0; j < l; j++ {
		b.WriteString(c15Tokens[k%len(c15Tokens)])
		k /= len(c15Tokens)
	}
	return b.String()
}

// c15StripComments removes what the statement calls comments from a template body that follows a line break:
// /* ... */ anywhere, // ... to the end of the line when it follows white space. judged is false where the
// statement does not say (an unclosed comment, // directly after a comment or a tag).
func c15StripComments(body string) (out string, judged bool) {
	var b strings.Builder
	i := 0
	afterSpace, afterOther := true, false // what precedes position i: white space / a comment's end or a tag
	for i < len(body) {
		switch {
		case strings.HasPrefix(body[i:], "/*"):
			j := strings.Index(body[i+2:], "*/")
			if j < 0 {
				return "", false
			}
			i += 2 + j + 2
			afterSpace, afterOther = false, true
		case strings.HasPrefix(body[i:], "//") && afterOther:
			return "", false
		case strings.HasPrefix(body[i:], "//") && afterSpace:
			j := strings.IndexByte(body[i:], '\n')
			if j < 0 {
				j = len(body) - i
			}
			i += j
			afterSpace, afterOther = false, true // (i is at the line break or at the end)
		case strings.HasPrefix(body[i:], "{$ij.x}"):
			b.WriteString("X")
			i += len("{$ij.x}")
			afterSpace, afterOther = false, true
		default:
			c := body[i]
			b.WriteByte(c)
			i++
			afterSpace, afterOther = c == ' ' || c == '\n' || c == '\t' || c == '\r', false
		}
	}
	return b.String(), true
}

func stripSpace(s string) string {
	return strings.NewReplacer(" ", "", "\t", "", "\n", "", "\r", "").Replace(s)
}

const c15Batch = 200

func c15Sizes(tier string) (exhaustive, pairsFull, random int) {
	if tier == "thorough" {
		return c15Count(8), c15Count(5), 400000
	}
	return c15Count(6), c15Count(4), 20000
}

func init() {
	fw.Register(&fw.Prop{
		ID:    "C15",
		Level: "exploration",
		Rule: "exhaustive: every string of length <= 6 (thorough 8) over {a < > space tab CR LF é} as a text run, neighbour pair rotating over 18 left x 12 right neighbour kinds (five / two of them blocks that are not rendered and begin or end with a comment); every string of " +
			"length <= 4 (thorough 5) between every neighbour pair; seeded longer runs with 中 and 😀; 39 comment / special-character placements (output compared modulo whitespace). " +
			"Oracle: the line-joining rule (ref.RawText). A case is a batch of 200 templates compiled together. distinct = distinct (text run, neighbour pair); non-trivial = run contains whitespace",
		N: func(tier string) int {
			ex, pf, rnd := c15Sizes(tier)
			return (ex+c15Batch-1)/c15Batch + (pf*len(c15Left)*len(c15Right)+c15Batch-1)/c15Batch + rnd/c15Batch + 1 + (c15GrammarCount(tier)+c15Batch-1)/c15Batch
		},
		Exhaustive: func(tier string) bool { return true },
		Run: func(ctx *fw.Ctx, i int) fw.Result {
			ex, pf, rnd := c15Sizes(ctx.Tier)
			nEx := (ex + c15Batch - 1) / c15Batch
			nPf := (pf*len(c15Left)*len(c15Right) + c15Batch - 1) / c15Batch
			if n0 := nEx + nPf + rnd/c15Batch + 1; i >= n0 {
				// the comment grammar: every short sequence of slashes, stars, comments, blanks and text
				var src strings.Builder
				src.WriteString("{namespace t}\n")
				type gcase struct{ name, body, want string }
				var gs []gcase
				for k := (i - n0) * c15Batch; k < (i-n0+1)*c15Batch && k < c15GrammarCount(ctx.Tier); k++ {
					body := c15GrammarBody(k)
					want, judged := c15StripComments(body)
					if !judged {
						ctx.Obs("comment_grammar_not_judged", 1)
						continue
					}
					name := fmt.Sprintf("g%d", k)
					fmt.Fprintf(&src, "{template .%s}\n%s\n{/template}\n", name, body)
					gs = append(gs, gcase{name, body, stripSpace(want)})
				}
				file := srcFile{"c15g.soy", src.String()}
				tofu, err := compile([]srcFile{file}, nil)
				if err != nil {
					return fw.Result{Verdict: fw.Violated, Key: "compile-rejects-valid:comment-grammar", Case: file, Msg: "template text made of slashes, stars, comments and blanks rejected: " + errText(err)}
				}
				ijv := ref.MapOf("x", ref.Str("X"))
				for _, g := range gs {
					got, err := render(tofu, "t."+g.name, map[string]ref.Value{}, &ijv, nil)
					ctx.Eval("grammar:" + g.body)
					ctx.Obs("comment_grammar_cases", 1)
					if err != nil || stripSpace(got) != g.want {
						return fw.Result{Verdict: fw.Violated, Key: "comment-grammar", Case: g.body,
							Msg: fmt.Sprintf("body %q: want non-space characters %q, got %q (err %v)", g.body, g.want, got, err)}
					}
				}
				return fw.Result{Verdict: fw.Held}
			}
			type one struct{ name, text, want, l, r string }
			var cases []one
			var src strings.Builder
			src.WriteString("{namespace t}\n{template .u}U{/template}\n")
			msgSafe := map[string]bool{"print": true, "sp": true, "nil": true, "call": true, "tab-char": true, "newline-char": true, "msg-open": true, "msg-close": true, "template-start": false}
			type sib struct{ name, nonspace string }
			var sibs []sib
			// siblings: the same text run next to a comment, elsewhere in the same file (before or after the
			// exact case). They are judged modulo whitespace; their purpose is to expose cross-talk between
			// text runs of one file (caches, shared scanner state).
			addSibling := func(t string, variant int) {
				if strings.Contains(t, "/") {
					return
				}
				name := fmt.Sprintf("s%d", len(sibs))
				var body string
				switch variant % 4 {
				case 0:
					body = "{nil}" + t + "/* c */{nil}"
				case 1:
					body = "{nil}/* c */" + t + "{nil}"
				case 2:
					body = "{nil}" + t + " // c\n{nil}"
				default:
					body = "{$ij.x}" + t + "/* c */{$ij.x}"
				}
				src.WriteString("{template ." + name + "}" + body + "{/template}\n")
				want := stripSpace(t)
				if variant%4 == 3 {
					want = "X" + want + "X"
				}
				sibs = append(sibs, sib{name, want})
			}
			add := func(t string, l, r c15Neighbor) {
				if len(cases)%7 == 3 {
					addSibling(t, len(cases)/7)
				}
				defer func() {
					if len(cases)%7 == 5 {
						addSibling(t, len(cases)/7+1)
					}
				}()
				// inside a message only print, call and special-character neighbours are legal
				if l.name == "msg-open" && !msgSafe[r.name] {
					r = c15Right[1]
				}
				if r.name == "msg-close" && !msgSafe[l.name] {
					l = c15Left[1]
				}
				if strings.Contains(l.name, "header-param") && r.pre != "" {
					r = c15Right[1] // declarations must come first in the template
				}
				if l.name == "msg-open" && r.name == "msg-close" {
					l.post, r.pre = "", ""
				}
				if l.name == "if-open" && r.name == "if-close" {
					l.post, r.pre = "", ""
				}
				name := fmt.Sprintf("c%d", len(cases))
				s, want := c15Template(name, t, l, r)
				if len(cases)%6 == 4 && t != "" && !strings.Contains(l.name, "msg") && !strings.Contains(r.name, "msg") && !strings.Contains(l.name, "header") {
					// the same run inside a literal block: there it stands for exactly its characters, blanks and line breaks included
					s = "{template ." + name + "}" + r.pre + l.pre + l.tag + "{literal}" + t + "{/literal}" + r.tag + l.post + "{/template}\n"
					want = l.out + t + r.out
					l.name = "literal-content"
				}
				src.WriteString(s)
				cases = append(cases, one{name, t, want, l.name, r.name})
			}
			commentsOnly := false
			switch {
			case i < nEx:
				for k := i * c15Batch; k < (i+1)*c15Batch && k < ex; k++ {
					add(c15String(k), c15Left[k%len(c15Left)], c15Right[(k/len(c15Left))%len(c15Right)])
				}
			case i < nEx+nPf:
				base := (i - nEx) * c15Batch
				np := len(c15Left) * len(c15Right)
				for k := base; k < base+c15Batch && k < pf*np; k++ {
					p := k % np
					add(c15String(k/np), c15Left[p%len(c15Left)], c15Right[p/len(c15Left)])
				}
			case i == nEx+nPf:
				commentsOnly = true
			default:
				alpha := append(append([]string{}, c15Alphabet...), "中", "😀", "\u00e0", "\u4e05", "\u0160", "\u00a0", "\u3000", "\u2028", "\u00a0\n", "\n\u3000", "b", "\n", "\n  ", " ", "\ufeff", "x\ufeffy", "\u200b", "\x00", "\x00\n", "\n\x00", "\x01", "\x7f")
				longRun := func() {
					// a run of 1-9 KB of multi-byte characters at every alignment, with line breaks to join (so that it
					// is shorter after normalisation than before), between ordinary runs: what is kept of one text run
					// is no business of its neighbours
					var b strings.Builder
					b.WriteString(strings.Repeat("a", ctx.Rng.Intn(4)))
					unit := []string{"中", "😀", "é", "日本語 ", "x\u00e0", "ab\n  cd", "<\n>", "word \n\t word", "  \n"}[ctx.Rng.Intn(9)]
					size := []int{1000, 2040, 2049, 2100, 3000, 4090, 4097, 6000, 8190, 8200, 9000}[ctx.Rng.Intn(11)]
					for b.Len() < size {
						b.WriteString(unit)
						if ctx.Rng.P(1, 40) {
							b.WriteString(alpha[ctx.Rng.Intn(len(alpha))])
						}
					}
					add(b.String(), c15Left[ctx.Rng.Intn(len(c15Left))], c15Right[ctx.Rng.Intn(len(c15Right))])
				}
				for k := 0; k < c15Batch; k++ {
					n := 6 + ctx.Rng.Intn(20)
					var b strings.Builder
					for j := 0; j < n; j++ {
						b.WriteString(alpha[ctx.Rng.Intn(len(alpha))])
					}
					add(b.String(), c15Left[ctx.Rng.Intn(len(c15Left))], c15Right[ctx.Rng.Intn(len(c15Right))])
					if ctx.Rng.P(1, 25) {
						longRun()
					}
				}
				longRun()
			}
			if commentsOnly {
				for k, c := range c15Comments {
					fmt.Fprintf(&src, "{template .m%d}\n%s\n{/template}\n", k, c.body)
				}
			}
			file := srcFile{"c15.soy", src.String()}
			tofu, err := compile([]srcFile{file}, nil)
			if err != nil {
				return fw.Result{Verdict: fw.Violated, Key: "compile-rejects-valid", Case: file, Msg: "template text over the alphabet rejected: " + errText(err)}
			}
			d := map[string]ref.Value{}
			ijv := ref.MapOf("x", ref.Str("X"))
			if commentsOnly {
				for k, c := range c15Comments {
					got, err := render(tofu, fmt.Sprintf("t.m%d", k), d, &ijv, nil)
					ctx.Eval("comment:" + c.body)
					ctx.Obs("comment_cases", 1)
					if err != nil || stripSpace(got) != c.nonspace {
						return fw.Result{Verdict: fw.Violated, Key: fmt.Sprintf("comment-placement:%d", k), Case: c.body,
							Msg: fmt.Sprintf("body %q: want non-space characters %q, got %q (err %v)", c.body, c.nonspace, got, err)}
					}
				}
				return fw.Result{Verdict: fw.Held}
			}
			for _, sb := range sibs {
				got, err := render(tofu, "t."+sb.name, d, &ijv, nil)
				ctx.Obs("comment_siblings", 1)
				if err != nil || stripSpace(got) != sb.nonspace {
					return fw.Result{Verdict: fw.Violated, Key: "comment-sibling-mismatch", Case: file,
						Msg: fmt.Sprintf("template %s (text run next to a comment): want non-space characters %q, got %q (err %v)", sb.name, sb.nonspace, got, err)}
				}
			}
			for _, c := range cases {
				got, err := render(tofu, "t."+c.name, d, &ijv, nil)
				id := ""
				if strings.ContainsAny(c.text, " \t\r\n") {
					id = c.l + "|" + c.text + "|" + c.r
				}
				ctx.Eval(id)
				ctx.Cell("left:" + c.l)
				ctx.Cell("right:" + c.r)
				if err != nil || got != c.want {
					return fw.Result{Verdict: fw.Violated, Key: "rawtext-mismatch", Case: map[string]string{"text": c.text, "left": c.l, "right": c.r, "want": c.want, "got": got},
						Msg: fmt.Sprintf("text run %q between %s and %s: want %q, got %q (err %v)", c.text, c.l, c.r, c.want, got, err)}
				}
			}
			// the same file read from disk (Bundle.AddTemplateFile; every fifth batch): the text of a template does not
			// depend on the entry point that brought the file in
			if i%5 == 2 {
				if dir, derr := os.MkdirTemp("", "c15disk"); derr == nil {
					p := filepath.Join(dir, "c15.soy")
					werr := os.WriteFile(p, []byte(file.Text), 0644)
					var dtofu *soyhtml.Tofu
					var cerr error
					if werr == nil {
						dtofu, cerr = soy.NewBundle().AddTemplateFile(p).CompileToTofu()
					}
					os.RemoveAll(dir)
					if werr == nil {
						if cerr != nil {
							return fw.Result{Verdict: fw.Violated, Key: "compile-rejects-valid:from-disk", Case: file, Msg: "accepted as a string, rejected as a file: " + errText(cerr)}
						}
						for _, c := range cases {
							got, err := render(dtofu, "t."+c.name, d, &ijv, nil)
							ctx.Obs("cases_from_disk", 1)
							if err != nil || got != c.want {
								return fw.Result{Verdict: fw.Violated, Key: "rawtext-mismatch:from-disk", Case: map[string]string{"text": c.text, "left": c.l, "right": c.r, "want": c.want, "got": got},
									Msg: fmt.Sprintf("text run %q between %s and %s, file read through AddTemplateFile: want %q, got %q (err %v)", c.text, c.l, c.r, c.want, got, err)}
							}
						}
					}
				}
			}
			// the same templates through the generated JavaScript (every fourth batch and every seeded batch): text is
			// normalised once, by the parser, and each backend has to hand it on unchanged
			if e, eerr := engine(); eerr == nil && (i%4 == 0 || i > nEx+nPf) {
				reg, rerr := compileRegistry([]srcFile{file}, nil)
				if rerr != nil {
					return fw.Result{Verdict: fw.Inconclusive, Key: "second-compile-failed", Msg: errText(rerr)}
				}
				js, jerr := genJS(reg, soyjs.Options{})
				if jerr != nil {
					return fw.Result{Verdict: fw.Violated, Key: "js-generation-fails", Case: file, Msg: errText(jerr)}
				}
				if _, lerr := loadBundleJS(e, reg, js); lerr != nil {
					if _, isEng := lerr.(jsx.EngineError); isEng {
						return fw.Result{Verdict: fw.Inconclusive, Key: "engine-failure", Msg: lerr.Error()}
					}
					return fw.Result{Verdict: fw.Violated, Key: "js-does-not-load", Case: file, Msg: fw.Trim(lerr.Error(), 300)}
				}
				for _, c := range cases {
					got, typ, jerr := e.Eval("t." + c.name + "({}, null, {x: 'X'})")
					ctx.Obs("js_outputs_compared", 1)
					if jerr != nil || typ != "string" || got != c.want {
						if _, isEng := jerr.(jsx.EngineError); isEng {
							return fw.Result{Verdict: fw.Inconclusive, Key: "engine-failure", Msg: jerr.Error()}
						}
						return fw.Result{Verdict: fw.Violated, Key: "rawtext-mismatch:js", Case: map[string]string{"text": c.text, "left": c.l, "right": c.r, "want": c.want, "got": got},
							Msg: fmt.Sprintf("generated JavaScript, text run %q between %s and %s: want %q, got %q (err %v)", fw.Trim(c.text, 200), c.l, c.r, fw.Trim(c.want, 200), fw.Trim(got, 200), jerr)}
					}
				}
			}
			if i%97 == 0 && len(cases) > 0 {
				c := cases[len(cases)/2]
				ctx.Sample(map[string]string{"text": c.text, "left": c.l, "right": c.r, "output": c.want})
			}
			return fw.Result{Verdict: fw.Held}
		},
		Floors: func(obs map[string]int64, cells map[string]bool, tier string) []string {
			var why []string
			if !cells["left:literal-content"] {
				why = append(why, "no text run was placed in a literal block")
			}
			for _, l := range c15Left {
				if !cells["left:"+l.name] {
					why = append(why, "left neighbour never used: "+l.name)
				}
			}
			for _, r := range c15Right {
				if !cells["right:"+r.name] {
					why = append(why, "right neighbour never used: "+r.name)
				}
			}
			if obs["comment_cases"] == 0 {
				why = append(why, "comment placements not run")
			}
			return why
		},
		Assumptions: []string{"whitespace touching a comment is not constrained by the statement and not judged", "whitespace is space, tab, CR and LF (the statement's alphabet); every multi-byte rune, U+00A0, U+3000 and U+2028 included, is an ordinary character (seeded runs only)"},
	})
}
