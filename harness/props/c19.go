package props

import (
	"fmt"
	"os"
	"path/filepath"
	"strings"

	"github.com/robfig/soy"
	"github.com/robfig/soy/soyhtml"
	"github.com/robfig/soy/soymsg"

	"github.com/robfig/soy/errortypes"
	"github.com/robfig/soy/parse"

	"verif/fw"
	"verif/gen"
	"verif/ref"
)

type c19Fault struct {
	name   string
	line   string // the line inserted
	single bool   // error must be reported exactly on the inserted line (else: on it or later, inside the input)
}

var c19ParseFaults = []c19Fault{
	{"illegal-char-in-tag", "{$ij.a ^ 2}", true},
	{"illegal-char-in-tag2", "{if $ij.a # 1}x{/if}", true},
	{"stray-closing-brace", "foo } bar", true},
	{"unknown-command", "{/xyz}", true},
	{"unknown-command2", "{\\q}", true},
	{"bad-number", "{12abc}", true},
	{"bad-attribute", "{msg nodesc=\"x\"}a{/msg}", true},
	{"bad-attribute2", "{call .t0 foo=\"1\" /}", true},
	{"bad-symbol", "{$ij.a =! 1}", true},
	{"unexpected-token", "{$ij.a + }", true},
	{"unclosed-paren", "{($ij.a + 1}", true},
	{"attr-expr-illegal-char", "{call .t0 data=\"$ij.a ^ 1\" /}", true},
	{"attr-expr-incomplete", "{call .t0}{param key=\"p\" value=\"1 +\" /}{/call}", true},
	{"css-expr-incomplete", "{css $ij.a +, base}", true},
	{"unterminated-string", "{'abc}", false},
	{"unterminated-block-comment", "x /* abc", false},
	{"unterminated-tag", "{if $ij.a", false},
	{"unterminated-literal", "{literal}abc", false},
	{"missing-close-if", "{if $ij.a}x", false},
	{"missing-close-foreach", "{foreach $q in $ij.l}x", false},
	{"missing-close-msg", "{msg desc=\"d\"}x", false},
	{"unterminated-soydoc", "/** abc", false},
	{"unterminated-double-brace", "{{$ij.a}", false},
}

// insertion points: lines (1-based) that start a command inside a template body block
func c19Sites(b *ref.Bundle, f *ref.File, lines map[ref.Node]int) []int {
	seen := map[int]bool{}
	var out []int
	inFile := map[*ref.Template]bool{}
	for _, t := range f.Templates {
		inFile[t] = true
	}
	for _, blk := range collectBlocks(b) {
		if !inFile[blk.tmpl] {
			continue
		}
		for _, n := range *blk.body {
			if isInline(n) {
				continue
			}
			if l, ok := lines[n]; ok && !seen[l] {
				seen[l] = true
				out = append(out, l)
			}
		}
	}
	return out
}

func isInline(n ref.Node) bool {
	switch n.(type) {
	case *ref.Raw, *ref.Special, *ref.Literal, *ref.Print, *ref.Css:
		return true
	}
	return false
}

func insertLine(src string, at int, line string) string {
	ls := strings.Split(src, "\n")
	if at-1 > len(ls) {
		at = len(ls) + 1
	}
	out := append([]string{}, ls[:at-1]...)
	out = append(out, line)
	out = append(out, ls[at-1:]...)
	return strings.Join(out, "\n")
}

func checkPos(err error, wantFile string, okLine func(int) bool, wantDesc string, nlines int) (string, string) {
	fp := errortypes.ToErrFilePos(err)
	if fp == nil {
		return "no-file-position", fmt.Sprintf("error carries no file position: %v", errText(err))
	}
	if fp.File() != wantFile {
		return "wrong-file", fmt.Sprintf("File() = %q, want %q (%v)", fp.File(), wantFile, firstLine(errText(err)))
	}
	if nlines > 0 && (fp.Line() < 1 || fp.Line() > nlines) {
		return "line-outside-input", fmt.Sprintf("Line() = %d lies outside the input (1..%d) (%v)", fp.Line(), nlines, firstLine(errText(err)))
	}
	if !okLine(fp.Line()) {
		return "wrong-line", fmt.Sprintf("Line() = %d, want %s (%v)", fp.Line(), wantDesc, firstLine(errText(err)))
	}
	if !strings.Contains(err.Error(), fmt.Sprintf("%s:%d:", wantFile, fp.Line())) && !strings.Contains(err.Error(), fmt.Sprintf(":%d", fp.Line())) {
		return "message-lacks-position", fmt.Sprintf("message %q does not show %s:%d", firstLine(errText(err)), wantFile, fp.Line())
	}
	return "", ""
}

// ---- render faults

var c19Bad = []string{"{1 < 'a'}", "{$ij.nope.x}", "{$u.v}", "{length($ij.nolist)}", "{$ij.a|truncate:'x'}",
	"{call .leaf data=\"$ij.nope.x\" /}", "{call .leaf}{param key=\"u\" value=\"1 < 'a'\" /}{/call}", "{css $ij.nope.x, base}",
	// commands that span lines, the failing expression on a later line than the command's own: the command's line is reported
	"{if true\n   and $ij.nope.x}y{/if}", "{print\n   $ij.nope.x}", "{$ij.a\n   |truncate:'x'}", "{call .leaf}\n{param u:\n   $ij.nope.x /}\n{/call}", "{foreach $q2 in\n   $ij.nope.x}{$q2}{/foreach}",
	"{switch 1}{case\n   $ij.nope.x}a{/switch}", "{let $w2:\n\n   1 < 'a' /}{$w2}", "{if false}{elseif\n   $ij.nope.x}y{/if}", "{$ij.nope ? 1\n   : $ij.nope.x}"}

// inside a {msg} only prints and calls are commands
func c19MsgSafe(bad string) bool {
	for _, p := range []string{"{if", "{foreach", "{switch", "{let", "{css"} {
		if strings.HasPrefix(bad, p) {
			return false
		}
	}
	return true
}

// c19RenderCase builds a chain entry -> t1 -> ... -> td across two files with a failing print at
// depth d, wrapped in a block of the given kind; returns files, entry file name, acceptable lines.
func c19RenderCase(r *fw.Rand, depth, wrap, padEntry, padCallee int, sameFile bool) (files []srcFile, entryFile string, okLines map[int]bool, desc string) {
	bad := c19Bad[r.Intn(len(c19Bad))]
	for wrap == 5 && !c19MsgSafe(bad) {
		bad = c19Bad[r.Intn(len(c19Bad))]
	}
	wrapOpen := []string{"", "{if true}", "{foreach $q in [1]}", "{let $v}", "{switch 1}{case 1}", "{msg desc=\"d\"}"}[wrap]
	wrapClose := []string{"", "{/if}", "{/foreach}", "{/let}{$v}", "{/switch}", "{/msg}"}[wrap]
	okLines = map[int]bool{}
	var a, b strings.Builder
	a.WriteString("{namespace na}\n")
	b.WriteString("{namespace nb}\n")
	line := map[*strings.Builder]int{&a: 2, &b: 2}
	wr := func(w *strings.Builder, s string) int {
		at := line[w]
		w.WriteString(s + "\n")
		line[w] += 1 + strings.Count(s, "\n")
		return at
	}
	for i := 0; i < padEntry; i++ {
		wr(&a, "// padding "+fmt.Sprint(i))
	}
	for i := 0; i < padCallee; i++ {
		wr(&b, "// padding")
	}
	for lv := 0; lv <= depth; lv++ {
		w, ns := &a, "na"
		if lv > 0 && !sameFile && lv%2 == 1 {
			w, ns = &b, "nb"
		}
		_ = ns
		if lv == 0 && r.P(1, 3) {
			// bytes that are not UTF-8 (a Latin-1 letter) in the comment above the template: lines are counted in the
			// file as it is
			wr(w, "/** @param? u caf\xe9 \xe0 la carte\n * @param? z \xff */")
		} else {
			wr(w, "/** @param? u\n * @param? z */")
		}
		wr(w, fmt.Sprintf("{template .t%d}", lv))
		wr(w, "{isNonnull($z)}")
		wr(w, "line one{isNonnull($u)}")
		if lv == 0 {
			for i := 0; i < r.Intn(3); i++ {
				wr(w, "filler<br>")
			}
		}
		if lv == depth && r.Bool() {
			// the same command, text for text, earlier in the file where it is not executed: positions belong to
			// occurrences, not to texts
			wr(w, "{if false}"+bad+"{/if}")
			wr(w, "between")
		}
		var stmt string
		if lv < depth {
			nextNs := "na"
			if !sameFile && (lv+1)%2 == 1 {
				nextNs = "nb"
			}
			switch r.Intn(8) {
			case 5:
				// an opening tag that itself spans several lines: the command starts where its brace is
				stmt = fmt.Sprintf("{call %s.t%d\n    data=\"all\"\n/}", nextNs, lv+1)
			case 6:
				stmt = fmt.Sprintf("{call %s.t%d\n  data=\"['u': 1]\"}\n  {param z: 2 /}\n{/call}", nextNs, lv+1)
			case 7:
				stmt = fmt.Sprintf("{call\n  name=\"%s.t%d\"\n  data=\"all\" /}", nextNs, lv+1)
			case 0:
				stmt = fmt.Sprintf("{call %s.t%d /}", nextNs, lv+1)
			case 1:
				stmt = fmt.Sprintf("{call %s.t%d data=\"all\" /}", nextNs, lv+1)
			case 2:
				stmt = fmt.Sprintf("{call %s.t%d}{param u: $u /}{/call}", nextNs, lv+1)
			case 3:
				// a call that spans several lines: params with content blocks of their own. The command is the {call}
				// tag; the error belongs to its line.
				stmt = fmt.Sprintf("{call %s.t%d}\n  {param u}\n    content line\n    {let $q: 1 /}{$q}\n    last content line\n  {/param}\n{/call}", nextNs, lv+1)
			default:
				stmt = fmt.Sprintf("{call %s.t%d}\n  {param key=\"u\" value=\"[1, 2]\" /}\n  {param key=\"z\"}\n  two\n  lines\n  {/param}\n{/call}", nextNs, lv+1)
			}
		} else {
			stmt = bad
		}
		if lv == 0 && wrap > 0 && depth%2 == 1 {
			// two levels of enclosing blocks: outer control flow, inner content block. Accepted: the failing command's own
			// line or the line of the OUTERMOST enclosing command; the block in between is neither.
			outerOpen := []string{"{if true}", "{foreach $z in [1]}"}[r.Intn(2)]
			outerClose := map[string]string{"{if true}": "{/if}", "{foreach $z in [1]}": "{/foreach}"}[outerOpen]
			l0 := wr(w, outerOpen)
			wr(w, "  filler text")
			wr(w, "  "+wrapOpen)
			wr(w, "    more filler")
			l2 := wr(w, "    "+stmt)
			wr(w, "  "+wrapClose)
			wr(w, outerClose)
			okLines[l0], okLines[l2] = true, true
			desc = fmt.Sprintf("line %d (the failing command) or %d (the outermost enclosing command)", l2, l0)
		} else if lv == 0 && wrap > 0 {
			l1 := wr(w, wrapOpen)
			l2 := wr(w, "  "+stmt)
			wr(w, wrapClose)
			okLines[l1], okLines[l2] = true, true
			desc = fmt.Sprintf("line %d (the failing command) or %d (its enclosing block)", l2, l1)
		} else {
			l := wr(w, stmt)
			if lv == 0 {
				okLines[l] = true
				desc = fmt.Sprintf("line %d", l)
			}
		}
		wr(w, "after")
		wr(w, "{/template}")
		wr(w, "")
	}
	a.WriteString("/** @param? u */\n{template .leaf}{isNonnull($u)}{/template}\n")
	b.WriteString("/** @param? u */\n{template .leaf}{isNonnull($u)}{/template}\n")
	// file names are only labels: sometimes both files carry the same (or no) name
	entryFile = []string{"entry.soy", "entry.soy", "", "same.soy", "./views/entry.soy", "views//entry.soy", "views/../entry.soy", "entry.soy/"}[r.Intn(8)]
	calleeFile := "callee.soy"
	if entryFile == "" || entryFile == "same.soy" {
		calleeFile = entryFile
	}
	files = []srcFile{{entryFile, a.String()}}
	if !sameFile {
		files = append(files, srcFile{calleeFile, b.String()})
		if r.Bool() {
			files[0], files[1] = files[1], files[0]
		}
	}
	return files, entryFile, okLines, desc
}

func init() {
	fw.Register(&fw.Prop{
		ID:    "C19",
		Level: "exploration",
		Rule: "parse: seeded valid multi-line files (C02 generator, one command per line); each of 23 fault kinds (illegal character in a tag, stray '}', unknown command, bad number/attribute/symbol, " +
			"faults inside quoted attribute expressions; unterminated string/comment/tag/literal/block/soydoc) inserted as a line of its own before EVERY line that starts a command in a template body: " +
			"the error must carry the given file name, a line inside the input, the inserted line (single-line faults) or a line from it on (unterminated constructs), and show file:line in its text. " +
			"render: a failing print at call depth 0..3 (callees in the same or another file, padded so line numbers differ), plain or inside if/foreach/let/switch/msg: File() must be the entry " +
			"template's file and Line() the line of the failing command or of its enclosing block command in the entry template; one third of the render cases use CRLF line ends; one in eleven defines the entry " +
			"template in two files (rejected, or the error names one file with that file's failing line). distinct = distinct (file text, fault, line); non-trivial = all",
		N: func(tier string) int {
			if tier == "thorough" {
				return 20000 + 200000
			}
			return 400 + 10000
		},
		Run: func(ctx *fw.Ctx, i int) fw.Result {
			nParse := 400
			if ctx.Tier == "thorough" {
				nParse = 20000
			}
			if i < nParse {
				g := &gen.G{R: ctx.Rng}
				g.O = c02Opts(ctx.Rng, ctx.Tier)
				g.O.MaxDepth = 3
				prog := g.Bundle(1, 2+ctx.Rng.Intn(3))
				f := prog.B.Files[0]
				lines := map[ref.Node]int{}
				src := ref.FileSrc(f, ref.Layout{Multiline: true, CRLF: i%3 == 1}, lines)
				if _, err := parse.SoyFile(f.Name, src); err != nil {
					return fw.Result{Verdict: fw.Skip} // C02's subject
				}
				sites := c19Sites(prog.B, f, lines)
				// also the first line after the template tag and a line between templates
				for _, t := range f.Templates {
					if l, ok := lines[t]; ok {
						sites = append(sites, l+1)
					}
				}
				// in every second file a template full of constructs that span lines comes first (a literal block, a block
				// comment, a soydoc with many lines, tags broken over lines): whatever skips over them has to count their lines
				if i%2 == 0 {
					first := 0
					for li, l := range strings.Split(src, "\n") {
						if strings.HasPrefix(l, "/**") || strings.HasPrefix(l, "{template") {
							first = li + 1
							break
						}
					}
					decoy := c19Decoy(ctx.Rng)
					if first > 0 {
						cand := insertLine(src, first, decoy)
						if _, err := parse.SoyFile(f.Name, cand); err == nil {
							k := 1 + strings.Count(decoy, "\n")
							for j := range sites {
								if sites[j] >= first {
									sites[j] += k
								}
							}
							src = cand
							ctx.Obs("files_with_multi_line_constructs", 1)
						} else {
							ctx.Obs("decoy_rejected", 1)
						}
					}
				}
				// file names are labels given by the caller: whatever their form, errors carry them as given
				name := []string{"dir/in%d.soy", "./views/in%d.soy", "views//in%d.soy", "views/../in%d.soy", "in%d.soy/", "C:\\tpl\\in%d.soy", " spaced name %d.soy", "\u540d\u524d%d.soy", "a/./b/in%d.soy", "in%d"}[i%10]
				name = fmt.Sprintf(name, i)
				if i%5 == 3 {
					// ... also when they hold what a formatting function would take for a verb
					name = []string{"100%d ", "50% off ", "%s%v%[9]q", "%"}[(i/5)%4] + name + []string{"", "%", "%!"}[(i/20)%3]
				}
				for _, at := range sites {
					for _, fault := range c19ParseFaults {
						mut := insertLine(src, at, fault.line)
						nlines := 1 + strings.Count(mut, "\n")
						_, err := parse.SoyFile(name, mut)
						ctx.Eval(fmt.Sprintf("%s@%d:%s", fault.name, at, mut))
						ctx.Cell("fault:" + fault.name)
						if err == nil {
							if fault.single && (strings.HasPrefix(fault.name, "attr-expr") || fault.name == "css-expr-incomplete") {
								ctx.Obs("attr_expr_fault_accepted", 1)
							}
							ctx.Obs("fault_not_an_error", 1)
							continue // the inserted text happened to be legal there; nothing to judge
						}
						ctx.Obs("parse_errors_judged", 1)
						ok := func(l int) bool { return l == at }
						want := fmt.Sprintf("line %d", at)
						if !fault.single {
							ok = func(l int) bool { return l >= at }
							want = fmt.Sprintf("a line in %d..%d", at, nlines)
						}
						key, why := checkPos(err, name, ok, want, nlines)
						if fp := errortypes.ToErrFilePos(err); key == "" && fp != nil {
							// a parse error shows file, line and column as a prefix of its text, and none of it is garbled
							if pre := fmt.Sprintf("%s:%d:%d:", name, fp.Line(), fp.Col()); !strings.Contains(err.Error(), pre) {
								key, why = "message-lacks-position", fmt.Sprintf("message %q does not show %q", firstLine(errText(err)), pre)
							} else if strings.Contains(err.Error(), "%!") && !strings.Contains(name+mut, "%!") {
								key, why = "message-garbled", fmt.Sprintf("message %q", firstLine(errText(err)))
							}
						}
						if key != "" {
							return fw.Result{Verdict: fw.Violated, Key: "parse:" + key + ":" + fault.name, Case: map[string]interface{}{"file": name, "text": mut, "fault_line": at},
								Msg: fmt.Sprintf("fault %q inserted as line %d of %s: %s", fault.line, at, name, why)}
						}
					}
				}
				if i%20 == 0 {
					ctx.Sample(map[string]interface{}{"file": name, "lines": 1 + strings.Count(src, "\n"), "insertion_lines": sites, "faults": len(c19ParseFaults)})
				}
				return fw.Result{Verdict: fw.Held}
			}
			// render faults
			k := i - nParse
			if k%11 == 5 {
				return c19Duplicate(ctx)
			}
			if k%11 == 7 {
				return c19Recursive(ctx)
			}
			if k%11 == 9 {
				return c19MsgTwins(ctx)
			}
			depth := k % 4
			wrap := (k / 4) % 6
			sameFile := (k/24)%2 == 0
			padE, padC := ctx.Rng.Intn(12), ctx.Rng.Intn(30)
			if k%7 == 3 {
				// long files: the failing command lies hundreds or thousands of lines down (around the sizes a table of
				// line starts might be cut into)
				sizes := []int{230, 245, 250, 251, 255, 256, 500, 505, 510, 765, 1020, 4090, 65530}
				padE, padC = sizes[ctx.Rng.Intn(len(sizes))]+ctx.Rng.Intn(8), sizes[ctx.Rng.Intn(len(sizes))]+ctx.Rng.Intn(8)
				ctx.Cell("long-files")
			}
			files, entryFile, okLines, desc := c19RenderCase(ctx.Rng, depth, wrap, padE, padC, sameFile)
			if ctx.Rng.Intn(3) == 0 {
				// the same files saved with Windows line endings: the lines are the same lines
				for j := range files {
					files[j].Text = strings.ReplaceAll(files[j].Text, "\n", "\r\n")
				}
				ctx.Cell("eol:crlf")
			}
			var tofu *soyhtml.Tofu
			var err error
			if k%4 == 2 && len(files) == 2 && files[0].Name != files[1].Name && files[0].Name != "" && files[1].Name != "" && !strings.Contains(files[0].Name+files[1].Name, "/") {
				// the same files read from disk through Bundle.AddTemplateFile, with blank lines before the namespace
				// declaration: the line numbers are those of the file as it is on disk
				lead := 1 + ctx.Rng.Intn(5)
				dir, derr := os.MkdirTemp("", "c19disk")
				if derr != nil {
					return fw.Result{Verdict: fw.Inconclusive, Key: "tempdir", Msg: derr.Error()}
				}
				defer os.RemoveAll(dir)
				bnd := soy.NewBundle()
				shifted := map[int]bool{}
				for l := range okLines {
					shifted[l+lead] = true
				}
				okLines = shifted
				desc = fmt.Sprintf("%s shifted by the %d blank lines at the top of the file", desc, lead)
				for j := range files {
					files[j].Text = strings.Repeat("\n", lead) + files[j].Text
					p := filepath.Join(dir, files[j].Name)
					os.WriteFile(p, []byte(files[j].Text), 0644)
					if files[j].Name == entryFile {
						entryFile = p
					}
					files[j].Name = p
					bnd.AddTemplateFile(p)
				}
				tofu, err = bnd.CompileToTofu()
				ctx.Cell("source:disk")
			} else {
				tofu, err = compile(files, nil)
			}
			if err != nil {
				return fw.Result{Verdict: fw.Inconclusive, Key: "render-case-does-not-compile", Msg: errText(err), Case: files}
			}
			d := map[string]ref.Value{}
			ijv := ref.MapOf("a", ref.Str("abcdef"))
			_, rerr := render(tofu, "na.t0", d, &ijv, nil)
			ctx.Eval(fmt.Sprintf("render:%v", files))
			ctx.Cell(fmt.Sprintf("render-depth:%d", depth))
			ctx.Cell(fmt.Sprintf("render-wrap:%d", wrap))
			if rerr == nil {
				return fw.Result{Verdict: fw.Inconclusive, Key: "render-case-did-not-fail", Case: files}
			}
			ctx.Obs("render_errors_judged", 1)
			if key, why := checkPos(rerr, entryFile, func(l int) bool { return okLines[l] }, desc, 0); key != "" {
				return fw.Result{Verdict: fw.Violated, Key: fmt.Sprintf("render:%s:depth%d", key, minInt(depth, 1)), Case: files,
					Msg: fmt.Sprintf("failing print at call depth %d (wrap %d, sameFile %v): %s", depth, wrap, sameFile, why)}
			}
			if k%97 == 0 {
				ctx.Sample(map[string]interface{}{"files": files, "depth": depth, "expected": desc, "error": firstLine(errText(rerr))})
			}
			return fw.Result{Verdict: fw.Held}
		},
		Floors: func(obs map[string]int64, cells map[string]bool, tier string) []string {
			var why []string
			for _, f := range c19ParseFaults {
				if !cells["fault:"+f.name] {
					why = append(why, "fault kind never injected: "+f.name)
				}
			}
			for d := 0; d < 4; d++ {
				if !cells[fmt.Sprintf("render-depth:%d", d)] {
					why = append(why, fmt.Sprintf("render depth %d never exercised", d))
				}
			}
			if !cells["source:disk"] {
				why = append(why, "no bundle was read from disk")
			}
			if !cells["render-recursive-entry"] {
				why = append(why, "no recursive entry template")
			}
			if !cells["eol:crlf"] || !cells["render-duplicate-template"] {
				why = append(why, "CRLF files and duplicate definitions must both be exercised")
			}
			if obs["parse_errors_judged"] == 0 || obs["render_errors_judged"] == 0 {
				why = append(why, "no error was judged")
			}
			return why
		},
		Assumptions: []string{
			"the generator knows the line of every construct it lays out",
			"'the outermost command whose execution failed' is read as: the failing command itself or a block command enclosing it, in the entry template (either is accepted)",
			"lines(F) = 1 + number of newlines: an error at EOF may be reported on the empty last line",
		},
	})
}

// c19Recursive: the entry template calls itself and the inner instance fails: the failing command of the rendered
// (outer) instance is its {call}, possibly inside an enclosing block.
func c19Recursive(ctx *fw.Ctx) fw.Result {
	r := ctx.Rng
	bad := c19Bad[r.Intn(5)]
	var b strings.Builder
	b.WriteString("{namespace na}\n")
	line := 2
	wr := func(s string) int {
		at := line
		b.WriteString(s + "\n")
		line += 1 + strings.Count(s, "\n")
		return at
	}
	for j := 0; j < r.Intn(8); j++ {
		wr("// padding")
	}
	wr("/** @param? u\n * @param? depth */")
	wr("{template .t0}")
	wr("line one{isNonnull($u)}")
	levels := 1 + r.Intn(3)
	lIf := wr(fmt.Sprintf("{if not $depth or $depth < %d}", levels))
	wr("  going down")
	lCall := wr("  {call .t0}{param depth: ($depth ?: 0) + 1 /}{/call}")
	wr("{else}")
	wr("  at the bottom")
	wr("  " + bad)
	wr("{/if}")
	wr("{/template}")
	wr("/** @param? u */\n{template .leaf}{isNonnull($u)}{/template}")
	name := []string{"tree.soy", "./views/tree.soy", ""}[r.Intn(3)]
	files := []srcFile{{name, b.String()}}
	ctx.Cell("render-recursive-entry")
	ctx.Eval(fmt.Sprintf("rec:%v", files))
	tofu, err := compile(files, nil)
	if err != nil {
		return fw.Result{Verdict: fw.Inconclusive, Key: "render-case-does-not-compile", Msg: errText(err), Case: files}
	}
	ijv := ref.MapOf("a", ref.Str("abcdef"))
	_, rerr := render(tofu, "na.t0", map[string]ref.Value{}, &ijv, nil)
	if rerr == nil {
		return fw.Result{Verdict: fw.Inconclusive, Key: "render-case-did-not-fail", Case: files}
	}
	ctx.Obs("render_errors_judged", 1)
	ok := map[int]bool{lIf: true, lCall: true}
	if key, why := checkPos(rerr, name, func(l int) bool { return ok[l] }, fmt.Sprintf("line %d (the {call} of the rendered instance) or %d (its enclosing {if})", lCall, lIf), 0); key != "" {
		return fw.Result{Verdict: fw.Violated, Key: "render:" + key + ":recursive-entry", Case: files,
			Msg: fmt.Sprintf("entry template calling itself %d deep, failing at the bottom: %s", levels, why)}
	}
	return fw.Result{Verdict: fw.Held}
}

// c19Decoy is a valid template made of constructs that span several lines.
func c19Decoy(r *fw.Rand) string {
	var b strings.Builder
	b.WriteString("/**\n * decoy\n *\n * with a long soydoc\n */\n{template .verifDecoy}\n")
	pieces := []string{
		"{literal}\n  first {$line of\n  the } literal\n\n  block\n{/literal}",
		"/* a block comment\n   over three\n   lines */",
		"{call .verifDecoy\n    data=\"all\"\n/}",
		"{literal}one\ntwo{/literal}{literal}\n{/literal}",
		"{msg desc=\"d\"}\n  words\n  {literal}<\n>{/literal}\n  more\n{/msg}",
		"{if true}\n{elseif\n  false}\n{/if}",
		"{let $verifD:\n  [1,\n   2]\n/}{$verifD}",
		"text // a comment to the end of the line\nmore text",
	}
	for k := 0; k < 2+r.Intn(4); k++ {
		b.WriteString(pieces[r.Intn(len(pieces))] + "\n")
	}
	b.WriteString("{/template}\n{template .verifDecoyH}\n{@param x:\n  string}\n{@param? y: int}\n{$x}{$y}\n{/template}")
	return b.String()
}

// c19MsgTwins: a message prints the same failing expression on two of its lines (one placeholder, two occurrences)
// and is rendered with and without a catalogue that holds its own text. The first occurrence is the one that fails.
func c19MsgTwins(ctx *fw.Ctx) fw.Result {
	r := ctx.Rng
	bad := []string{"{$ij.nope.x}", "{$u.v}", "{$ij.a|truncate:'x'}", "{1 < 'a'}"}[r.Intn(4)]
	var b strings.Builder
	line := 1
	wr := func(s string) int {
		at := line
		b.WriteString(s + "\n")
		line += 1 + strings.Count(s, "\n")
		return at
	}
	wr("{namespace na}")
	for j := 0; j < r.Intn(8); j++ {
		wr("// padding")
	}
	wr("/** @param? u */")
	wr("{template .t0}")
	wr("line one{isNonnull($u)}")
	lMsg := wr("{msg desc=\"d\"}")
	wr("  words {$ij.a} and")
	for j := 0; j < r.Intn(3); j++ {
		wr("  more words")
	}
	lFirst := wr("  " + bad + " first,")
	for j := 0; j < 1+r.Intn(3); j++ {
		wr("  words between <b>them</b>")
	}
	wr("  " + bad + " second")
	wr("{/msg}")
	wr("{/template}")
	name := []string{"twins.soy", "./views/twins.soy", ""}[r.Intn(3)]
	files := []srcFile{{name, b.String()}}
	ctx.Cell("render-msg-twins")
	ctx.Eval(fmt.Sprintf("twins:%v", files))
	reg, err := compileRegistry(files, nil)
	if err != nil {
		return fw.Result{Verdict: fw.Inconclusive, Key: "render-case-does-not-compile", Msg: errText(err), Case: files}
	}
	ijv := ref.MapOf("a", ref.Str("abcdef"))
	ok := map[int]bool{lMsg: true, lFirst: true}
	for pass, msgs := range []soymsg.Bundle{nil, identityCatalogue(reg)} {
		_, rerr := render(soyhtml.NewTofu(reg), "na.t0", map[string]ref.Value{}, &ijv, msgs)
		if rerr == nil {
			return fw.Result{Verdict: fw.Inconclusive, Key: "render-case-did-not-fail", Case: files}
		}
		ctx.Obs("render_errors_judged", 1)
		if key, why := checkPos(rerr, name, func(l int) bool { return ok[l] }, fmt.Sprintf("line %d (the first failing print) or %d (the {msg} around it)", lFirst, lMsg), 0); key != "" {
			return fw.Result{Verdict: fw.Violated, Key: "render:" + key + ":msg-twins", Case: files,
				Msg: fmt.Sprintf("a message printing the same failing expression on two lines (catalogue: %v): %s", pass == 1, why)}
		}
	}
	return fw.Result{Verdict: fw.Held}
}

// c19Duplicate: two files define the same template, each failing on a different line. Either the bundle is rejected,
// or a render error names one of the two files together with the failing line of THAT file's definition.
func c19Duplicate(ctx *fw.Ctx) fw.Result {
	r := ctx.Rng
	mk := func(pad int, bad string) (string, int) {
		var b strings.Builder
		b.WriteString("{namespace na}\n")
		for j := 0; j < pad; j++ {
			fmt.Fprintf(&b, "// padding %d\n", j)
		}
		b.WriteString("/** @param? u */\n{template .t0}\nline one{isNonnull($u)}\n" + bad + "\nafter\n{/template}\n")
		return b.String(), 1 + pad + 4
	}
	padA, padB := r.Intn(40), r.Intn(40)
	if padA == padB {
		padB += 7
	}
	ta, la := mk(padA, c19Bad[r.Intn(5)])
	tb, lb := mk(padB, c19Bad[r.Intn(5)])
	names := [][2]string{{"first.soy", "second.soy"}, {"", "second.soy"}, {"first.soy", ""}, {"same.soy", "same.soy"}}[r.Intn(4)]
	files := []srcFile{{names[0], ta}, {names[1], tb}}
	ctx.Cell("render-duplicate-template")
	ctx.Eval(fmt.Sprintf("dup:%v", files))
	tofu, err := compile(files, nil)
	if err != nil {
		ctx.Obs("duplicate_definitions_rejected", 1)
		return fw.Result{Verdict: fw.Held}
	}
	ijv := ref.MapOf("a", ref.Str("abcdef"))
	_, rerr := render(tofu, "na.t0", map[string]ref.Value{}, &ijv, nil)
	if rerr == nil {
		return fw.Result{Verdict: fw.Inconclusive, Key: "render-case-did-not-fail", Case: files}
	}
	ctx.Obs("render_errors_judged", 1)
	fp := errortypes.ToErrFilePos(rerr)
	if fp == nil {
		return fw.Result{Verdict: fw.Violated, Key: "render:no-file-position:duplicate", Case: files, Msg: "error carries no file position: " + errText(rerr)}
	}
	if (fp.File() == names[0] && fp.Line() == la) || (fp.File() == names[1] && fp.Line() == lb) {
		return fw.Result{Verdict: fw.Held}
	}
	return fw.Result{Verdict: fw.Violated, Key: "render:wrong-position:duplicate-template", Case: files,
		Msg: fmt.Sprintf("two files define na.t0 (accepted by the compiler); the failing command is on line %d of %q and on line %d of %q, but the error says %q line %d (%s)",
			la, names[0], lb, names[1], fp.File(), fp.Line(), firstLine(errText(rerr)))}
}

func minInt(a, b int) int {
	if a < b {
		return a
	}
	return b
}
