package props

import (
	"fmt"
	"os"
	"runtime"
	"strings"
	"sync"
	"sync/atomic"
	"syscall"
	"time"

	"github.com/robfig/soy"
	"github.com/robfig/soy/ast"
	"github.com/robfig/soy/parse"

	"verif/fw"
)

// helperFrames are shared scanner/parser helpers; a violation site is the
// first frame above them (the state function or parse routine).
var helperFrames = []string{
	"(*lexer).next", "(*lexer).peek", "(*lexer).backup", "(*lexer).accept", "(*lexer).acceptRun", "(*lexer).emit",
	"(*lexer).ignore", "(*lexer).errorf", "(*lexer).nextItem", "(*lexer).run", "(*lexer).drain", "skipSpace", "maybeEmitText",
	"(*tree).next", "(*tree).peek", "(*tree).backup", "(*tree).expect", "(*tree).nextNonComment", "(*tree).backup2",
	"(*tree).unexpected", "(*tree).errorf", "(*tree).error", "verif",
}

func repoSite(skip int) string {
	pc := make([]uintptr, 64)
	n := runtime.Callers(skip+1, pc)
	frames := runtime.CallersFrames(pc[:n])
	for {
		f, more := frames.Next()
		if fw.IsRepoFunc(f.Function) {
			helper := false
			for _, h := range helperFrames {
				if strings.Contains(f.Function, h) {
					helper = true
				}
			}
			if !helper {
				return fw.ShortFunc(f.Function)
			}
		}
		if !more {
			return "?"
		}
	}
}

var (
	famCacheMu sync.Mutex
	famCache   = map[string][]family{}
	curInput   atomic.Value // parseInput being parsed, for the budget hook
)

func families(tier string) []family {
	famCacheMu.Lock()
	defer famCacheMu.Unlock()
	if f, ok := famCache[tier]; ok {
		return f
	}
	f := parseFamilies(tier)
	famCache[tier] = f
	return f
}

func installParseBudget() {
	parse.VerifOverBudget = func(kind string, steps int64) {
		in, _ := curInput.Load().(parseInput)
		site := repoSite(2)
		fw.Abort(97, "stepbudget@"+site,
			fmt.Sprintf("%s steps reached %d on an input of %d bytes (budget 64*(n+64)): the %s loop at %s does not make progress",
				kind, steps, len(in.Text), kind, site), in)
	}
}

// callParser runs one entry point on the input with the step budget armed.
// It reports whether a tree (ok) or an error came back.
func callParser(in parseInput) (ok bool, err error, shape string) {
	curInput.Store(in)
	atomic.StoreInt64(&parse.VerifLexSteps, 0)
	atomic.StoreInt64(&parse.VerifParseSteps, 0)
	atomic.StoreInt64(&parse.VerifStepLimit, int64(64*(len(in.Text)+64)))
	defer atomic.StoreInt64(&parse.VerifStepLimit, 0)
	switch in.Entry {
	case "file":
		var n *ast.SoyFileNode
		n, err = parse.SoyFile("in.soy", in.Text)
		if (n == nil) == (err == nil) {
			shape = fmt.Sprintf("SoyFile returned node=%v err=%v", n != nil, err)
		}
		return n != nil, err, shape
	case "expr":
		var n ast.Node
		n, err = parse.Expr(in.Text)
		if (n == nil) == (err == nil) {
			shape = fmt.Sprintf("Expr returned node=%v err=%v", n != nil, err)
		}
		return n != nil, err, shape
	case "globals":
		m, e := soy.ParseGlobals(strings.NewReader(in.Text))
		if (m == nil) == (e == nil) {
			shape = fmt.Sprintf("ParseGlobals returned map=%v err=%v", m != nil, e)
		}
		return m != nil, e, shape
	}
	panic("bad entry")
}

// mallocsOf counts the heap objects allocated while f runs (by every goroutine of the process; the worker runs one case at a time).
func mallocsOf(f func()) uint64 {
	var a, b runtime.MemStats
	runtime.ReadMemStats(&a)
	f()
	runtime.ReadMemStats(&b)
	return b.Mallocs - a.Mallocs
}

// costOf measures what f costs the process: bytes allocated on the heap and processor time (user + system, all
// threads). Both are properties of the computation; neither is the time of day.
func costOf(f func()) (bytes uint64, cpu time.Duration) {
	var a, b runtime.MemStats
	var ra, rb syscall.Rusage
	runtime.GC()
	runtime.ReadMemStats(&a)
	syscall.Getrusage(syscall.RUSAGE_SELF, &ra)
	f()
	syscall.Getrusage(syscall.RUSAGE_SELF, &rb)
	runtime.ReadMemStats(&b)
	tv := func(r syscall.Rusage) time.Duration {
		return time.Duration(r.Utime.Nano() + r.Stime.Nano())
	}
	return b.TotalAlloc - a.TotalAlloc, tv(rb) - tv(ra)
}

func init() {
	fw.Register(&fw.Prop{
		ID:    "C05",
		Level: "exploration",
		Rule: "cases = every prefix of every corpus file (repo testdata + harness corpus + generated valid files), all sequences of 1..2 (thorough: sampled 3..5) " +
			"dictionary tags in every block context, seeded token deletions/duplications/swaps of valid files, seeded random bytes (invalid UTF-8, NUL, lone braces), " +
			"and the same for standalone expressions and globals files; deep nesting: 27 bracketing constructs repeated 12 .. 20000 (thorough 200000) times in 16 places that take an expression, " +
			"10 block commands nested as deep, balanced and cut short; for depth 24 against 12 the heap allocations made by the parse may grow at most 64-fold. distinct = distinct input bytes per entry point; non-trivial = length >= 2",
		N: func(tier string) int { return famCount(families(tier)) },
		Setup: func(tier string, seed uint64, config string) string {
			installParseBudget()
			if os.Getenv("VERIF_ISOLATED") != "" {
				// isolated re-run: no other goroutines, so that a parser blocked forever trips the runtime deadlock detector
			}
			return ""
		},
		Run: func(ctx *fw.Ctx, i int) fw.Result {
			in := famAt(families(ctx.Tier), i, ctx.Rng)
			id := ""
			if len(in.Text) >= 2 {
				id = in.Entry + "\x00" + in.Text
			}
			ok, err, shape := callParser(in)
			ctx.Eval(id)
			ls, ps := atomic.LoadInt64(&parse.VerifLexSteps), atomic.LoadInt64(&parse.VerifParseSteps)
			ctx.Obs("lex_steps", ls)
			ctx.Obs("parse_steps", ps)
			ctx.Max("max_lex_steps_per_byte", float64(ls)/float64(len(in.Text)+64))
			ctx.Max("max_parse_steps_per_byte", float64(ps)/float64(len(in.Text)+64))
			ctx.Cell("family:" + in.Family)
			if ok {
				ctx.Obs("outcome_tree", 1)
			} else {
				ctx.Obs("outcome_error", 1)
			}
			if i%20011 == 0 {
				ctx.Sample(map[string]interface{}{"entry": in.Entry, "family": in.Family, "text": fw.Trim(in.Text, 200), "tree": ok, "err": fmt.Sprint(err)})
			}
			if shape != "" {
				return fw.Result{Verdict: fw.Violated, Key: "neither-tree-nor-error:" + in.Entry, Msg: shape, Case: in}
			}
			if in.Half != "" {
				// work growth between nesting depth 12 and 24, counted in heap allocations (a count, not a time): a parser
				// whose work is polynomial in the input stays far below 64x; one that doubles per level is at 4096x
				half := in
				half.Text, half.Half = in.Half, ""
				mHalf := mallocsOf(func() { callParser(half) })
				mFull := mallocsOf(func() { callParser(in) })
				ctx.Obs("work_growth_pairs", 1)
				ctx.Max("max_alloc_ratio_depth24_vs_12", float64(mFull)/float64(mHalf+1))
				if mFull > 64*mHalf+20000 {
					return fw.Result{Verdict: fw.Violated, Key: "work-explodes-with-depth:" + in.Entry, Case: in,
						Msg: fmt.Sprintf("parsing the input nested 12 deep (%d bytes) makes %d heap allocations, nested 24 deep (%d bytes) %d: the work is not proportional to the input",
							len(half.Text), mHalf, len(in.Text), mFull)}
				}
			}
			if in.Quarter != "" {
				// four times the repetitions: about four times the memory and the processor time. Quadratic work shows as
				// sixteen times. (Bytes and CPU seconds of this process; the slack terms cover what a parse costs at least.)
				q := in
				q.Text, q.Quarter = in.Quarter, ""
				bq, cq := costOf(func() { callParser(q) })
				bf, cf := costOf(func() { callParser(in) })
				ctx.Obs("long_run_pairs", 1)
				ctx.Max("max_bytes_ratio_4n_vs_n", float64(bf)/float64(bq+1))
				ctx.Max("max_bytes_allocated_per_input_byte", float64(bf)/float64(len(in.Text)+64))
				if cq > 5*time.Millisecond {
					ctx.Max("max_cpu_ratio_4n_vs_n", float64(cf)/float64(cq))
				}
				if bf > 8*bq+(4<<20) {
					return fw.Result{Verdict: fw.Violated, Key: "memory-not-proportional:" + in.Entry, Case: fw.Trim(in.Text, 300),
						Msg: fmt.Sprintf("parsing %d bytes (%s...) allocates %d bytes, parsing the same construct at four times the length (%d bytes) allocates %d bytes (%.1f times as much): the work is not proportional to the input",
							len(q.Text), fw.Trim(q.Text, 60), bq, len(in.Text), bf, float64(bf)/float64(bq+1))}
				}
				if cf > 12*cq+2*time.Second {
					return fw.Result{Verdict: fw.Violated, Key: "cpu-not-proportional:" + in.Entry, Case: fw.Trim(in.Text, 300),
						Msg: fmt.Sprintf("parsing %d bytes (%s...) takes %v of processor time, the same construct at four times the length (%d bytes) %v", len(q.Text), fw.Trim(q.Text, 60), cq, len(in.Text), cf)}
				}
			}
			return fw.Result{Verdict: fw.Held}
		},
		Floors: func(obs map[string]int64, cells map[string]bool, tier string) []string {
			var why []string
			if obs["long_run_pairs"] == 0 {
				why = append(why, "no long-run pair measured")
			}
			if obs["outcome_tree"] == 0 || obs["outcome_error"] == 0 {
				why = append(why, "both outcomes (tree, error) must be observed")
			}
			if obs["work_growth_pairs"] == 0 {
				why = append(why, "no work-growth pair measured")
			}
			if obs["lex_steps"] == 0 || obs["parse_steps"] == 0 {
				why = append(why, "step hooks never fired (hooks not linked?)")
			}
			return why
		},
		Assumptions: []string{
			"bounded progress: a parse of n bytes may take at most 64*(n+64) scanner steps and parser token reads (measured need: about 1.1 and 0.15 per byte)",
			"Go-level costs inside one step are bounded only by RLIMIT_CPU on the isolated re-run",
		},
	})
}
