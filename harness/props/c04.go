package props

import (
	"fmt"
	"math"
	"strings"

	"github.com/robfig/soy/soyhtml"
	"github.com/robfig/soy/soyjs"

	"verif/fw"
	"verif/gen"
	"verif/jsx"
	"verif/ref"
)

// c04Probes are hand-written templates that pin one cross-backend fact each (in addition to the generated bundles).
var c04Probes = []struct{ name, body, params string }{
	{"floats", "{1500000.0} {1.5e3 * 1000} {0.0000001} {1 / 3} {2.5 * 4} {-0.0} {1e21} {123456789.125} {$f / 8}", "f"},
	{"nested-loop-functions", "{foreach $o in $l}{foreach $i in $ls}{index($o)}{index($i)}{isFirst($o) ? 'F' : ''}{isLast($o) ? 'L' : ''}{isLast($i) ? '!' : ''};{/foreach}{/foreach}", "l ls"},
	{"range-loops", "{for $i in range(2, 7, 2)}{$i}:{index($i)}{isLast($i) ? '.' : ','}{/for}|{for $i in range(0)}x{ifempty}empty{/for}|{for $i in range(3)}{$i}{isFirst($i) ? 'f' : ''}{isLast($i) ? 'l' : ''}{/for}" +
		// the bounds of a range are evaluated before the loop variable exists
		"|{let $n: 3 /}{for $n in range($n)}{$n}{/for}|{for $n in range(1, $n + 1)}{$n}{/for}|{for $n in range(0, 2 * $n, $n)}{$n}{ifempty}e{/for}|{foreach $n in [$n, $n + 1]}{$n}{/foreach}", ""},
	{"nullsafe-negation", "{-$m?.a} {-$m?.zz ?: 'dflt'} {$m?.a * 2} {not $m?.zz} {-(-$a)} {- -3}", "m a"},
	{"let-in-untaken-branch", "{if $c}{let $s: 'shadow' /}{$s}{/if}{$s}{foreach $i in $l}{let $s: $i /}{$s}{/foreach}{$s}", "c s l"},
	{"ifempty-outer-loop-var", "{foreach $j in $lm}{foreach $j in $e}x{ifempty}[{$j.s}]{/foreach}{let $j: $j.a + 1 /}{$j}{let $j}<{$j}>{/let}{$j};{/foreach}", "lm e"},
	{"same-expression-in-different-scopes", "{if $c}{let $s: 'inner' /}{call .probe_callee}{param s: $s /}{/call}{call .probe_callee data=\"['s': $s]\" /}{/if}{call .probe_callee}{param s: $s /}{/call}{call .probe_callee data=\"['s': $s]\" /}" +
		"{foreach $i in $ls}{let $s: $i /}{call .probe_callee}{param s: $s /}{/call}{foreach $q in [$s]}{$q}{/foreach}{$ls[length([$s]) - 1]}{/foreach}{call .probe_callee}{param s: $s /}{/call}{foreach $q in [$s]}{$q}{/foreach}{$ls[length([$s]) - 1]}", "c s ls"},
	{"round", "{round(-2.5)} {round(2.5)} {round(-0.5)} {round(1.2345, 2)} {round(-1.2355, 3)} {round(1234, -2)}", ""},
	{"quotes", "{$s} {$s|escapeHtml} {'\"q\" & \\'a\\''} {$t|truncate:4} {$t|truncate:8,false}", "s t"},
	{"directive-order", "{$s|truncate:5|escapeHtml} {$s|escapeHtml|truncate:5} {$s|truncate:4|changeNewlineToBr} {$t|insertWordBreaks:2} {$t|changeNewlineToBr}", "s t"},
	{"call-data", "{call .probe_callee data=\"all\"}{param b: $a + 1 /}{/call}{call .probe_callee data=\"$m\" /}{call .probe_callee}{param a: 1 /}{param b}{$a}x{/param}{/call}", "a m"},
	{"switch-and-truthiness", "{switch $a}{case 1, 2}low{case 3}three{default}other{/switch}{if $s}s{/if}{if $l}l{/if}{if $m}m{/if}{if not $e}e{/if}{$a and $c ? 'y' : 'n'}", "a s l m e c"},
	{"globals-ij", "{GLOBAL_INT + 1} {app.NAME} {app.RATIO * 2} {FLAG ? 'on' : 'off'} {$ij.user} {$ij.count + 1}", ""},
	{"string-concat", "{$a + $s} {$s + $a + 1} {1 + 2 + $s} {$f + $s} {$c + $s} {null + $s}", "a s f c"},
	{"content-blocks", "{let $o}<h1>{$s}</h1>{let $i1}[one]{/let}{let $i2}[two{let $i3}(three{$a}){/let}{$i3}{$i3}]{/let}{$i1}{$i2}{$i1}" +
		"{call .probe_callee}{param s}{let $i4}x{$s}{/let}{$i4}{$i1}{/param}{param b}{let $i5}y{/let}{let $i6}z{/let}{$i6}{$i5}{/param}{/call}{/let}{$o}|{$o|noAutoescape}|" +
		"{log}{let $l1}a{/let}{let $l2}b{/let}{$l1}{$l2}{/log}{foreach $i in $ls}{let $w}<{$i}{let $v}({$i}){/let}{$v}>{/let}{$w|noAutoescape}{let $u}{$w}{/let}{$u|noAutoescape}{/foreach}", "s a ls"},
	{"empty-blocks", "[{switch 1}{case 1}{case 2}two{default}other{/switch}|{switch 'x'}{case 'y'}{default}{/switch}|{switch 2}{case 1}{case 2, 3}{default}d{/switch}|{if true}{else}no{/if}|{if false}{elseif true}{else}no{/if}|" +
		"{foreach $i in [1]}{ifempty}e{/foreach}|{foreach $i in $e}{ifempty}{/foreach}|{let $z}{/let}{$z}|{call .probe_callee}{param s}{/param}{/call}|{msg desc=\"d\"}{plural 1}{case 1}{default}many{/plural}{/msg}]", "e"},
	// characters beyond U+FFFF under truncate: the limit counts UTF-16 units in both backends and never keeps half a pair
	{"truncate-astral", "{'a😀b'|truncate:1}|{'a😀b'|truncate:2}|{'a😀b'|truncate:3,false}|{'😀😀😀😀😀'|truncate:5}|{'😀😀😀😀😀'|truncate:6,false}|" +
		"{'😀😀😀😀😀'|truncate:7,false}|{'x𝒳y𝒳z𝒳'|truncate:2}|{'x𝒳y𝒳z𝒳'|truncate:5}|{'x𝒳y𝒳z𝒳'|truncate:6,false}|{'x𝒳y𝒳z𝒳'|truncate:8,false}|" +
		"{'abcd😀ghij'|truncate:8}|{'abcd😀ghij'|truncate:5,false}|{'abcd😀ghij'|truncate:9}", ""},
	// quotients by zero: NaN and the infinities order, compare and test alike in both backends (their text is another matter)
	{"non-finite", "{let $z: 0 /}{let $q: $z / $z /}{let $p: 1 / $z /}{let $m: -1 / $z /}{$q <= 1 ? 'T' : 'F'}{$q >= 1 ? 'T' : 'F'}{$q < 1 ? 'T' : 'F'}{$q > 1 ? 'T' : 'F'}{1 <= $q ? 'T' : 'F'}{$q == $q ? 'T' : 'F'}{$q != $q ? 'T' : 'F'}" +
		"{$q ? 'truthy' : 'falsy'}{not $q ? 'T' : 'F'}|{$p > 1000000 ? 'T' : 'F'}{$m < 0 ? 'T' : 'F'}{$p == $p ? 'T' : 'F'}{$p >= $p ? 'T' : 'F'}{$m <= $p ? 'T' : 'F'}{$p ? 'truthy' : 'falsy'}{$p + $m == 0 ? 'T' : 'F'}{$p + $m <= 0 ? 'T' : 'F'}", ""},
	{"msg-plain", "{msg desc=\"d\"}Hello <b>{$s}</b>, you have {$a} items{/msg}{msg desc=\"p\"}{plural $a}{case 0}none{case 1}one{default}{$a} many{/plural}{/msg}", "s a"},
}

// Variables whose names end in digits, or in the words the JavaScript backend uses for its own loop variables: every
// variable of a template must stay a variable of its own in the generated function, however many there are. The probe
// is the first template of its file, so that the numbering of generated names starts here.
func init() {
	var b strings.Builder
	b.WriteString("{let $q1: 'first' /}{let $q11: 'second' /}{let $q12: 'third' /}{let $qList1: 'fourth' /}{let $qIndex2: 'fifth' /}{let $qLimit2: 'sixth' /}{let $param1: 'seventh' /}")
	for k := 0; k < 150; k++ {
		switch k % 3 {
		case 0:
			fmt.Fprintf(&b, "{if true}{let $q: %d /}{$q}{/if}", k)
		case 1:
			fmt.Fprintf(&b, "{foreach $q in [%d]}{$q}{index($q)}{isLast($q) ? 'l' : ''}{/foreach}", k)
		default:
			fmt.Fprintf(&b, "{call .probe_callee}{param s}%d{/param}{/call}", k)
		}
		if k%10 == 9 {
			b.WriteString("[{$q1},{$q11},{$q12},{$qList1},{$qIndex2},{$qLimit2},{$param1}]\n")
		}
	}
	c04Probes = append([]struct{ name, body, params string }{{"names-ending-in-digits", b.String(), ""}}, c04Probes...)
}

func c04ProbeFile() srcFile {
	var b strings.Builder
	b.WriteString("{namespace probe}\n")
	for _, p := range c04Probes {
		b.WriteString("/**\n")
		for _, n := range strings.Fields(p.params) {
			b.WriteString(" * @param? " + n + "\n")
		}
		b.WriteString(" */\n{template ." + strings.ReplaceAll(p.name, "-", "_") + "}\n" + p.body + "\n{/template}\n")
	}
	b.WriteString("/** @param? a\n * @param? b\n * @param? s */\n{template .probe_callee}[{$a ?: 'na'}|{$b ?: 'nb'}|{$s ?: 'ns'}]{/template}\n")
	return srcFile{"probe.soy", b.String()}
}

func c04Opts(r *fw.Rand, tier string) gen.Opts {
	o := c02Opts(r, tier)
	o.Subset, o.ErrPlants, o.MarkupDirs, o.Astral = true, false, true, false
	// characters beyond U+FFFF: truncate counts them alike in both backends (UTF-16 units, never half a pair),
	// insertWordBreaks does not (nor do the official backends), so a program has one or the other
	if r.Bool() {
		o.Astral, o.NoWordBreaks = true, true
	}
	return o
}

func init() {
	fw.Register(&fw.Prop{
		ID:    "C04",
		Level: "translation_validation",
		Rule: "programs = seeded bundles in the common subset (typed generator: numeric operands for arithmetic and ordering, boolean operands for and/or/not, same-kind equality, ints within 2^53, " +
			"scalars printed, in-range indexes, iteration over lists; all commands, call forms, msg/plural, globals, $ij, autoescape modes, directives except escapeUri/escapeJsString/json) plus 17 " +
			"hand-written probe templates and, in every fourth case, a template printing float literals and float data from every decade of float64 with their sums, differences, products and quotients; each is translated by soyjs.Write (ES5), loaded with soyutils into a JS engine and called with the same data and $ij (2-4 data maps), with and without a " +
			"translation bundle; the returned string must equal byte for byte what Tofu.Render writes. Renders the Go backend fails are dropped. distinct = distinct (sources, data, bundle?); non-trivial = all executed on both sides",
		N: func(tier string) int {
			if tier == "thorough" {
				return 150000
			}
			return 6000
		},
		Setup: func(tier string, seed uint64, config string) string {
			if _, err := engine(); err != nil {
				return "no JavaScript engine: " + err.Error()
			}
			return ""
		},
		Run: func(ctx *fw.Ctx, i int) fw.Result {
			e, _ := engine()
			ctx.Cell("engine:" + e.Name())
			g := &gen.G{R: ctx.Rng}
			g.O = c04Opts(ctx.Rng, ctx.Tier)
			g.O.Globals, g.O.IJ = true, true
			prog := g.Bundle(1+ctx.Rng.Intn(3), 2+ctx.Rng.Intn(4))
			files := bundleSources(prog.B, ref.Layout{Multiline: i%5 == 1, CRLF: i%7 == 3, Attrs: i%3 == 1})
			files = append(files, c04ProbeFile())
			// numbers over the whole float64 range as literals and as data: their text must be the same on both sides
			var fltData map[string]ref.Value
			if i%4 == 2 && e.Name() == "node" {
				lad := gen.FloatLadder()
				pick := func() ref.Expr { return lad[ctx.Rng.Intn(len(lad))] }
				var b strings.Builder
				b.WriteString("{namespace flt}\n/** @param x\n * @param y */\n{template .f}\n")
				for k := 0; k < 4; k++ {
					a, c := pick(), pick()
					for _, ex := range []ref.Expr{a, &ref.Unary{Op: "-", X: a}, &ref.Binary{Op: "*", L: a, R: c}, &ref.Binary{Op: "/", L: a, R: c},
						&ref.Binary{Op: "+", L: a, R: c}, &ref.Binary{Op: "-", L: a, R: c}, &ref.Binary{Op: "*", L: a, R: &ref.DataRef{Name: "x"}},
						&ref.Binary{Op: "+", L: &ref.DataRef{Name: "y"}, R: c}, &ref.Binary{Op: "<", L: a, R: c}} {
						b.WriteString("{" + ref.Src(ex, ref.PrintStyle{}) + "};")
					}
					b.WriteString("\n")
				}
				// rounding to d places: decimal halves that are not binary halves, values printed in exponent form, any d
				halves := []string{"1.005", "2.675", "1.045", "8.345", "0.285", "1.255", "10.075", "1e-7", "5e-7", "1.5e-7", "2.5e-8", "0.5", "1.5", "2.5", "-0.5", "-1.5", "-2.5", "-1.005", "1234.5678", "0.000123456", "123456789012.5", "4503599627370495.5"}
				for k := 0; k < 6; k++ {
					v := halves[ctx.Rng.Intn(len(halves))]
					if ctx.Rng.P(1, 3) {
						// (integers beyond 2^53 are outside the subset, and rounding yields integers)
						if l := pick().(*ref.Lit); math.Abs(l.V.F) < 1e12 {
							v = l.Src
						}
					}
					fmt.Fprintf(&b, "{round(%s, %d)};{round(%s)};{floor(%s)};{ceiling(%s)};", v, ctx.Rng.Intn(12)-3, v, v, v)
				}
				b.WriteString("\n{$x};{$y};{$x * $y};{$x / $y};{$x + $y};{$x - $y}\n{/template}\n")
				files = append(files, srcFile{"flt.soy", b.String()})
				fltData = map[string]ref.Value{"x": pick().(*ref.Lit).V, "y": pick().(*ref.Lit).V}
				ctx.Cell("family:float-text")
			}
			reg, err := compileRegistry(files, prog.B.Globals)
			if err != nil {
				return fw.Result{Verdict: fw.Skip} // C02's subject
			}
			tofu := soyhtml.NewTofu(reg)
			kinds, _ := shapeOf(prog.B)
			for k := range kinds {
				ctx.Cell("cmd:" + k)
			}
			ctx.Obs("programs", 1)
			tr := translationsEmptying(reg)
			for pass, withMsgs := range []bool{false, true} {
				if withMsgs && !kinds["Msg"] && i%4 != 0 {
					continue
				}
				o := soyjs.Options{}
				if withMsgs {
					o.Messages = tr
				}
				js, err := genJS(reg, o)
				if err != nil {
					return fw.Result{Verdict: fw.Violated, Key: "js-generation-fails", Case: files, Msg: errText(err)}
				}
				if file, err := loadBundleJS(e, reg, js); err != nil {
					if _, isEng := err.(jsx.EngineError); isEng {
						return fw.Result{Verdict: fw.Inconclusive, Key: "engine-failure", Msg: err.Error()}
					}
					return fw.Result{Verdict: fw.Violated, Key: "js-does-not-load", Case: map[string]interface{}{"files": files, "js": js[file]}, Msg: file + ": " + fw.Trim(err.Error(), 300)}
				}
				type target struct {
					name string
					data map[string]ref.Value
				}
				var targets []target
				nd := 2
				if ctx.Tier == "thorough" {
					nd = 4
				}
				for k := 0; k < nd; k++ {
					d := prog.Data
					if k > 0 {
						d = g.NewData(prog)
					}
					targets = append(targets, target{prog.Entry, d})
				}
				if pass == 0 || i%3 == 0 {
					nid := 9000
					pd := map[string]ref.Value{}
					astral := g.O.Astral
					g.O.Astral = false // (one probe puts $t under insertWordBreaks)
					for _, p := range gen.ParamPool {
						if p.Name != "e" || ctx.Rng.Bool() {
							pd[p.Name] = g.Data(p.Ty, &nid)
						}
					}
					g.O.Astral = astral
					pd["e"] = ref.Value{K: ref.KList, ID: 9999}
					for _, p := range c04Probes {
						targets = append(targets, target{"probe." + strings.ReplaceAll(p.name, "-", "_"), pd})
					}
				}
				if fltData != nil && pass == 0 {
					targets = append(targets, target{"flt.f", fltData})
				}
				for _, tg := range targets {
					if !strings.HasPrefix(tg.name, "probe.") && tg.name != "flt.f" {
						// re-check the subset with the reference: the program must have a defined value
						// (only the text of a float may be left open)
						ref.FloatTextLenient = true
						_, st := ref.Render(prog.B, tg.name, tg.data, ref.RenderOpts{IJ: prog.IJ, Notes: &ref.RenderNotes{}})
						ref.FloatTextLenient = false
						if st != ref.OK {
							ctx.Obs("outside_subset_dropped", 1)
							continue
						}
					}
					var goOut string
					var goErr error
					if withMsgs {
						goOut, goErr = render(tofu, tg.name, tg.data, prog.IJ, tr)
					} else {
						goOut, goErr = render(tofu, tg.name, tg.data, prog.IJ, nil)
					}
					if goErr != nil {
						ctx.Obs("go_render_failed_dropped", 1)
						continue
					}
					ij := "null"
					if prog.IJ != nil {
						ij = jsonArg(prog.IJ.ToGo())
					}
					jsOut, typ, jsErr := e.Eval(tg.name + "(" + jsonArg(goData(tg.data)) + ", null, " + ij + ")")
					ctx.Eval(fmt.Sprintf("%v|%s|%v|%v", files[0].Text, tg.name, goData(tg.data), withMsgs))
					ctx.Obs("executions_compared", 1)
					if tg.name == "flt.f" {
						ctx.Obs("float_text_templates_compared", 1)
					}
					ctx.Obs("disagreements_checked", 1)
					cd := map[string]interface{}{"files": files, "template": tg.name, "data": goData(tg.data), "ij": ij, "with_messages": withMsgs, "go": goOut, "js": jsOut}
					if jsErr != nil {
						if _, isEng := jsErr.(jsx.EngineError); isEng {
							return fw.Result{Verdict: fw.Inconclusive, Key: "engine-failure", Msg: jsErr.Error()}
						}
						cd["generated_js"] = js
						return fw.Result{Verdict: fw.Violated, Key: "js-throws-go-renders", Case: cd,
							Msg: fmt.Sprintf("%s: Go renders %q, the generated JavaScript throws: %s", tg.name, fw.Trim(goOut, 200), fw.Trim(jsErr.Error(), 300))}
					}
					if typ != "string" || jsOut != goOut {
						key := "go-js-differ"
						if strings.HasPrefix(tg.name, "probe.") || tg.name == "flt.f" {
							key += ":" + tg.name
						}
						cd["generated_js"] = js
						return fw.Result{Verdict: fw.Violated, Key: key, Case: cd,
							Msg: fmt.Sprintf("%s (messages=%v) data %v:\n Go: %q\n JS: %q", tg.name, withMsgs, fw.Trim(fmt.Sprint(goData(tg.data)), 200), fw.Trim(goOut, 400), fw.Trim(jsOut, 400))}
					}
					if strings.Contains(goOut, "«") {
						ctx.Obs("translated_messages_rendered", 1)
					}
					if i%300 == 0 && tg.name == prog.Entry && pass == 0 {
						ctx.Sample(map[string]interface{}{"files": files[:len(files)-1], "entry": tg.name, "data": goData(tg.data), "both_backends": fw.Trim(goOut, 300)})
					}
				}
			}
			return fw.Result{Verdict: fw.Held}
		},
		Floors: func(obs map[string]int64, cells map[string]bool, tier string) []string {
			var why []string
			for _, c := range []string{"If", "Switch", "Foreach", "LetVal", "LetContent", "call-all", "call-data", "call-none", "Msg", "Plural", "Css"} {
				if !cells["cmd:"+c] {
					why = append(why, "command kind never executed on both sides: "+c)
				}
			}
			if obs["executions_compared"] == 0 {
				why = append(why, "nothing was executed on both backends")
			}
			if obs["float_text_templates_compared"] == 0 && cells["engine:node"] {
				why = append(why, "no float-text template was compared")
			}
			if obs["translated_messages_rendered"] == 0 {
				why = append(why, "no translated message was rendered")
			}
			return why
		},
		Assumptions: []string{
			"JavaScript semantics: node v20 when installed, else otto (narrower: no astral characters, |int| <= 2^53)",
			"out of the subset by statement: escapeUri, escapeJsString, json on strings (C16), mixed-type equality, ill-typed operands, printing lists/maps, astral characters under length-sensitive directives",
			"plural messages under a translation bundle need soy.$$pluralIndex and are exercised in C11",
		},
	})
}
