package props

import (
	"encoding/json"
	"fmt"
	"math"
	"net/url"
	"reflect"
	"regexp"
	"strconv"
	"strings"
	"sync"
	"unicode/utf8"

	"github.com/robfig/soy/soyhtml"
	"github.com/robfig/soy/soyjs"

	"verif/fw"
	"verif/gen"
	"verif/jsx"
	"verif/ref"
)

const c16Source = `{namespace d autoescape="false"}
/** @param x */
{template .escapeUri}{$x|escapeUri}{/template}
/** @param x */
{template .escapeJsString}{$x|escapeJsString}{/template}
/** @param x */
{template .json}{$x|json}{/template}
/** @param x */
{template .changeNewlineToBr}{$x|changeNewlineToBr}{/template}
/** @param x
 * @param n */
{template .insertWordBreaks}{$x|insertWordBreaks:$n}{/template}
/** @param x
 * @param n */
{template .truncate}{$x|truncate:$n}{/template}
/** @param x
 * @param n
 * @param b */
{template .truncate2}{$x|truncate:$n,$b}{/template}
/** @param x
 * @param n
 * @param b */
{template .truncate2_truncate}{$x|truncate:$n,$b|truncate:100000}{/template}
/** @param x
 * @param n */
{template .truncate_insertWordBreaks}{$x|truncate:$n|insertWordBreaks:100000}{/template}
/** @param x
 * @param n */
{template .truncate_escapeUri}{$x|truncate:$n|escapeUri}{/template}
/** @param x
 * @param n */
{template .truncate_escapeJsString}{$x|truncate:$n|escapeJsString}{/template}
/** @param x
 * @param n */
{template .truncate_json}{$x|truncate:$n|json}{/template}
/** @param x
 * @param n */
{template .truncate_changeNewlineToBr}{$x|truncate:$n|changeNewlineToBr}{/template}
/** @param x */
{template .escapeUri_on autoescape="true"}{$x|escapeUri}{/template}
/** @param x */
{template .changeNewlineToBr_on autoescape="true"}{$x|changeNewlineToBr}{/template}
/** @param x
 * @param n */
{template .insertWordBreaks_on autoescape="true"}{$x|insertWordBreaks:$n}{/template}
/** @param x
 * @param n */
{template .truncate_on autoescape="true"}{$x|truncate:$n}{/template}
/** @param x
 * @param n */
{template .msg_twins}{msg desc="d"}{$x|truncate:$n}|{$x|truncate:100000}|{$x|insertWordBreaks:$n}|{$x|insertWordBreaks:100000}|{$x|truncate:$n,false}{/msg}{/template}
`

var (
	c16Once     sync.Once
	c16Tofu     *soyhtml.Tofu
	c16Identity *fakeBundle
	c16Err      string
	c16JS       bool
)

func c16Init() {
	c16Once.Do(func() {
		reg, err := compileRegistry([]srcFile{{"d.soy", c16Source}}, nil)
		if err != nil {
			c16Err = "directive templates do not compile: " + err.Error()
			return
		}
		c16Tofu = soyhtml.NewTofu(reg)
		c16Identity = identityCatalogue(reg)
		e, err := engine()
		if err != nil {
			c16Err = "no JavaScript engine: " + err.Error()
			return
		}
		js, err := genJS(reg, soyjs.Options{})
		if err != nil {
			c16Err = "JS generation of the directive templates fails: " + err.Error()
			return
		}
		if err := e.Reset(); err != nil {
			c16Err = err.Error()
			return
		}
		if err := e.Load(js["d.soy"]); err != nil {
			c16Err = "generated JS of the directive templates does not load: " + err.Error()
			return
		}
		c16JS = true
	})
}

// URL-safe: what the official implementation of the directive leaves unescaped (RFC 3986 unreserved, '!', '*', and '+'
// for a blank). It escapes apostrophes and parentheses on purpose: the output is written into HTML and CSS without
// any further escaping, where a quote ends an attribute value and a parenthesis ends url(...).
var reUnreserved = regexp.MustCompile(`^(?:[A-Za-z0-9\-_.!~*+]|%[0-9A-Fa-f]{2})*$`)

func formDecode(s string) (string, error) { return url.QueryUnescape(s) }
func strictDecode(s string) (string, error) {
	return url.PathUnescape(s)
}

// checkEscapeUri: only URL-safe characters, and one consistent reading percent-decodes to the value.
func checkEscapeUri(out, val string) string {
	if !reUnreserved.MatchString(out) {
		return fmt.Sprintf("output %q contains a character that is not URL-safe (or a malformed %%XX)", fw.Trim(out, 120))
	}
	if d, err := strictDecode(out); err == nil && d == val {
		return ""
	}
	if d, err := formDecode(out); err == nil && d == val {
		return ""
	}
	return fmt.Sprintf("output %q percent-decodes neither strictly nor form-style to the value %q", fw.Trim(out, 120), fw.Trim(val, 120))
}

// checkEscapeJs: between quotes in a script it must evaluate to the value, and contain nothing that ends a script or a line.
func checkEscapeJs(e jsx.Engine, out, val string) string {
	low := strings.ToLower(out)
	for _, bad := range []string{"</script", "\n", "\r", " ", " "} {
		if strings.Contains(low, bad) {
			return fmt.Sprintf("output %q contains %q", fw.Trim(out, 120), bad)
		}
	}
	if !utf8.ValidString(val) {
		return ""
	}
	for _, q := range []string{"'", "\""} {
		got, typ, err := e.Eval(q + out + q)
		if err != nil {
			return fmt.Sprintf("%s%s%s does not parse as a JavaScript string: %v", q, fw.Trim(out, 120), q, fw.Trim(err.Error(), 150))
		}
		if typ != "string" || got != val {
			return fmt.Sprintf("%s%s%s evaluates to %q, the value is %q", q, fw.Trim(out, 120), q, fw.Trim(got, 120), fw.Trim(val, 120))
		}
	}
	return ""
}

func jsonEqual(a, b interface{}) bool {
	switch x := a.(type) {
	case float64:
		switch y := b.(type) {
		case float64:
			return x == y
		case int64:
			return x == float64(y)
		case int:
			return x == float64(y)
		}
		return false
	case []interface{}:
		y, ok := b.([]interface{})
		if !ok || len(x) != len(y) {
			return false
		}
		for i := range x {
			if !jsonEqual(x[i], y[i]) {
				return false
			}
		}
		return true
	case map[string]interface{}:
		y, ok := b.(map[string]interface{})
		if !ok || len(x) != len(y) {
			return false
		}
		for k := range x {
			if !jsonEqual(x[k], y[k]) {
				return false
			}
		}
		return true
	}
	return reflect.DeepEqual(a, b)
}

func checkJSON(out string, val ref.Value) string {
	var parsed interface{}
	if err := json.Unmarshal([]byte(out), &parsed); err != nil {
		return fmt.Sprintf("output %q is not JSON: %v", fw.Trim(out, 120), err)
	}
	want := val.ToGo()
	if s, ok := want.(string); ok && !utf8.ValidString(s) {
		return "" // JSON cannot carry it exactly
	}
	if !jsonEqual(parsed, normJSON(want)) {
		return fmt.Sprintf("output %q parses to %v, the value is %v", fw.Trim(out, 120), parsed, want)
	}
	return ""
}

func normJSON(v interface{}) interface{} {
	switch x := v.(type) {
	case int64:
		return float64(x)
	case []interface{}:
		out := make([]interface{}, len(x))
		for i := range x {
			out[i] = normJSON(x[i])
		}
		return out
	case map[string]interface{}:
		out := map[string]interface{}{}
		for k, e := range x {
			out[k] = normJSON(e)
		}
		return out
	}
	return v
}

var reEntity = regexp.MustCompile(`&(amp|lt|gt|quot|apos|#[0-9]+|#[xX][0-9a-fA-F]+);`)

func decodeRefs(s string) string {
	return reEntity.ReplaceAllStringFunc(s, func(m string) string {
		switch m {
		case "&amp;":
			return "&"
		case "&lt;":
			return "<"
		case "&gt;":
			return ">"
		case "&quot;":
			return "\""
		case "&apos;":
			return "'"
		}
		body := m[2 : len(m)-1]
		base := 10
		if body[0] == 'x' || body[0] == 'X' {
			base, body = 16, body[1:]
		}
		n, err := strconv.ParseInt(body, base, 32)
		if err != nil {
			return m
		}
		return string(rune(n))
	})
}

// checkMarkup: only the allowed tag, text nodes safe, decoded text equals the value.
func checkMarkup(out, val, tag string) string {
	if ok, why := htmlSafe(out, []string{tag}); !ok {
		return fmt.Sprintf("output %q: %s", fw.Trim(out, 160), why)
	}
	text := out
	if tag == "<br>" {
		text = strings.ReplaceAll(out, "<br>", "\n")
		val = strings.NewReplacer("\r\n", "\n", "\r", "\n").Replace(val)
	} else {
		text = strings.ReplaceAll(out, tag, "")
	}
	if d := decodeRefs(text); d != val {
		return fmt.Sprintf("output %q decodes to %q, the value is %q", fw.Trim(out, 120), fw.Trim(d, 120), fw.Trim(val, 120))
	}
	return ""
}

func checkTruncate(out, val string, n int, ellipsis bool) string {
	if utf8.ValidString(val) && !utf8.ValidString(out) {
		return fmt.Sprintf("output %q is not valid UTF-8", out)
	}
	if len(val) <= n && out != val {
		return fmt.Sprintf("the value %q fits the limit %d but came back as %q", fw.Trim(val, 80), n, fw.Trim(out, 80))
	}
	if out == val {
		if utf8.RuneCountInString(val) > n && utf8.ValidString(val) {
			return fmt.Sprintf("the value has %d characters, the limit is %d, but it was not truncated", utf8.RuneCountInString(val), n)
		}
		return ""
	}
	core := out
	if ellipsis && strings.HasSuffix(out, "...") && n > 3 {
		core = strings.TrimSuffix(out, "...")
	}
	if !strings.HasPrefix(val, core) {
		return fmt.Sprintf("output %q is neither the value nor a prefix of it (+ ellipsis)", fw.Trim(out, 80))
	}
	if utf8.ValidString(val) && !utf8.ValidString(val[len(core):]) {
		return fmt.Sprintf("output %q is cut inside a character", fw.Trim(out, 80))
	}
	if utf8.ValidString(val) && utf8.RuneCountInString(out) > n {
		return fmt.Sprintf("output %q has %d characters, the limit is %d", fw.Trim(out, 80), utf8.RuneCountInString(out), n)
	}
	return ""
}

type c16Dir struct {
	tmpl   string
	needsN bool
	needsB bool
}

var c16Dirs = []c16Dir{
	{"escapeUri", false, false}, {"escapeJsString", false, false}, {"json", false, false}, {"changeNewlineToBr", false, false},
	{"insertWordBreaks", true, false}, {"truncate", true, false}, {"truncate2", true, true}, {"truncate2_truncate", true, true}, {"truncate_insertWordBreaks", true, false},
	{"truncate_escapeUri", true, false}, {"truncate_escapeJsString", true, false}, {"truncate_json", true, false}, {"truncate_changeNewlineToBr", true, false},
	{"escapeUri_on", false, false}, {"changeNewlineToBr_on", false, false}, {"insertWordBreaks_on", true, false}, {"truncate_on", true, false},
}

func c16Judge(e jsx.Engine, d c16Dir, out string, val ref.Value, n int, b bool) string {
	vs, st := ref.PrintVal(val)
	if st != ref.OK {
		vs = ""
	}
	tr := func() string { // the value after the leading truncate of a chain (accept either side's own cut)
		return out
	}
	_ = tr
	switch d.tmpl {
	case "escapeUri", "escapeUri_on":
		return checkEscapeUri(out, vs)
	case "escapeJsString":
		return checkEscapeJs(e, out, vs)
	case "json":
		return checkJSON(out, val)
	case "changeNewlineToBr", "changeNewlineToBr_on":
		return checkMarkup(out, vs, "<br>")
	case "insertWordBreaks", "insertWordBreaks_on":
		return checkMarkup(out, vs, "<wbr>")
	case "truncate":
		return checkTruncate(out, vs, n, true)
	case "truncate2", "truncate2_truncate":
		// (the second directive of the chain has an argument of its own, far above every length here: each directive keeps its own arguments)
		return checkTruncate(out, vs, n, b)
	case "truncate_insertWordBreaks":
		return checkTruncate(decodeRefs(strings.ReplaceAll(out, "<wbr>", "")), vs, n, true)
	case "truncate_on":
		return checkTruncate(decodeRefs(out), vs, n, true)
	}
	// chains truncate:n | encoder : decode, then the decoded text must be a legal truncation of the value
	switch d.tmpl {
	case "truncate_escapeUri":
		if !reUnreserved.MatchString(out) {
			return fmt.Sprintf("output %q contains a character that is not URL-safe", fw.Trim(out, 120))
		}
		dd, err := formDecode(out)
		if err != nil {
			return err.Error()
		}
		if why := checkTruncate(dd, vs, n, true); why != "" {
			if d2, err := strictDecode(out); err == nil {
				if checkTruncate(d2, vs, n, true) == "" {
					return ""
				}
			}
			return "after percent-decoding: " + why
		}
	case "truncate_escapeJsString":
		if !utf8.ValidString(vs) {
			return ""
		}
		got, _, err := e.Eval("'" + out + "'")
		if err != nil {
			return "does not parse as a JavaScript string: " + fw.Trim(err.Error(), 150)
		}
		if why := checkTruncate(got, vs, n, true); why != "" {
			return "after evaluating: " + why
		}
	case "truncate_json":
		var s string
		if err := json.Unmarshal([]byte(out), &s); err != nil {
			return fmt.Sprintf("output %q is not a JSON string: %v", fw.Trim(out, 100), err)
		}
		if !utf8.ValidString(vs) {
			return ""
		}
		if why := checkTruncate(s, vs, n, true); why != "" {
			return "after JSON decoding: " + why
		}
	case "truncate_changeNewlineToBr":
		if ok, why := htmlSafe(out, []string{"<br>"}); !ok {
			return why
		}
		dd := decodeRefs(strings.ReplaceAll(out, "<br>", "\n"))
		v2 := strings.NewReplacer("\r\n", "\n", "\r", "\n").Replace(vs)
		if strings.ContainsAny(vs, "\r") {
			return "" // the cut may fall between CR and LF: not judged
		}
		if why := checkTruncate(dd, v2, n, true); why != "" {
			return "after decoding: " + why
		}
	}
	return ""
}

func init() {
	fw.Register(&fw.Prop{
		ID:    "C16",
		Level: "exploration",
		Rule: "cases = hostile value (every byte, multi-byte and astral runes, U+2028/9, entity-like and tag-like text, empty and very long; numbers, lists, maps for json) x directive template " +
			"(escapeUri, escapeJsString, json, changeNewlineToBr, insertWordBreaks:n, truncate:n[,bool], truncate chained before each encoder, and autoescape-on variants) x integer argument " +
			"n in {0,1,2,3,4,5,8,30,|x|-1,|x|,|x|+1}; the Go renderer's output and the output of the generated JavaScript function (soyutils) are each decoded by an independent decoder: " +
			"URL-safe alphabet + percent-decoding, evaluation between quotes in a JS engine, encoding/json, HTML tokenizer/character-reference decoder, prefix/boundary/limit rules for truncate. " +
			"distinct = distinct (directive, value, n, backend); non-trivial = value needs encoding or is longer than n",
		N: func(tier string) int {
			if tier == "thorough" {
				return len(gen.HostileStrings())*len(c16Dirs)*4 + 4000000
			}
			return len(gen.HostileStrings())*len(c16Dirs) + 150000
		},
		Setup: func(tier string, seed uint64, config string) string {
			c16Init()
			if c16Err != "" && c16Tofu == nil && !strings.HasPrefix(c16Err, "directive templates do not compile") {
				return c16Err
			}
			// decoder self-tests
			if decodeRefs("&lt;a&#39;&#x27;&amp;&quot;") != "<a''&\"" {
				return "character-reference decoder self-test failed"
			}
			if checkEscapeUri("a%20b%2Bc!*%28%29~%C3%A9", "a b+c!*()~é") != "" || checkEscapeUri("a+b%2Bc%21%2A%28%29~%C3%A9", "a b+c!*()~é") != "" || checkEscapeUri("a b", "a b") == "" || checkEscapeUri("%zz", "%zz") == "" {
				return "percent-decoder self-test failed"
			}
			if checkTruncate("héllo", "héllo wörld", 5, false) != "" || checkTruncate("h\xc3", "héllo", 2, false) == "" || checkTruncate("he...", "hello world", 5, true) != "" || checkTruncate("hello w", "hello world", 5, false) == "" {
				return "truncate oracle self-test failed"
			}
			return ""
		},
		Run: func(ctx *fw.Ctx, i int) fw.Result {
			if c16Tofu == nil {
				if strings.HasPrefix(c16Err, "directive templates do not compile") {
					// the fixed file of one-line directive templates is valid Soy: a compiler that refuses it has misread a directive
					return fw.Result{Verdict: fw.Violated, Key: "valid-directive-templates-rejected", Case: c16Source, Msg: c16Err}
				}
				return fw.Result{Verdict: fw.Inconclusive, Key: "setup", Msg: c16Err}
			}
			e, _ := engine()
			hs := gen.HostileStrings()
			r := ctx.Rng
			var d c16Dir
			var val ref.Value
			nsys := len(hs) * len(c16Dirs)
			if i < nsys || (ctx.Tier == "thorough" && i < nsys*4) {
				d = c16Dirs[(i/len(hs))%len(c16Dirs)]
				val = ref.Str(hs[i%len(hs)])
			} else {
				d = c16Dirs[r.Intn(len(c16Dirs))]
				val = ref.Str(gen.RandomString(r))
				if d.tmpl == "json" && r.P(1, 2) {
					g := &gen.G{R: r}
					nid := 1
					val = g.Data([]gen.Ty{gen.TInt, gen.TFloat, gen.TBool, gen.TList(gen.TStr), gen.TMapAS, gen.TList(gen.TMapAS)}[r.Intn(6)], &nid)
					if r.P(1, 8) {
						val = ref.Null
					}
				}
			}
			vs, _ := ref.PrintVal(val)
			nopts := []int{0, 1, 2, 3, 4, 5, 6, 7, 8, 30, len(vs) - 1, len(vs), len(vs) + 1, utf8.RuneCountInString(vs), utf8.RuneCountInString(vs) - 1, utf8.RuneCountInString(vs) + 2,
				// limits far beyond any value: the value comes back unchanged (and nothing overflows on the way)
				1 << 31, 1<<32 + 1, 1 << 53, 1 << 62, math.MaxInt64 - 300, math.MaxInt64}
			ns := []int{nopts[r.Intn(len(nopts))]}
			if d.needsN && (i < nsys || r.P(1, 4)) && len(vs) < 200 {
				ns = nopts // every boundary argument for this (value, directive)
			}
			seenN := map[int]bool{}
			for _, n := range ns {
				if n < 0 {
					n = 0
				}
				if strings.HasPrefix(d.tmpl, "insertWordBreaks") && n < 1 {
					n = 1
				}
				if seenN[n] {
					continue
				}
				seenN[n] = true
				if res := c16One(ctx, e, d, val, vs, n, r.Bool(), i, nsys); res.Verdict != fw.Held {
					return res
				}
				if d.tmpl == "truncate" && n >= 1 {
					// the same directives with different arguments side by side in one message, rendered from the source and
					// from a catalogue holding the message's own text: each print keeps its own arguments
					dd := map[string]ref.Value{"x": val, "n": ref.Int(int64(n))}
					plain, err1 := render(c16Tofu, "d.msg_twins", dd, nil, nil)
					under, err2 := render(c16Tofu, "d.msg_twins", dd, nil, c16Identity)
					ctx.Obs("msg_twins_compared", 1)
					if (err1 == nil) != (err2 == nil) || plain != under {
						return fw.Result{Verdict: fw.Violated, Key: "go:directive-arguments-mixed-up-in-message", Case: map[string]interface{}{"value": vs, "n": n},
							Msg: fmt.Sprintf("value %q, n=%d: from the source %q (err %v), from a catalogue that holds the same text %q (err %v)", fw.Trim(vs, 80), n, fw.Trim(plain, 200), err1, fw.Trim(under, 200), err2)}
					}
				}
			}
			return fw.Result{Verdict: fw.Held}
		},
		Floors: func(obs map[string]int64, cells map[string]bool, tier string) []string {
			var why []string
			for _, d := range c16Dirs {
				if !cells["go:"+d.tmpl] || !cells["js:"+d.tmpl] {
					why = append(why, "directive template not exercised on both backends: "+d.tmpl)
				}
			}
			return why
		},
		Assumptions: []string{
			"escapeUri: the URL-safe alphabet is RFC 3986 unreserved plus ! * %XX and '+' (apostrophes and parentheses must be escaped, as the official implementation does: the output goes into HTML attributes and CSS url() unescaped); strict and form-style percent-decoding are both accepted (one reading for the whole string)",
			"truncate: 'the limit' is read in its weakest form (characters); a value whose byte length fits must come back unchanged",
			"the JavaScript side only sees values JSON can carry exactly (valid UTF-8)",
		},
	})
}

// c16One judges one (directive, value, n, ellipsis) on both backends.
func c16One(ctx *fw.Ctx, e jsx.Engine, d c16Dir, val ref.Value, vs string, n int, b bool, i, nsys int) fw.Result {
	r := ctx.Rng
	_ = r
	data := map[string]ref.Value{"x": val}
	if d.needsN {
		data["n"] = ref.Int(int64(n))
	}
	if d.needsB {
		data["b"] = ref.Bool(b)
	}
	nontrivial := ""
	if strings.IndexFunc(vs, func(c rune) bool { return !(c >= 'a' && c <= 'z' || c >= 'A' && c <= 'Z' || c >= '0' && c <= '9') }) >= 0 || (d.needsN && utf8.RuneCountInString(vs) > n) {
		nontrivial = fmt.Sprintf("%s|%q|%d|%v", d.tmpl, vs, n, b)
	}
	cd := map[string]interface{}{"template": d.tmpl, "value": vs, "n": n, "ellipsis": b}
	// Go side
	out, err := render(c16Tofu, "d."+d.tmpl, data, nil, nil)
	ctx.Eval(nontrivial + "|go")
	ctx.Cell("go:" + d.tmpl)
	if err != nil {
		return fw.Result{Verdict: fw.Violated, Key: "go:render-error:" + d.tmpl, Case: cd, Msg: fmt.Sprintf("{$x|%s} with x=%q n=%d: %v", d.tmpl, fw.Trim(vs, 80), n, errText(err))}
	}
	if why := c16Judge(e, d, out, val, n, b); why != "" {
		cd["go_output"] = out
		return fw.Result{Verdict: fw.Violated, Key: "go:unfaithful:" + d.tmpl, Case: cd, Msg: fmt.Sprintf("Go renderer, %s with x=%q n=%d ellipsis=%v: %s", d.tmpl, fw.Trim(vs, 80), n, b, why)}
	}
	ctx.Obs("go_outputs_decoded", 1)
	// JavaScript side (values JSON can carry exactly)
	if !c16JS {
		return fw.Result{Verdict: fw.Inconclusive, Key: "js-setup", Msg: c16Err}
	}
	if !utf8.ValidString(vs) || (val.K == ref.KFloat && (math.IsNaN(val.F) || math.IsInf(val.F, 0))) {
		return fw.Result{Verdict: fw.Held}
	}
	if ctx.Tier == "thorough" && i%2 == 1 && i > nsys {
		return fw.Result{Verdict: fw.Held} // JS side sampled in the random part
	}
	jout, typ, jerr := e.Eval("d." + d.tmpl + "(" + jsonArg(goData(data)) + ", null, {})")
	ctx.Eval(nontrivial + "|js")
	ctx.Cell("js:" + d.tmpl)
	if jerr != nil || typ != "string" {
		if _, isEng := jerr.(jsx.EngineError); isEng {
			return fw.Result{Verdict: fw.Inconclusive, Key: "engine-failure", Msg: jerr.Error()}
		}
		return fw.Result{Verdict: fw.Violated, Key: "js:call-error:" + d.tmpl, Case: cd, Msg: fmt.Sprintf("generated JavaScript, %s with x=%q n=%d: %v", d.tmpl, fw.Trim(vs, 80), n, jerr)}
	}
	if why := c16Judge(e, d, jout, val, n, b); why != "" {
		cd["js_output"] = jout
		return fw.Result{Verdict: fw.Violated, Key: "js:unfaithful:" + d.tmpl, Case: cd, Msg: fmt.Sprintf("generated JavaScript, %s with x=%q n=%d ellipsis=%v: %s", d.tmpl, fw.Trim(vs, 80), n, b, why)}
	}
	ctx.Obs("js_outputs_decoded", 1)
	if i%1999 == 0 {
		ctx.Sample(map[string]interface{}{"directive": d.tmpl, "value": fw.Trim(vs, 80), "n": n, "go": fw.Trim(out, 100), "js": fw.Trim(jout, 100)})
	}
	return fw.Result{Verdict: fw.Held}
}
