package props

import (
	"fmt"
	"strconv"
	"strings"
	"sync"

	"verif/fw"
	"verif/gen"
	"verif/ref"
)

// parseInput is one hostile input for the parser entry points.
type parseInput struct {
	Entry  string `json:"entry"` // file | expr | globals
	Family string `json:"family"`
	Text   string `json:"text"`
	// Half is the same construction at half the nesting depth (deep-nest family): the work done must not explode between the two.
	Half string `json:"half,omitempty"`
	// Quarter is the same construction with a quarter of the repetitions (long-runs family): four times the input may
	// cost about four times the memory and processor time, not sixteen times.
	Quarter string `json:"quarter,omitempty"`
}

// longRuns are constructs in which one unit can be repeated without limit: prefix + unit x n + suffix. A %d in the
// unit is replaced by the repetition's number. entry "file-top" puts the run at the top level of a file.
var longRuns = []struct{ entry, pre, unit, suf string }{
	{"file", "{call a", ".b", " /}"}, {"file", "{a", ".b", "}"}, {"file-top", "{namespace n}\n{alias a", ".b", "}\n"}, {"file-top", "{namespace a", ".b", "}\n"},
	{"file", "{$a", ".b", "}"}, {"file", "{$a", "[0]", "}"}, {"file", "{$a", "?.b", "}"}, {"file", "{$a", "?[1]", "}"}, {"file", "{$a", ".0", "}"},
	{"file", "{1", " + 1", "}"}, {"file", "{'a'", " + 'b'", "}"}, {"file", "{$a", " and $b", "}"}, {"file", "{$a", " ?: $b", "}"}, {"file", "{1", " ? 1 : 1", "}"}, {"file", "{", "not ", "$a}"}, {"file", "{", "-", "1}"},
	{"file", "{max(", "1, ", "1)}"}, {"file", "{[", "1, ", "]}"}, {"file", "{[", "'k%d': 1, ", "]}"}, {"file", "{[", "'k': 1, ", "]}"}, {"file", "{$x", "|id", "}"}, {"file", "{$x", "|truncate:5", "}"}, {"file", "{$x|truncate:", "1,", "1}"},
	{"file", "", "a ", ""}, {"file", "", "a\n", ""}, {"file", "", "{sp}", ""}, {"file", "", "{$x}", ""}, {"file", "", " // c\n", ""}, {"file", "", "/* c */", ""}, {"file", "", "/**/", ""}, {"file", "", "<b>", ""}, {"file", "", "\n \n", ""},
	{"file", "{call .t}", "{param a: 1 /}", "{/call}"}, {"file", "{call .t}", "{param a%d}x{/param}", "{/call}"}, {"file", "{if $a}", "{elseif $b}x", "{/if}"}, {"file", "{switch $a}", "{case 1}x", "{/switch}"}, {"file", "{switch $a}{case ", "1, ", "1}{/switch}"},
	{"file", "{msg desc=\"d\"}", "{$a} word ", "{/msg}"}, {"file", "{msg desc=\"d\"}", "<b>x</b>", "{/msg}"}, {"file", "{msg desc=\"d\"}", "{$a%d}", "{/msg}"}, {"file", "{msg desc=\"", "d ", "\"}x{/msg}"}, {"file", "{msg desc=\"d\"}{plural $n}", "{case %d}x", "{default}y{/plural}{/msg}"},
	{"file", "{'", "\\n", "'}"}, {"file", "{'", "\\u0041", "'}"}, {"file", "{'", "a", "'}"}, {"file", "{literal}", "{x}", "{/literal}"}, {"file", "{css ", "a", "}"}, {"file", "{let $v%d: 1 /}", "", ""}, {"file", "", "{let $v%d: 1 /}", ""}, {"file", "{foreach $x in $y}", "{$x}", "{/foreach}"},
	{"file-top", "{namespace n}\n/**\n", " * @param p%d\n", " */\n{template .t}{/template}\n"}, {"file-top", "{namespace n}\n", "/** */\n{template .t%d}x{/template}\n", ""}, {"file-top", "{namespace n}\n{template .t}\n", "{@param p%d: ?}\n", "{/template}\n"},
	{"file-top", "{namespace n}\n", "{alias a.b%d}\n", ""}, {"file-top", "{namespace n}\n", "// c\n", ""}, {"file-top", "{namespace n}\n/**", " x", " */\n{template .t}{/template}\n"}, {"file-top", "{namespace n}\n", "{delpackage a}", ""},
	{"expr", "a", ".b", ""}, {"expr", "1", "+1", ""}, {"expr", "$a", ".b", ""}, {"expr", "[", "1,", "]"}, {"expr", "$a", "[0]", ""}, {"expr", "'", "\\t", "'"}, {"expr", "f(", "f(", "1"}, {"expr", "", "1 ", ""},
	{"globals", "", "A%d = 1\n", ""}, {"globals", "", "// c\n", ""}, {"globals", "A = 'x'", " + 'y'", "\n"}, {"globals", "A = a", ".b", "\n"}, {"globals", "", "\n", ""}, {"globals", "A", " ", "= 1\n"},
}

func longRun(k, n int) parseInput {
	lr := longRuns[k]
	var b strings.Builder
	b.WriteString(lr.pre)
	for j := 0; j < n; j++ {
		if strings.Contains(lr.unit, "%d") {
			b.WriteString(strings.Replace(lr.unit, "%d", strconv.Itoa(j), 1))
		} else {
			b.WriteString(lr.unit)
		}
	}
	b.WriteString(lr.suf)
	text, entry := b.String(), lr.entry
	switch entry {
	case "file":
		text = "{namespace d}\n/** */\n{template .t}\n" + text + "\n{/template}\n"
	case "file-top":
		entry = "file"
	}
	return parseInput{Entry: entry, Family: "long-runs", Text: text}
}

type family struct {
	name string
	n    int
	at   func(i int, r *fw.Rand) parseInput
}

var (
	famOnce   sync.Once
	famCorpus []string
)

func corpus() []string {
	famOnce.Do(func() {
		famCorpus = gen.Corpus()
		for i := 0; i < 40; i++ {
			famCorpus = append(famCorpus, generatedValidFile(uint64(i)))
		}
	})
	return famCorpus
}

// generatedValidFile prints one file of a generated valid bundle (multi-line or compact layout).
var generatedValidFile = func(seed uint64) string {
	r := fw.NewRand(seed*7919 + 13)
	g := &gen.G{R: r}
	g.O = gen.Opts{MaxDepth: 3, Msgs: true, Directives: true, Autoescape: true, LetShadow: true, Globals: true, IJ: true, MarkupDirs: true}
	prog := g.Bundle(1, 2+r.Intn(3))
	return ref.FileSrc(prog.B.Files[0], ref.Layout{Multiline: seed%2 == 0}, nil)
}

// parseFamilies is the case list of C05/C18: a pure function of the tier.
func parseFamilies(tier string) []family {
	thorough := tier == "thorough"
	cp := corpus()
	var fams []family

	// (1) every prefix of every valid file
	total := 0
	for _, f := range cp {
		total += len(f) + 1
	}
	fams = append(fams, family{"file-prefix", total, func(i int, r *fw.Rand) parseInput {
		for _, f := range cp {
			if i <= len(f) {
				return parseInput{Entry: "file", Family: "file-prefix", Text: f[:i]}
			}
			i -= len(f) + 1
		}
		panic("unreachable")
	}})

	// (2) dictionary sequences in block contexts
	T := gen.Tags
	ctxs := gen.BlockContexts
	fams = append(fams, family{"tag1", len(T) * len(ctxs), func(i int, r *fw.Rand) parseInput {
		return parseInput{Entry: "file", Family: "tag1", Text: strings.Replace(ctxs[i%len(ctxs)], "%s", T[i/len(ctxs)], 1)}
	}})
	pairCtx := []int{0, 2, 3, 4, 14}
	if thorough {
		pairCtx = nil
		for i := range ctxs {
			pairCtx = append(pairCtx, i)
		}
	}
	fams = append(fams, family{"tag2", len(T) * len(T) * len(pairCtx), func(i int, r *fw.Rand) parseInput {
		c := ctxs[pairCtx[i%len(pairCtx)]]
		i /= len(pairCtx)
		return parseInput{Entry: "file", Family: "tag2", Text: strings.Replace(c, "%s", T[i%len(T)]+T[i/len(T)], 1)}
	}})
	// (2b) message text: every sequence of up to five pieces over angle brackets, tags, slashes, quotes and letters
	// inside {msg}, {plural} cases and text next to a placeholder (the body of a message is scanned for HTML tags)
	mt := []string{"<", ">", "a", " ", "/", "\"", "<b>", "</b>", "< ", "<a href=\"x>y\">", "=", "<1"}
	msgCtx := []string{"{namespace t}\n/** @param? n */\n{template .t}\n{msg desc=\"d\"}%s{/msg}\n{/template}\n",
		"{namespace t}\n/** @param? n */\n{template .t}\n{msg desc=\"d\"}{plural $n}{case 1}%s{default}x %s y{/plural}{/msg}\n{/template}\n",
		"{namespace t}\n/** @param? n */\n{template .t}\n{msg desc=\"d\"}%s{$n}%s{/msg}\n{/template}\n"}
	nmt := 0
	for l, p := 1, len(mt); l <= 5; l, p = l+1, p*len(mt) {
		nmt += p
	}
	fams = append(fams, family{"msg-text", nmt, func(i int, r *fw.Rand) parseInput {
		l, p := 1, len(mt)
		for i >= p {
			i -= p
			l++
			p *= len(mt)
		}
		var b strings.Builder
		c := i % 3
		for j := 0; j < l; j++ {
			b.WriteString(mt[i%len(mt)])
			i /= len(mt)
		}
		return parseInput{Entry: "file", Family: "msg-text", Text: strings.ReplaceAll(msgCtx[c], "%s", b.String())}
	}})
	n3 := 100000
	if thorough {
		n3 = 8000000
	}
	fams = append(fams, family{"tag3", n3, func(i int, r *fw.Rand) parseInput {
		c := ctxs[r.Intn(len(ctxs))]
		k := 3 + r.Intn(3)
		var b strings.Builder
		for j := 0; j < k; j++ {
			b.WriteString(T[r.Intn(len(T))])
		}
		return parseInput{Entry: "file", Family: "tag3", Text: strings.Replace(c, "%s", b.String(), 1)}
	}})

	// (3) token edits of valid files
	var toks [][]string
	for _, f := range cp {
		toks = append(toks, gen.SplitTokens(f))
	}
	nEd := 60000
	if thorough {
		nEd = 3000000
	}
	fams = append(fams, family{"token-edit", nEd, func(i int, r *fw.Rand) parseInput {
		t := toks[i%len(toks)]
		// edit a window so that small files and big files both get local damage
		if len(t) > 400 {
			lo := r.Intn(len(t) - 300)
			w := t[lo : lo+300]
			return parseInput{Entry: "file", Family: "token-edit", Text: "{namespace w}\n" + gen.TokenEdit(r, w)}
		}
		return parseInput{Entry: "file", Family: "token-edit", Text: gen.TokenEdit(r, t)}
	}})

	// (4) random bytes
	nRnd := 60000
	if thorough {
		nRnd = 3000000
	}
	fams = append(fams, family{"random", nRnd, func(i int, r *fw.Rand) parseInput {
		s := gen.RandomBytes(r, 120)
		if r.P(1, 2) {
			s = "{namespace r}\n{template .t}\n" + s
		}
		return parseInput{Entry: "file", Family: "random", Text: s}
	}})

	// (5) standalone expressions
	E := gen.ExprTokens
	etotal := 0
	for _, e := range gen.ExprCorpus {
		etotal += len(e) + 1
	}
	fams = append(fams, family{"expr-prefix", etotal, func(i int, r *fw.Rand) parseInput {
		for _, e := range gen.ExprCorpus {
			if i <= len(e) {
				return parseInput{Entry: "expr", Family: "expr-prefix", Text: e[:i]}
			}
			i -= len(e) + 1
		}
		panic("unreachable")
	}})
	fams = append(fams, family{"expr-tok1", len(E), func(i int, r *fw.Rand) parseInput {
		return parseInput{Entry: "expr", Family: "expr-tok1", Text: E[i]}
	}})
	fams = append(fams, family{"expr-tok2", len(E) * len(E), func(i int, r *fw.Rand) parseInput {
		return parseInput{Entry: "expr", Family: "expr-tok2", Text: E[i%len(E)] + " " + E[i/len(E)]}
	}})
	ne3 := 60000
	if thorough {
		ne3 = 4000000
	}
	fams = append(fams, family{"expr-tokN", ne3, func(i int, r *fw.Rand) parseInput {
		k := 3 + r.Intn(4)
		var b strings.Builder
		for j := 0; j < k; j++ {
			b.WriteString(E[r.Intn(len(E))])
			if r.P(2, 3) {
				b.WriteByte(' ')
			}
		}
		return parseInput{Entry: "expr", Family: "expr-tokN", Text: b.String()}
	}})
	var etoks [][]string
	for _, e := range gen.ExprCorpus {
		etoks = append(etoks, gen.SplitExprTokens(e))
	}
	fams = append(fams, family{"expr-edit", ne3 / 2, func(i int, r *fw.Rand) parseInput {
		return parseInput{Entry: "expr", Family: "expr-edit", Text: gen.TokenEdit(r, etoks[i%len(etoks)])}
	}})
	fams = append(fams, family{"expr-random", ne3 / 2, func(i int, r *fw.Rand) parseInput {
		return parseInput{Entry: "expr", Family: "expr-random", Text: gen.RandomBytes(r, 40)}
	}})

	// (6) globals files
	fams = append(fams, family{"globals", ne3 / 4, func(i int, r *fw.Rand) parseInput {
		var b strings.Builder
		for l := 0; l < 1+r.Intn(4); l++ {
			switch r.Intn(6) {
			case 0:
				b.WriteString("// comment\n")
			case 1:
				b.WriteString(gen.RandomBytes(r, 30) + "\n")
			default:
				fmt.Fprintf(&b, "G%d = ", l)
				if r.P(1, 2) {
					b.WriteString(gen.ExprCorpus[r.Intn(len(gen.ExprCorpus))])
				} else {
					for j := 0; j < 1+r.Intn(3); j++ {
						b.WriteString(E[r.Intn(len(E))] + " ")
					}
				}
				b.WriteString("\n")
			}
		}
		text := b.String()
		if eol := []string{"\n", "\r\n", "\r", "\n"}[r.Intn(4)]; eol != "\n" {
			text = strings.ReplaceAll(text, "\n", eol)
		}
		if r.P(1, 3) {
			text = strings.TrimRight(text, "\r\n")
		}
		if i%7 == 0 {
			text = "// " + strings.Repeat("y", 4080+r.Intn(24)) + "\r\n" + text
		}
		return parseInput{Entry: "globals", Family: "globals", Text: text}
	}})
	// (9) files that begin with a byte order mark or other invisible prefixes, and expressions likewise
	prefixes := []string{"\xef\xbb\xbf", "\xef\xbb\xbf\xef\xbb\xbf", "\xef\xbb", "\xff\xfe", "\xfe\xff", "\u200b", "\u2060", "\x00", "\r\n\xef\xbb\xbf", " \xef\xbb\xbf"}
	fams = append(fams, family{"invisible-prefix", len(prefixes) * (len(cp) + len(gen.ExprCorpus)), func(i int, r *fw.Rand) parseInput {
		p := prefixes[i%len(prefixes)]
		i /= len(prefixes)
		if i < len(cp) {
			return parseInput{Entry: "file", Family: "invisible-prefix", Text: p + cp[i]}
		}
		return parseInput{Entry: "expr", Family: "invisible-prefix", Text: p + gen.ExprCorpus[i-len(cp)]}
	}})
	// (8) quoted attribute expressions (they are parsed by a parser of their own): every token and every pair of tokens inside
	// each attribute that holds an expression
	quoted := []string{"{call .t data=\"%s\" /}", "{call .t}{param key=\"p\" value=\"%s\" /}{/call}", "{css %s, base}", "{call .t data=\"%s\"}{param p: 1 /}{/call}", "{call name=\".t\" data=\"%s\" /}"}
	nq := len(E) + len(E)*len(E)
	fams = append(fams, family{"quoted-expr", nq * len(quoted), func(i int, r *fw.Rand) parseInput {
		c := quoted[i%len(quoted)]
		i /= len(quoted)
		e := ""
		if i < len(E) {
			e = E[i]
		} else {
			i -= len(E)
			e = E[i%len(E)] + E[i/len(E)]
			if r.Bool() {
				e = E[i%len(E)] + " " + E[i/len(E)]
			}
		}
		if strings.Contains(c, "=\"%s\"") {
			e = strings.NewReplacer(`\`, `\\`, `"`, `\"`).Replace(e)
		}
		return parseInput{Entry: "file", Family: "quoted-expr", Text: "{namespace q}\n/** */\n{template .t}\n" + strings.Replace(c, "%s", e, 1) + "\n{/template}\n"}
	}})
	// (7) deep nesting: every bracketing construct repeated d times inside every place that takes an expression (and block
	// commands nested d deep), balanced and cut short. Depths 12/24 carry the half-depth twin for the work-growth oracle;
	// the large depths are there for the stack and for quadratic-or-worse paths.
	nest := [][2]string{{"[", "]"}, {"(", ")"}, {"round(", ")"}, {"['k': ", "]"}, {"$a ? 1 : [", "]"}, {"$a ? [", "] : 2"}, {"[", "] ? 1 : 2"}, {"not ", ""}, {"-", ""},
		{"$a ?: (", ")"}, {"$a[", "]"}, {"$a?[", "]"}, {"-(", ")"}, {"$a ? 1 : ", ""}, {"1 + (", ")"}, {"(", ") + 1"}, {"$a and (", ")"}, {"[1, ", "]"}, {"f(1, ", ")"},
		{"$a.b[", "].c"}, {"$a ?: [", "]"}, {"$a ? 1 : -", ""}, {"['k': f(", ")]"}, {"(not [", "])"}, {"$a ? f([", "]) : 1"}, {"1 < ", ""}, {"$a == (", ")"}}
	exprCtx := []string{"{%s}", "{if %s}x{/if}", "{msg desc=\"d\"}{plural %s}{case 1}a{default}b{/plural}{/msg}", "{msg desc=\"d\"}{plural $n}{case %s}a{default}b{/plural}{/msg}",
		"{call .t data=\"%s\" /}", "{switch 1}{case %s}x{/switch}", "{let $v: %s /}", "{foreach $x in %s}x{/foreach}", "{$a|truncate:%s}", "{call .t}{param p: %s /}{/call}",
		"{css %s, base}", "{for $i in range(%s)}x{/for}", "{print %s}", "{msg desc=\"d\"}a{%s}b{/msg}"}
	blocks := [][2]string{{"{if $a}", "{/if}"}, {"{foreach $x in $l}", "{/foreach}"}, {"{let $v}", "{/let}"}, {"{switch 1}{case 1}", "{/switch}"}, {"{if $a}x{else}", "{/if}"},
		{"{call .t}{param p}", "{/param}{/call}"}, {"{log}", "{/log}"}, {"{if $a}x{elseif $b}", "{/if}"}, {"{for $i in range(2)}", "{/for}"}, {"{foreach $x in $l}x{ifempty}", "{/foreach}"}}
	depths := []int{12, 24, 100, 1000, 20000, -1}
	if thorough {
		depths = []int{12, 24, 100, 1000, 20000, 200000, -1}
	}
	// -1: a million levels (megabytes of input) for one combination in 11 (thorough: in 3), 3000 levels for the others
	million := func(k int) int {
		if (thorough && k%3 == 0) || k%11 == 0 {
			return 1000000
		}
		return 3000
	}
	build := func(p [2]string, d int, cut bool) string {
		if cut {
			return strings.Repeat(p[0], d) + "$x" + strings.Repeat(p[1], d/2)
		}
		return strings.Repeat(p[0], d) + "$x" + strings.Repeat(p[1], d)
	}
	wrap := func(body string) string { return "{namespace d}\n/** */\n{template .t}\n" + body + "\n{/template}\n" }
	nEntries := len(exprCtx) + 2 // + standalone expression + globals file
	fams = append(fams, family{"deep-nest", len(nest) * nEntries * len(depths) * 2, func(i int, r *fw.Rand) parseInput {
		cut := i%2 == 1
		i /= 2
		d := depths[i%len(depths)]
		i /= len(depths)
		if d < 0 {
			d = million(i)
		}
		c := i % nEntries
		p := nest[i/nEntries]
		mk := func(d int) parseInput {
			e := build(p, d, cut)
			switch {
			case c == len(exprCtx):
				return parseInput{Entry: "expr", Family: "deep-nest", Text: e}
			case c == len(exprCtx)+1:
				return parseInput{Entry: "globals", Family: "deep-nest", Text: "G = " + e + "\n"}
			}
			e = strings.NewReplacer(`\`, `\\`, `"`, `\"`).Replace(e)
			if !strings.Contains(exprCtx[c], `="%s"`) {
				e = build(p, d, cut)
			}
			return parseInput{Entry: "file", Family: "deep-nest", Text: wrap(strings.Replace(exprCtx[c], "%s", e, 1))}
		}
		in := mk(d)
		if d == 24 {
			in.Half = mk(12).Text
		}
		return in
	}})
	fams = append(fams, family{"deep-blocks", len(blocks) * len(depths) * 2, func(i int, r *fw.Rand) parseInput {
		cut := i%2 == 1
		i /= 2
		d := depths[i%len(depths)]
		if d < 0 {
			d = million(i / len(depths))
		}
		p := blocks[i/len(depths)]
		mk := func(d int) string {
			if cut {
				return wrap(strings.Repeat(p[0], d) + "x" + strings.Repeat(p[1], d/2))
			}
			return wrap(strings.Repeat(p[0], d) + "x" + strings.Repeat(p[1], d))
		}
		in := parseInput{Entry: "file", Family: "deep-blocks", Text: mk(d)}
		if d == 24 {
			in.Half = mk(12)
		}
		return in
	}})
	// long runs: the same unit repeated n and 4n times (quick 4000 / 16000, thorough also 30000 / 120000)
	sizes := []int{16000}
	if thorough {
		sizes = []int{16000, 120000}
	}
	fams = append(fams, family{"long-runs", len(longRuns) * len(sizes), func(i int, r *fw.Rand) parseInput {
		n := sizes[i/len(longRuns)]
		in := longRun(i%len(longRuns), n)
		in.Quarter = longRun(i%len(longRuns), n/4).Text
		return in
	}})
	return fams
}

func famCount(fams []family) int {
	n := 0
	for _, f := range fams {
		n += f.n
	}
	return n
}

func famAt(fams []family, i int, r *fw.Rand) parseInput {
	for _, f := range fams {
		if i < f.n {
			return f.at(i, r)
		}
		i -= f.n
	}
	panic("index out of range")
}
