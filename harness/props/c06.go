package props

import (
	"bytes"
	"fmt"
	"os"
	"strings"

	"github.com/robfig/soy"
	"github.com/robfig/soy/data"
	"github.com/robfig/soy/parse"
	"github.com/robfig/soy/soyhtml"

	"verif/fw"
	"verif/gen"
	"verif/ref"
)

// hugeRange reports whether the expression contains a range() call that could legitimately
// run for a very long time (finite but huge) - those are kept out: the budget is for unbounded loops.
func hugeRange(e ref.Expr, d map[string]ref.Value) bool {
	huge := false
	var walk func(e ref.Expr)
	walk = func(e ref.Expr) {
		switch e := e.(type) {
		case *ref.Paren:
			walk(e.X)
		case *ref.Unary:
			walk(e.X)
		case *ref.Binary:
			walk(e.L)
			walk(e.R)
		case *ref.Tern:
			walk(e.C)
			walk(e.A)
			walk(e.B)
		case *ref.ListLit:
			for _, a := range e.Items {
				walk(a)
			}
		case *ref.MapLit:
			for _, a := range e.Vals {
				walk(a)
			}
		case *ref.DataRef:
			for _, a := range e.Acc {
				if a.Kind == 2 {
					walk(a.Arg)
				}
			}
		case *ref.Call:
			if e.Fn == "range" {
				env := ref.NewEnv(d, nil, nil)
				var vals []int64
				for _, a := range e.Args {
					v, st := ref.Eval(a, env)
					if st != ref.OK || v.K != ref.KInt {
						vals = append(vals, 0)
					} else {
						vals = append(vals, v.I)
					}
				}
				lo, hi := int64(0), int64(0)
				switch len(vals) {
				case 1:
					hi = vals[0]
				case 2, 3:
					lo, hi = vals[0], vals[1]
				}
				if hi-lo > 200000 || hi-lo < -(1<<62) {
					huge = true
				}
			}
			for _, a := range e.Args {
				walk(a)
			}
		}
	}
	walk(e)
	return huge
}

// c06DefaultExprs: default values of header params that fail or are odd when evaluated.
var c06DefaultExprs = []string{"$ij.locale", "$ij.nope.x", "7 % 0", "length(3)", "1 < 'a'", "$undeclaredButDefault", "range(-1)[0]", "[1, 2][5]", "['a': 1].b.c", "nosuchfunction(1)", "1 / 0", "-'x'",
	"round('x')", "keys(1)", "randomInt(0)", "null", "[]", "[:]", "'s' + 1", "not null ? $ij.a.b : 1"}

var c06Directives = []string{"insertWordBreaks", "changeNewlineToBr", "truncate", "id", "noAutoescape", "escapeHtml", "escapeUri", "escapeJsString", "bidiSpanWrap", "bidiUnicodeWrap", "json", "nosuchdirective"}
var c06Functions = []string{"isNonnull", "length", "keys", "augmentMap", "round", "floor", "ceiling", "min", "max", "randomInt", "strContains", "range", "hasData", "index", "isFirst", "isLast", "nosuchfunction"}

// hostile values for any param
func hostileValues() []ref.Value {
	return []ref.Value{
		ref.Null, ref.Bool(true), ref.Bool(false), ref.Int(0), ref.Int(-1), ref.Int(ref.MaxSafe), ref.Float(0.5), ref.Float(-1e300), ref.Str(""), ref.Str("x"), ref.Str("12"),
		{K: ref.KList}, ref.List(ref.Int(1), ref.Str("a"), ref.Null, ref.List()), ref.List(ref.MapOf("a", ref.Null)), ref.MapOf(), ref.MapOf("a", ref.Str("s"), "s", ref.Int(1)),
		ref.MapOf("a", ref.List(), "s", ref.MapOf()), ref.List(ref.List(ref.List())),
	}
}

type c06Family struct {
	name string
	n    func(tier string) int
	run  func(ctx *fw.Ctx, k int) fw.Result
}

// runTotal calls f and demands a normal return; panics are turned into violations by fw.Guard upstream.
func totalRender(ctx *fw.Ctx, files []srcFile, globals map[string]ref.Value, entry string, d map[string]ref.Value, ij *ref.Value, useTofuRender bool) (compiled bool, rerr error) {
	tofu, err := compile(files, globals)
	if err != nil {
		ctx.Obs("compile_rejected", 1)
		return false, nil
	}
	var buf bytes.Buffer
	armRenderBudget()
	if useTofuRender {
		rerr = tofu.Render(&buf, entry, goData(d))
		ctx.Cell("entry:Tofu.Render")
	} else {
		_, rerr = render(tofu, entry, d, ij, nil)
		ctx.Cell("entry:Renderer.Execute")
	}
	if rerr != nil {
		ctx.Obs("render_errors", 1)
		// the same Tofu once more after the failure, twice: what a failed render leaves behind must not turn the next
		// failure into a panic (the results themselves are C08's business)
		for rep := 0; rep < 2; rep++ {
			buf.Reset()
			armRenderBudget()
			if useTofuRender {
				_ = tofu.Render(&buf, entry, goData(d))
			} else {
				_, _ = render(tofu, entry, d, ij, nil)
			}
		}
		ctx.Obs("renders_after_a_failed_one", 2)
	} else {
		ctx.Obs("render_ok", 1)
	}
	return true, rerr
}

var c06Families = []c06Family{
	{"illtyped-cells", func(tier string) int { return len(c01Systematic()) * len(c01Positions) }, func(ctx *fw.Ctx, k int) fw.Result {
		all := c01Systematic()
		c := all[k%len(all)]
		pos := k / len(all)
		if hugeRange(c.E, c.Data) {
			return fw.Result{Verdict: fw.Skip}
		}
		prog, posName := c01Program(c.E, c.Data, pos, c.Globals)
		files := bundleSources(prog.B, ref.Layout{})
		ctx.Cell("pos:" + posName)
		ok, _ := totalRender(ctx, files, c.Globals, prog.Entry, c.Data, nil, k%5 == 0)
		id := ""
		if ok {
			id = files[0].Text + fmt.Sprint(goData(c.Data))
		}
		ctx.Eval(id)
		return fw.Result{Verdict: fw.Held}
	}},
	{"function-arity", func(tier string) int { return len(c06Functions) * 5 * 40 }, func(ctx *fw.Ctx, k int) fw.Result {
		cls := operandClasses()
		fn := c06Functions[k%len(c06Functions)]
		ar := (k / len(c06Functions)) % 5
		call := &ref.Call{Fn: fn}
		d := map[string]ref.Value{}
		names := []string{"x", "y", "z", "w"}
		for a := 0; a < ar; a++ {
			c := cls[ctx.Rng.Intn(len(cls))]
			if fn == "range" && (c.name == "int53") {
				c = cls[4]
			}
			if c.v.K != ref.KUndef {
				d[names[a]] = c.v
			}
			call.Args = append(call.Args, &ref.DataRef{Name: names[a]})
		}
		var body []ref.Node
		if fn == "index" || fn == "isFirst" || fn == "isLast" {
			// loop functions: on the loop variable, on another variable, with wrong arity
			body = []ref.Node{&ref.Foreach{Var: "x", List: &ref.ListLit{Items: []ref.Expr{&ref.Lit{V: ref.Int(1)}}}, Body: []ref.Node{&ref.Print{E: call}}, Keyword: "foreach"}}
			delete(d, "x")
		} else {
			body = []ref.Node{&ref.Print{E: call}}
		}
		t := &ref.Template{Name: "main", Body: body}
		for a := 0; a < ar; a++ {
			if !(a == 0 && len(body) == 1 && fmt.Sprintf("%T", body[0]) == "*ref.Foreach") {
				t.Params = append(t.Params, ref.ParamDecl{Name: names[a], Optional: true})
			}
		}
		f := &ref.File{Name: "f.soy", Namespace: "t", Templates: []*ref.Template{t}}
		files := bundleSources(&ref.Bundle{Files: []*ref.File{f}}, ref.Layout{})
		ctx.Cell("fn:" + fn)
		ok, _ := totalRender(ctx, files, nil, "t.main", d, nil, false)
		id := ""
		if ok {
			id = files[0].Text + fmt.Sprint(goData(d))
		}
		ctx.Eval(id)
		return fw.Result{Verdict: fw.Held}
	}},
	{"directive-arity", func(tier string) int { return len(c06Directives) * 4 * 60 }, func(ctx *fw.Ctx, k int) fw.Result {
		cls := operandClasses()
		dn := c06Directives[k%len(c06Directives)]
		ar := (k / len(c06Directives)) % 4
		d := map[string]ref.Value{}
		vc := cls[ctx.Rng.Intn(len(cls))]
		if vc.v.K != ref.KUndef {
			d["v"] = vc.v
		}
		dir := ref.Dir{Name: dn}
		names := []string{"x", "y", "z"}
		t := &ref.Template{Name: "main", Params: []ref.ParamDecl{{Name: "v", Optional: true}}}
		for a := 0; a < ar; a++ {
			c := cls[ctx.Rng.Intn(len(cls))]
			if c.v.K != ref.KUndef {
				d[names[a]] = c.v
			}
			if ctx.Rng.P(1, 3) {
				d[names[a]] = ref.Int(int64(ctx.Rng.Intn(12) - 3))
			}
			dir.Args = append(dir.Args, &ref.DataRef{Name: names[a]})
			t.Params = append(t.Params, ref.ParamDecl{Name: names[a], Optional: true})
		}
		t.Body = []ref.Node{&ref.Print{E: &ref.DataRef{Name: "v"}, Dirs: []ref.Dir{dir}}}
		if ctx.Rng.P(1, 3) {
			t.Body[0].(*ref.Print).Dirs = append(t.Body[0].(*ref.Print).Dirs, ref.Dir{Name: c06Directives[ctx.Rng.Intn(len(c06Directives)-1)]})
		}
		f := &ref.File{Name: "f.soy", Namespace: "t", Templates: []*ref.Template{t}}
		files := bundleSources(&ref.Bundle{Files: []*ref.File{f}}, ref.Layout{})
		ctx.Cell("dir:" + dn)
		ok, _ := totalRender(ctx, files, nil, "t.main", d, nil, false)
		id := ""
		if ok {
			id = files[0].Text + fmt.Sprint(goData(d))
		}
		ctx.Eval(id)
		return fw.Result{Verdict: fw.Held}
	}},
	{"directive-hostile-strings", func(tier string) int { return len(c06Directives) * len(gen.HostileStrings()) }, func(ctx *fw.Ctx, k int) fw.Result {
		// every directive over every hostile string (every byte value alone and between letters, broken and cut-off
		// UTF-8 sequences, long runs), with arguments in range: each must return
		hs := gen.HostileStrings()
		dn := c06Directives[k%len(c06Directives)]
		dir := ref.Dir{Name: dn}
		switch dn {
		case "truncate", "insertWordBreaks":
			dir.Args = []ref.Expr{&ref.Lit{V: ref.Int(int64(1 + k%7))}}
		}
		t := &ref.Template{Name: "main", Params: []ref.ParamDecl{{Name: "v", Optional: true}}}
		t.Body = []ref.Node{&ref.Print{E: &ref.DataRef{Name: "v"}, Dirs: []ref.Dir{dir}}}
		f := &ref.File{Name: "f.soy", Namespace: "t", Templates: []*ref.Template{t}}
		files := bundleSources(&ref.Bundle{Files: []*ref.File{f}}, ref.Layout{})
		d := map[string]ref.Value{"v": ref.Str(hs[(k/len(c06Directives))%len(hs)])}
		ctx.Cell("dir-hostile:" + dn)
		totalRender(ctx, files, nil, "t.main", d, nil, k%3 == 0)
		ctx.Eval(fmt.Sprintf("dh:%s:%d", dn, k/len(c06Directives)))
		return fw.Result{Verdict: fw.Held}
	}},
	{"header-defaults", func(tier string) int { return len(c06DefaultExprs) * 6 }, func(ctx *fw.Ctx, k int) fw.Result {
		// header params whose default value cannot be evaluated (or is of any type at all), in the entry template and
		// in a callee, with the param omitted / null / given: whatever is done with a default, the render returns
		ex := c06DefaultExprs[k%len(c06DefaultExprs)]
		mode := (k / len(c06DefaultExprs)) % 6
		src := "{namespace t}\n{template .main}\n{@param? n: any = " + ex + "}\n{@param? s: string = 'dflt'}\n[{$n ?: 'none'}|{$s ?: 'ns'}]{call .sub /}{call .sub}{param q: $n /}{/call}\n{/template}\n" +
			"{template .sub}\n{@param? q: any = " + ex + "}\n({$q ?: 'nq'})\n{/template}\n"
		d := map[string]ref.Value{}
		switch mode % 3 {
		case 1:
			d["n"] = ref.Null
		case 2:
			d["n"] = ref.Int(5)
		}
		var ij *ref.Value
		if mode >= 3 {
			v := ref.MapOf("locale", ref.Str("en"))
			ij = &v
		}
		ctx.Cell("header-default")
		totalRender(ctx, []srcFile{{"hd.soy", src}}, nil, "t.main", d, ij, k%2 == 0 && ij == nil)
		ctx.Eval(fmt.Sprintf("hd:%s:%d", ex, mode))
		return fw.Result{Verdict: fw.Held}
	}},
	{"hostile-data", func(tier string) int {
		if tier == "thorough" {
			return 1000000
		}
		return 40000
	}, func(ctx *fw.Ctx, k int) fw.Result {
		g := &gen.G{R: ctx.Rng}
		g.O = c02Opts(ctx.Rng, ctx.Tier)
		prog := g.Bundle(1+ctx.Rng.Intn(3), 2+ctx.Rng.Intn(4))
		files := bundleSources(prog.B, ref.Layout{})
		hv := hostileValues()
		d := map[string]ref.Value{}
		for name, v := range prog.Data {
			switch ctx.Rng.Intn(4) {
			case 0:
				d[name] = v
			case 1: // missing
			default:
				d[name] = hv[ctx.Rng.Intn(len(hv))]
			}
		}
		ij := prog.IJ
		if ij != nil && ctx.Rng.P(1, 3) {
			ij = nil // referenced but not provided
			ctx.Cell("missing-ij")
		} else if ij != nil && ctx.Rng.P(1, 3) {
			h := ref.MapOf("user", hv[ctx.Rng.Intn(len(hv))], "count", hv[ctx.Rng.Intn(len(hv))])
			ij = &h
		}
		ok, _ := totalRender(ctx, files, prog.B.Globals, prog.Entry, d, ij, k%4 == 0)
		id := ""
		if ok {
			id = files[0].Text + fmt.Sprint(goData(d))
		}
		ctx.Eval(id)
		return fw.Result{Verdict: fw.Held}
	}},
	{"duplicate-templates", func(tier string) int { return 1200 }, func(ctx *fw.Ctx, k int) fw.Result {
		// the same template name defined in two files, in both orders; errors raised in either
		bodyA := []string{"A{$x}{$x.q}", "A{$x.y.z}", "A{$x}{1 < 'a'}", "{call .u /}A{$x}{$ij.nope}"}[k%4]
		bodyB := []string{"B", "B\n\n\n\n{$x.y}", "{foreach $i in $x}{$i}{/foreach}"}[(k/4)%3]
		pad := strings.Repeat("\n", (k/12)%7) + strings.Repeat("// padding comment line\n", (k/84)%5*4)
		// file names are only labels: they may be empty or equal
		nameA, nameB := []string{"a.soy", "", "same.soy", "a.soy"}[(k/24)%4], []string{"b.soy", "", "same.soy", ""}[(k/24)%4]
		fa := srcFile{nameA, "{namespace d}\n" + pad + "/** @param? x */\n{template .t}\n" + bodyA + "\n{/template}\n{template .u}U{/template}\n"}
		fb := srcFile{nameB, "{namespace d}\n/** @param? x */\n{template .t}" + bodyB + "{/template}\n"}
		files := []srcFile{fa, fb}
		if (k/12)%2 == 1 {
			files = []srcFile{fb, fa}
		}
		hv := hostileValues()
		d := map[string]ref.Value{"x": hv[ctx.Rng.Intn(len(hv))]}
		ctx.Cell("duplicate-templates")
		ok, _ := totalRender(ctx, files, nil, "d.t", d, nil, false)
		if !ok {
			ctx.Obs("duplicates_rejected_at_compile", 1)
		}
		ctx.Eval(fa.Text + fb.Text + fmt.Sprint((k/12)%2, goData(d)))
		return fw.Result{Verdict: fw.Held}
	}},
	{"nested-call-errors", func(tier string) int { return 600 }, func(ctx *fw.Ctx, k int) fw.Result {
		depth := 1 + k%4
		bad := []string{"{$p.q.r}", "{1 < 'a'}", "{$p}", "{foreach $i in $p}x{/foreach}", "{$p|truncate:'x'}", "{length($p)}", "{$ij.z}", "{call .t9 data=\"$p\" /}", "{$p % 0}", "{length(range(0, 5, $p))}"}[(k/4)%10]
		var fa, fb strings.Builder
		fa.WriteString("{namespace a}\n")
		fb.WriteString("{namespace b}\n")
		for lv := 0; lv <= depth; lv++ {
			w := &fa
			ns, other := "a", "b"
			if lv%2 == 1 {
				w, ns, other = &fb, "b", "a"
			}
			_ = ns
			fmt.Fprintf(w, "/** @param? p */\n{template .t%d}\n", lv)
			if lv < depth {
				kind := (k + lv) % 3
				switch kind {
				case 0:
					fmt.Fprintf(w, "L%d{call %s.t%d data=\"all\" /}\n", lv, other, lv+1)
				case 1:
					fmt.Fprintf(w, "L%d{call %s.t%d}{param p: $p /}{/call}\n", lv, other, lv+1)
				default:
					fmt.Fprintf(w, "L%d{let $v}{call %s.t%d data=\"all\" /}{/let}{$v}\n", lv, other, lv+1)
				}
			} else {
				fmt.Fprintf(w, "%s\n", bad)
			}
			w.WriteString("{/template}\n")
		}
		fa.WriteString("/** @param? p */\n{template .t9}{$p}{/template}\n")
		files := []srcFile{{"a.soy", fa.String()}, {"b.soy", fb.String()}}
		hv := hostileValues()
		d := map[string]ref.Value{}
		if k%3 != 0 {
			d["p"] = hv[ctx.Rng.Intn(len(hv))]
		}
		ctx.Cell(fmt.Sprintf("call-depth:%d", depth))
		ok, err := totalRender(ctx, files, nil, "a.t0", d, nil, k%2 == 0)
		if ok && err != nil {
			ctx.Obs("errors_from_nested_calls", 1)
		}
		ctx.Eval(files[0].Text + files[1].Text + fmt.Sprint(goData(d)))
		return fw.Result{Verdict: fw.Held}
	}},
	{"eval-expr", func(tier string) int {
		if tier == "thorough" {
			return 3000000
		}
		return 100000
	}, func(ctx *fw.Ctx, k int) fw.Result {
		// standalone expressions: EvalExpr must return (value, nil) or (nil-ish, error)
		var src string
		all := c01Systematic()
		if k%2 == 0 {
			c := all[(k/2)%len(all)]
			if hugeRange(c.E, c.Data) {
				return fw.Result{Verdict: fw.Skip}
			}
			src = ref.Src(c.E, ref.PrintStyle{})
		} else {
			toks := gen.ExprTokens
			n := 1 + ctx.Rng.Intn(5)
			var b strings.Builder
			for j := 0; j < n; j++ {
				b.WriteString(toks[ctx.Rng.Intn(len(toks))] + " ")
			}
			src = b.String()
			if strings.Contains(src, "range") {
				return fw.Result{Verdict: fw.Skip}
			}
		}
		node, err := parse.Expr(src)
		ctx.Cell("entry:EvalExpr")
		if err != nil || node == nil {
			ctx.Obs("expr_parse_errors", 1)
			return fw.Result{Verdict: fw.Held}
		}
		armRenderBudget()
		v, err := soyhtml.EvalExpr(node)
		ctx.Eval("expr:" + src)
		if err != nil {
			ctx.Obs("evalexpr_errors", 1)
		} else {
			ctx.Obs("evalexpr_ok", 1)
			if v == nil {
				return fw.Result{Verdict: fw.Violated, Key: "evalexpr-nil-value-nil-error", Case: src, Msg: "EvalExpr returned (nil, nil) for " + src}
			}
		}
		return fw.Result{Verdict: fw.Held}
	}},
	{"globals-files", func(tier string) int {
		if tier == "thorough" {
			return 1000000
		}
		return 50000
	}, func(ctx *fw.Ctx, k int) fw.Result {
		all := c01Systematic()
		var b strings.Builder
		for l := 0; l < 1+ctx.Rng.Intn(4); l++ {
			switch ctx.Rng.Intn(8) {
			case 0:
				b.WriteString("// comment\n\n")
			case 1:
				b.WriteString("no equals sign here\n")
			case 2:
				b.WriteString(gen.RandomBytes(ctx.Rng, 30) + "\n")
			case 3:
				b.WriteString("DUP = 1\nDUP = 2\n")
			default:
				c := all[ctx.Rng.Intn(len(all))]
				if hugeRange(c.E, c.Data) {
					continue
				}
				fmt.Fprintf(&b, "G%d = %s\n", l, ref.Src(c.E, ref.PrintStyle{}))
			}
		}
		if strings.Contains(b.String(), "range") {
			return fw.Result{Verdict: fw.Skip}
		}
		// line endings of every kind, with and without one at the end of the file; some files are long enough for a
		// line end to fall on any offset around a 4096-byte read boundary
		text := b.String()
		eol := []string{"\n", "\r\n", "\r", "\n"}[ctx.Rng.Intn(4)]
		text = strings.ReplaceAll(text, "\n", eol)
		if ctx.Rng.P(1, 3) {
			text = strings.TrimSuffix(text, eol)
		}
		if k%5 == 0 {
			pad := 4096 - 12 + ctx.Rng.Intn(24) - len("// ") - len(eol)
			text = "// " + strings.Repeat("x", pad) + eol + text
		}
		ctx.Cell("globals-eol:" + strings.NewReplacer("\r", "CR", "\n", "LF").Replace(eol))
		armRenderBudget()
		m, err := soy.ParseGlobals(strings.NewReader(text))
		ctx.Cell("entry:ParseGlobals")
		ctx.Eval("globals:" + text)
		if err != nil {
			ctx.Obs("globals_errors", 1)
		} else {
			ctx.Obs("globals_ok", 1)
			// a globals map that parsed must be usable
			bundle := soy.NewBundle().AddGlobalsMap(m)
			_, cerr := bundle.AddTemplateString("g.soy", "{namespace g}\n{template .t}x{/template}\n").CompileToTofu()
			_ = cerr
			// ... and so must a second definition of every name in it (a conflict: an error value, whatever the values
			// are), through the map and through the file on disk
			if len(m) > 0 && k%2 == 0 {
				_, cerr = soy.NewBundle().AddGlobalsMap(m).AddGlobalsMap(m).AddTemplateString("g.soy", "{namespace g}\n{template .t}x{/template}\n").CompileToTofu()
				if cerr == nil {
					return fw.Result{Verdict: fw.Violated, Key: "redefined-global-accepted", Case: text, Msg: "AddGlobalsMap twice with the same names compiled without error"}
				}
				ctx.Obs("globals_redefined", 1)
				if k%8 == 0 {
					if f, ferr := os.CreateTemp("", "c06globals"); ferr == nil {
						f.WriteString(text)
						f.Close()
						_, cerr = soy.NewBundle().AddGlobalsFile(f.Name()).AddGlobalsFile(f.Name()).AddTemplateString("g.soy", "{namespace g}\n{template .t}x{/template}\n").CompileToTofu()
						os.Remove(f.Name())
						if cerr == nil {
							return fw.Result{Verdict: fw.Violated, Key: "redefined-global-accepted", Case: text, Msg: "AddGlobalsFile twice with the same file compiled without error"}
						}
						ctx.Cell("entry:AddGlobalsFile")
					}
				}
			}
		}
		return fw.Result{Verdict: fw.Held}
	}},
	{"deep-expressions", func(tier string) int { return len(c17Deep) * 4 }, func(ctx *fw.Ctx, k int) fw.Result {
		// every bracketing construct nested up to a million deep: whatever the parser lets through, evaluating and
		// rendering it must return
		p := c17Deep[k/4]
		d := []int{100, 5000, 9990, 1000000}[k%4]
		src := strings.Repeat(p[0], d) + "$x" + strings.Repeat(p[1], d)
		ctx.Cell(fmt.Sprintf("deep:%d", d))
		ctx.Eval(fmt.Sprintf("deep:%s:%d", p[0], d))
		node, err := parse.Expr(src)
		if err != nil || node == nil {
			ctx.Obs("expr_parse_errors", 1)
		} else {
			armRenderBudget()
			if _, err := soyhtml.EvalExpr(node); err != nil {
				ctx.Obs("evalexpr_errors", 1)
			} else {
				ctx.Obs("evalexpr_ok", 1)
			}
		}
		if strings.Contains(src, "{") || strings.Contains(src, "}") {
			return fw.Result{Verdict: fw.Held}
		}
		tofu, cerr := compile([]srcFile{{"deep.soy", "{namespace deep}\n/** @param? x\n * @param? a\n * @param? b */\n{template .t}\n{isNonnull($x)}{isNonnull($a)}{isNonnull($b)}{" + src + "}\n{/template}\n"}}, nil)
		if cerr != nil {
			ctx.Obs("compile_rejected", 1)
			return fw.Result{Verdict: fw.Held}
		}
		if _, rerr := render(tofu, "deep.t", map[string]ref.Value{"x": ref.Int(1), "a": ref.Bool(true), "b": ref.Int(2)}, nil, nil); rerr != nil {
			ctx.Obs("render_errors", 1)
		} else {
			ctx.Obs("render_ok", 1)
		}
		ctx.Cell("entry:Tofu.Render")
		return fw.Result{Verdict: fw.Held}
	}},
	{"extreme-range", func(tier string) int { return len(c06ExtremeRanges) * 3 }, func(ctx *fw.Ctx, k int) fw.Result {
		// range() at the ends of the integer range: every one of these lists has at most a dozen elements, and
		// computing it must not run away when start + step leaves the integers
		call := c06ExtremeRanges[k%len(c06ExtremeRanges)]
		ctx.Cell("fn:range-extreme")
		armRenderBudget()
		switch k / len(c06ExtremeRanges) {
		case 0:
			files := []srcFile{{"r.soy", "{namespace r}\n/** */\n{template .t}\n{length(" + call + ")}{foreach $i in " + call + "}{$i},{/foreach}\n{/template}\n"}}
			totalRender(ctx, files, nil, "r.t", nil, nil, false)
		case 1:
			if node, err := parse.Expr("length(" + call + ")"); err == nil {
				ctx.Cell("entry:EvalExpr")
				if _, err := soyhtml.EvalExpr(node); err != nil {
					ctx.Obs("evalexpr_errors", 1)
				} else {
					ctx.Obs("evalexpr_ok", 1)
				}
			}
		default:
			if _, err := soy.ParseGlobals(strings.NewReader("N = length(" + call + ")\n")); err != nil {
				ctx.Obs("globals_errors", 1)
			} else {
				ctx.Obs("globals_ok", 1)
			}
		}
		ctx.Eval("extreme-range:" + call + fmt.Sprint(k/len(c06ExtremeRanges)))
		return fw.Result{Verdict: fw.Held}
	}},
	{"deep-call-errors", func(tier string) int { return len(c06CallDepths) * 6 }, func(ctx *fw.Ctx, k int) fw.Result {
		// a failure (or none) below n nested calls, n around the sizes a table of call frames might have: through one
		// template that calls itself along a list, and through a chain of n templates
		n := c06CallDepths[k%len(c06CallDepths)]
		variant := k / len(c06CallDepths)
		var src strings.Builder
		src.WriteString("{namespace deep}\n")
		tail := []string{"{$u.x.y}", "end", "{1 < 'a'}"}[variant%3]
		if variant < 3 {
			src.WriteString("/**\n * @param items\n * @param i\n * @param? u\n */\n{template .walk}\n{if $i < length($items)}{$items[$i]},{call .walk}{param items: $items /}{param i: $i + 1 /}{/call}{else}" + tail + "{$u ?: ''}{/if}\n{/template}\n")
		} else {
			for t := 0; t < n; t++ {
				fmt.Fprintf(&src, "/** @param? u */\n{template .c%d}%d,{call .c%d data=\"all\" /}{/template}\n", t, t, t+1)
			}
			fmt.Fprintf(&src, "/** @param? u */\n{template .c%d}%s{$u ?: ''}{/template}\n", n, tail)
		}
		files := []srcFile{{"deep.soy", src.String()}}
		d := map[string]ref.Value{}
		entry := "deep.c0"
		if variant < 3 {
			items := ref.Value{K: ref.KList, ID: 9100}
			for q := 0; q < n; q++ {
				items.L = append(items.L, ref.Int(int64(q)))
			}
			d["items"], d["i"] = items, ref.Int(0)
			entry = "deep.walk"
		}
		ctx.Cell("deep-calls")
		ok, rerr := totalRender(ctx, files, nil, entry, d, nil, k%2 == 0)
		if ok && rerr == nil && tail != "end" {
			// (the other direction is not judged: some shards run with obligatory print directives that cannot be applied)
			return fw.Result{Verdict: fw.Violated, Key: "deep-call-error-lost", Case: fmt.Sprintf("%d nested calls, tail %s", n, tail), Msg: fmt.Sprintf("%d nested calls ending in %q: Render returned %v", n, tail, errText(rerr))}
		}
		if ok && rerr != nil {
			ctx.Obs("errors_from_nested_calls", 1)
		}
		ctx.Eval(fmt.Sprintf("deep:%d:%d", n, variant))
		return fw.Result{Verdict: fw.Held}
	}},
	{"api-misuse", func(tier string) int { return 13 * 18 }, func(ctx *fw.Ctx, k int) fw.Result {
		tofu, err := compile([]srcFile{{"m.soy", "{namespace m}\n/** @param? x */\n{template .t}{$x ?: 'd'}{/template}\n/** */\n{template .b}b{/template}\n/** */\n{template .k}{call .b/}{/template}\n"}}, nil)
		if err != nil {
			return fw.Result{Verdict: fw.Skip}
		}
		var buf bytes.Buffer
		objs := []interface{}{nil, "string", 42, []int{1}, map[string]interface{}{"x": 1}, struct{ X int }{1}, &struct{ X []interface{} }{}, map[string]int{"x": 2}, 1.5, true, data.Map{"x": data.Undefined{}}, data.List{}, data.Null{}}
		// entry names: defined ones, and unknown ones that sort before, between and after every defined name
		names := []string{"m.t", "m.nosuch", "", ".t", "m", "m.b", "m.k", "m.a", "m.c", "m.s", "m.tt", "m.zzz", "zzz.last", "a.first", "m.t\x00", "\u00e9.\u00fc", "\xff", "m.t "}
		obj := objs[k%len(objs)]
		name := names[(k/len(objs))%len(names)]
		armRenderBudget()
		rerr := tofu.Render(&buf, name, obj)
		ctx.Cell("entry:Tofu.Render")
		ctx.Eval(fmt.Sprintf("misuse:%T:%s", obj, name))
		if rerr != nil {
			ctx.Obs("render_errors", 1)
		} else {
			ctx.Obs("render_ok", 1)
		}
		// a nil / empty renderer
		_ = (&soyhtml.Renderer{}).Execute(&buf, nil)
		return fw.Result{Verdict: fw.Held}
	}},
}

var c06CallDepths = []int{1, 5, 31, 32, 33, 63, 64, 65, 66, 100, 127, 128, 129, 255, 256, 257, 300, 1000, 2000}

const c06MaxInt, c06MinInt = "9223372036854775807", "(-9223372036854775807 - 1)"

var c06ExtremeRanges = []string{
	"range(1, " + c06MaxInt + ", " + c06MaxInt + ")", "range(9223372036854775806, " + c06MaxInt + ", 2)", "range(9223372036854775800, " + c06MaxInt + ")",
	"range(9223372036854775797, " + c06MaxInt + ", 3)", "range(0, " + c06MaxInt + ", 9223372036854775806)", "range(0, " + c06MaxInt + ", 4611686018427387904)",
	"range(" + c06MinInt + ", -9223372036854775800)", "range(" + c06MinInt + ", " + c06MaxInt + ", " + c06MaxInt + ")", "range(-9223372036854775807, 9223372036854775806, 4611686018427387904)",
	"range(" + c06MaxInt + ", " + c06MaxInt + ")", "range(" + c06MaxInt + ", " + c06MinInt + ")", "range(-3, " + c06MaxInt + ", 9223372036854775806)",
	"range(4611686018427387904, " + c06MaxInt + ", 4611686018427387904)", "range(9007199254740990, 9007199254740993)", "range(9223372036854775806, " + c06MaxInt + ", " + c06MaxInt + ")",
}

var c06Config string

func c06Locate(tier string, i int) (*c06Family, int) {
	for k := range c06Families {
		n := c06Families[k].n(tier)
		if i < n {
			return &c06Families[k], i
		}
		i -= n
	}
	panic("c06 index")
}

func init() {
	fw.Register(&fw.Prop{
		ID:    "C06",
		Level: "exploration",
		Rule: "cases = compilable programs without regard to types: every C01 cell (operator x operand class incl. ill-typed) in every syntactic position; every function and directive at every arity 0..4 " +
			"with random argument classes; valid generated bundles rendered with hostile data (every JSON shape at every param, missing params, missing/hostile $ij); the same template name in two files " +
			"in both orders; errors raised at call depth 1..4 across files through data=all / params / content blocks; standalone expressions through parse.Expr+EvalExpr; globals files through " +
			"ParseGlobals; API misuse (non-map data, unknown template); each shard under one setting of ObligatoryPrintDirectiveNames (none, usable, unknown, needing arguments). Monitor: totality only (normal return with result xor error; no panic, no process death, render work budget 10^7 steps, " +
			"CPU limit on isolated re-run). distinct = distinct (program, data); non-trivial = the program reached render (compiled)",
		N: func(tier string) int {
			n := 0
			for _, f := range c06Families {
				n += f.n(tier)
			}
			return n
		},
		// the package-level configuration of the renderer is part of "any": each shard runs under one setting of
		// soyhtml.ObligatoryPrintDirectiveNames (none; usable ones; an unknown one; one that needs arguments)
		Configs: []string{"", "obligatory:escapeHtml", "obligatory:nosuch", "", "obligatory:truncate", "obligatory:id,changeNewlineToBr", "", "obligatory:insertWordBreaks,nosuch"},
		Setup: func(tier string, seed uint64, config string) string {
			c06Config = "obligatory:none"
			if strings.HasPrefix(config, "obligatory:") {
				soyhtml.ObligatoryPrintDirectiveNames = strings.Split(strings.TrimPrefix(config, "obligatory:"), ",")
				c06Config = config
			}
			return ""
		},
		Run: func(ctx *fw.Ctx, i int) fw.Result {
			f, k := c06Locate(ctx.Tier, i)
			ctx.Cell("family:" + f.name)
			ctx.Cell("config:" + c06Config)
			return f.run(ctx, k)
		},
		Floors: func(obs map[string]int64, cells map[string]bool, tier string) []string {
			var why []string
			for _, e := range []string{"entry:Tofu.Render", "entry:Renderer.Execute", "entry:EvalExpr", "entry:ParseGlobals"} {
				if !cells[e] {
					why = append(why, "entry point never exercised: "+e)
				}
			}
			if obs["render_errors"] == 0 || obs["evalexpr_errors"] == 0 || obs["globals_errors"] == 0 {
				why = append(why, "an error return must be observed from every entry point")
			}
			for _, c := range []string{"config:obligatory:none", "config:obligatory:nosuch", "config:obligatory:truncate", "config:obligatory:escapeHtml"} {
				if !cells[c] {
					why = append(why, "renderer configuration never exercised: "+c)
				}
			}
			if obs["errors_from_nested_calls"] == 0 {
				why = append(why, "no error raised inside a nested call")
			}
			return why
		},
		Assumptions: []string{
			"range() calls over more than 200000 elements are finite but huge and are kept out of the workload; the 10^7-step budget is for loops that make no progress",
			"recursion is restricted to none (generated bundles call only later templates)",
		},
	})
}
