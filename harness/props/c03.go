package props

import (
	"bytes"
	"fmt"
	"github.com/robfig/soy/data"
	"github.com/robfig/soy/parse"
	"regexp"
	"strings"
	"unicode/utf8"

	"github.com/robfig/soy/ast"
	"github.com/robfig/soy/soyhtml"
	"github.com/robfig/soy/soyjs"
	"github.com/robfig/soy/soymsg"

	"verif/fw"
	"verif/gen"
	"verif/jsx"
	"verif/ref"
)

var reCharRef = regexp.MustCompile(`^&(amp|lt|gt|quot|apos|#[0-9]{1,7}|#[xX][0-9a-fA-F]{1,6});`)

// htmlSafe checks that s contains none of & < > " ' raw: every & starts a
// well-formed character reference and the only tags are the allowed ones.
func htmlSafe(s string, allowedTags []string) (bool, string) {
	for i := 0; i < len(s); {
		switch s[i] {
		case '&':
			m := reCharRef.FindString(s[i:])
			if m == "" {
				return false, fmt.Sprintf("bare '&' at offset %d (%q)", i, fw.Trim(s[i:], 20))
			}
			i += len(m)
			continue
		case '<':
			ok := false
			for _, t := range allowedTags {
				if strings.HasPrefix(s[i:], t) {
					i += len(t)
					ok = true
					break
				}
			}
			if !ok {
				return false, fmt.Sprintf("raw '<' at offset %d (%q)", i, fw.Trim(s[i:], 20))
			}
			continue
		case '>', '"', '\'':
			return false, fmt.Sprintf("raw %q at offset %d", s[i], i)
		}
		i++
	}
	return true, ""
}

var c03Modes = []string{"", "true", "false", "contextual", "deprecated-contextual"}

var c03Paths = []string{"direct", "let-value", "let-content", "param-value", "param-content", "msg-placeholder", "data-all", "nested-content", "print-after-call", "print-in-loop-around-call", "msg-twin-placeholders", "operator-operand", "attribute-value"}

type c03Chain []ref.Dir

func c03Chains() []c03Chain {
	d := func(name string, args ...int64) ref.Dir {
		dd := ref.Dir{Name: name}
		for _, a := range args {
			dd.Args = append(dd.Args, &ref.Lit{V: ref.Int(a)})
		}
		return dd
	}
	singles := []ref.Dir{d("escapeHtml"), d("changeNewlineToBr"), d("noAutoescape"), d("id"), d("truncate", 5), d("truncate", 30), d("truncate", 2), d("insertWordBreaks", 1), d("insertWordBreaks", 3), d("insertWordBreaks", 8)}
	chains := []c03Chain{{}}
	for _, a := range singles {
		chains = append(chains, c03Chain{a})
		for _, b := range singles {
			chains = append(chains, c03Chain{a, b})
		}
	}
	for _, a := range singles[:5] {
		for _, b := range singles[:5] {
			for _, c := range singles {
				chains = append(chains, c03Chain{a, b, c})
			}
		}
	}
	return chains
}

var c03AllChains = c03Chains()

// judged reports whether the chain is inside what the statement constrains exactly.
func chainJudged(ch c03Chain) (judged bool, wbr bool) {
	escaped := false
	for i, d := range ch {
		switch d.Name {
		case "truncate":
			if escaped {
				return false, false // a cut may split a reference the escaper produced: totality only
			}
		case "insertWordBreaks":
			if i != len(ch)-1 {
				return false, false // break positions are not modelled, so nothing may run after them
			}
			wbr = true
			escaped = true
		case "escapeHtml", "changeNewlineToBr":
			escaped = true
		}
	}
	return true, wbr
}

func chainCancels(ch c03Chain) bool {
	for _, d := range ch {
		if d.Name == "noAutoescape" || d.Name == "id" {
			return true
		}
	}
	return false
}

func chainSrc(ch c03Chain) string {
	var b strings.Builder
	for _, d := range ch {
		b.WriteString("|" + d.Name)
		for i, a := range d.Args {
			if i == 0 {
				b.WriteString(":")
			} else {
				b.WriteString(",")
			}
			b.WriteString(ref.Src(a, ref.PrintStyle{}))
		}
	}
	return b.String()
}

// c03Program builds the bundle for one (path, modes, chain).
func c03Program(path string, nsMode, tMode, cNsMode, cTMode string, ch c03Chain) *ref.Bundle {
	v := &ref.DataRef{Name: "v"}
	pr := func(e ref.Expr, dirs c03Chain) ref.Node { return &ref.Print{E: e, Dirs: dirs} }
	lb, rb := &ref.Raw{Text: "["}, &ref.Raw{Text: "]"}
	main := &ref.Template{Name: "main", Params: []ref.ParamDecl{{Name: "v"}}, Autoescape: tMode}
	callee := &ref.Template{Name: "c", Autoescape: cTMode}
	fa := &ref.File{Name: "a.soy", Namespace: "na", Autoescape: nsMode, Templates: []*ref.Template{main}}
	fb := &ref.File{Name: "b.soy", Namespace: "nb", Autoescape: cNsMode, Templates: []*ref.Template{callee}}
	switch path {
	case "direct":
		main.Body = []ref.Node{lb, pr(v, ch), rb}
	case "let-value":
		main.Body = []ref.Node{&ref.LetVal{Name: "x", E: v}, lb, pr(&ref.DataRef{Name: "x"}, ch), rb}
	case "let-content":
		main.Body = []ref.Node{&ref.LetContent{Name: "x", Body: []ref.Node{pr(v, ch)}}, lb, pr(&ref.DataRef{Name: "x"}, nil), rb}
	case "param-value":
		callee.Params = []ref.ParamDecl{{Name: "p"}}
		callee.Body = []ref.Node{lb, pr(&ref.DataRef{Name: "p"}, ch), rb}
		main.Body = []ref.Node{&ref.CallT{Target: "nb.c", NameSrc: "nb.c", Params: []ref.Param{{Name: "p", E: v}}}}
	case "param-content":
		callee.Params = []ref.ParamDecl{{Name: "p"}}
		callee.Body = []ref.Node{lb, pr(&ref.DataRef{Name: "p"}, nil), rb}
		main.Body = []ref.Node{&ref.CallT{Target: "nb.c", NameSrc: "nb.c", Params: []ref.Param{{Name: "p", IsContent: true, Content: []ref.Node{pr(v, ch)}}}}}
	case "msg-placeholder":
		main.Body = []ref.Node{&ref.Msg{Desc: "d", Body: []ref.Node{&ref.Raw{Text: "["}, pr(v, ch), &ref.Raw{Text: "]"}}}}
	case "msg-twin-placeholders":
		// the same expression twice in one message, once under a cancelling directive and once under the chain
		main.Body = []ref.Node{&ref.Msg{Desc: "d", Body: []ref.Node{&ref.Raw{Text: "("}, pr(v, c03Chain{{Name: "noAutoescape"}}), &ref.Raw{Text: ")["}, pr(v, ch), &ref.Raw{Text: "]"}}}}
	case "data-all":
		callee.Params = []ref.ParamDecl{{Name: "v"}}
		callee.Body = []ref.Node{lb, pr(v, ch), rb}
		main.Body = []ref.Node{&ref.CallT{Target: "nb.c", NameSrc: "nb.c", DataAll: true, SelfClose: true}}
	case "print-after-call":
		// the caller prints after a callee (with its own mode) has run
		callee.Params = []ref.ParamDecl{{Name: "p"}}
		callee.Body = []ref.Node{&ref.Raw{Text: "("}, pr(&ref.DataRef{Name: "p"}, nil), &ref.Raw{Text: ")"}}
		main.Body = []ref.Node{&ref.CallT{Target: "nb.c", NameSrc: "nb.c", Params: []ref.Param{{Name: "p", E: &ref.Lit{V: ref.Str("k")}}}}, lb, pr(v, ch), rb}
	case "print-in-loop-around-call":
		callee.Params = []ref.ParamDecl{{Name: "p"}}
		callee.Body = []ref.Node{&ref.Raw{Text: "("}, pr(&ref.DataRef{Name: "p"}, nil), &ref.Raw{Text: ")"}}
		main.Body = []ref.Node{lb, &ref.Foreach{Var: "i", List: &ref.ListLit{Items: []ref.Expr{&ref.Lit{V: ref.Int(1)}, &ref.Lit{V: ref.Int(2)}}}, Keyword: "foreach",
			Body: []ref.Node{pr(v, ch), &ref.CallT{Target: "nb.c", NameSrc: "nb.c", Params: []ref.Param{{Name: "p", E: &ref.DataRef{Name: "i"}}}}}}, rb}
	case "attribute-value":
		// the print as the value of a URI attribute, a quoted attribute and a single-quoted one: the surrounding
		// template text does not change how the value is escaped
		main.Body = []ref.Node{lb, &ref.Raw{Text: "<a href=\""}, pr(v, ch), &ref.Raw{Text: "\"><img src='"}, pr(v, ch), &ref.Raw{Text: "' title=\""}, pr(v, ch), &ref.Raw{Text: "\">"}, rb}
	case "operator-operand":
		// the value as an operand of the operators that hand an operand through (?: and the ternary) or, in the
		// generated JavaScript, may do so (and / or): whatever reaches the output is escaped like any other value
		main.Body = []ref.Node{lb, pr(&ref.Binary{Op: "?:", L: v, R: v}, ch), &ref.Raw{Text: ";"}, pr(&ref.Tern{C: &ref.Lit{V: ref.Bool(true)}, A: v, B: &ref.Lit{V: ref.Str("no")}}, ch), &ref.Raw{Text: ";"},
			pr(&ref.Binary{Op: "or", L: v, R: v}, ch), &ref.Raw{Text: ";"}, pr(&ref.Binary{Op: "and", L: v, R: v}, ch), &ref.Raw{Text: ";"}, pr(&ref.Binary{Op: "or", L: &ref.Lit{V: ref.Bool(false)}, R: v}, ch), rb}
	case "nested-content":
		// content block inside a content block inside a call: three levels of buffering
		callee.Params = []ref.ParamDecl{{Name: "p"}}
		callee.Body = []ref.Node{lb, pr(&ref.DataRef{Name: "p"}, ch), rb}
		inner := &ref.LetContent{Name: "y", Body: []ref.Node{pr(v, nil)}}
		main.Body = []ref.Node{&ref.CallT{Target: "nb.c", NameSrc: "nb.c", Params: []ref.Param{{Name: "p", IsContent: true, Content: []ref.Node{inner, pr(&ref.DataRef{Name: "y"}, c03Chain{{Name: "noAutoescape"}})}}}}}
	}
	return &ref.Bundle{Files: []*ref.File{fa, fb}}
}

func c03Values(r *fw.Rand, k int) ref.Value {
	hs := gen.HostileStrings()
	if k < len(hs) {
		return ref.Str(hs[k])
	}
	switch r.Intn(8) {
	case 0:
		return ref.Int(int64(r.Intn(2001) - 1000))
	case 1:
		return ref.Float(float64(r.Intn(200)-100) / 4)
	case 2:
		return ref.Bool(r.Bool())
	case 3:
		return ref.Null
	case 4:
		return ref.List(ref.Str(gen.RandomString(r)), ref.Int(1))
	default:
		return ref.Str(gen.RandomString(r))
	}
}

// c03ChangingRegistry: a Tofu that has rendered already, whose registry then grows by a file (template.Registry.Add) or
// is replaced in place (what Bundle.WatchFiles does on a change): a template that arrives later is escaped like any
// other.
func c03ChangingRegistry(ctx *fw.Ctx) *fw.Result {
	val := []string{"<script>alert(\"1\" + '2')</script> & more", "a<b", "\"q\"", "it's", "x&y"}[ctx.Rng.Intn(5)]
	first := "{namespace one}\n/** @param x */\n{template .t}\nfirst:{$x}\n{/template}\n"
	later := "{namespace two}\n/** @param x */\n{template .t}\nlater:{$x}|{call .u}{param x: $x /}{/call}|{call one.t}{param x: $x /}{/call}\n{/template}\n/** @param x */\n{template .u}{$x}{let $w}{$x}{/let}{$w|noAutoescape}{/template}\n"
	variant := ctx.Rng.Intn(2)
	reg, err := compileRegistry([]srcFile{{"one.soy", first}}, nil)
	if err != nil {
		return &fw.Result{Verdict: fw.Inconclusive, Key: "changing-registry-setup", Msg: err.Error()}
	}
	tofu := soyhtml.NewTofu(reg)
	d := data.Map{"x": data.String(val)}
	var buf bytes.Buffer
	if err := tofu.Render(&buf, "one.t", d); err != nil {
		return &fw.Result{Verdict: fw.Inconclusive, Key: "changing-registry-setup", Msg: err.Error()}
	}
	if variant == 0 {
		tree, perr := parse.SoyFile("two.soy", later)
		if perr != nil {
			return &fw.Result{Verdict: fw.Inconclusive, Key: "changing-registry-setup", Msg: perr.Error()}
		}
		if aerr := reg.Add(tree); aerr != nil {
			return &fw.Result{Verdict: fw.Inconclusive, Key: "changing-registry-setup", Msg: aerr.Error()}
		}
	} else {
		reg2, err := compileRegistry([]srcFile{{"one.soy", first}, {"two.soy", later}}, nil)
		if err != nil {
			return &fw.Result{Verdict: fw.Inconclusive, Key: "changing-registry-setup", Msg: err.Error()}
		}
		*reg = *reg2
	}
	buf.Reset()
	rerr := tofu.Render(&buf, "two.t", d)
	ctx.Obs("renders_after_the_registry_changed", 1)
	ctx.Cell("registry-changed-after-first-render")
	esc := strings.NewReplacer("&", "&amp;", "<", "&lt;", ">", "&gt;", "\"", "&quot;", "'", "&#39;").Replace(val)
	want := "later:" + esc + "|" + esc + esc + "|first:" + esc
	if rerr != nil || ref.NormalizeRefs(buf.String()) != ref.NormalizeRefs(want) {
		return &fw.Result{Verdict: fw.Violated, Key: "escaping:template-added-after-first-render", Case: map[string]interface{}{"value": val, "variant": []string{"Registry.Add", "registry replaced in place"}[variant]},
			Msg: fmt.Sprintf("a Tofu rendered once, then its registry %s: rendering the new template wrote %q (err %v), want %q", []string{"got another file through Registry.Add", "was replaced in place"}[variant], buf.String(), rerr, want)}
	}
	return nil
}

func init() {
	nVals := len(gen.HostileStrings())
	fw.Register(&fw.Prop{
		ID:    "C03",
		Level: "exploration",
		Rule: "cases = value x path x modes x chain: values = every byte value, all pairs and triples of & < > \" ', multi-byte/astral runes, entity-like and tag-like text, long runs, non-strings; " +
			"paths = direct print, let value, let content, param value, param content, msg placeholder, data=all, nested content blocks; all 4x4 namespace/template autoescape combinations for " +
			"caller and callee (other namespace); every chain of <= 2 (and many of 3) directives from {escapeHtml, changeNewlineToBr, noAutoescape, id, truncate:n, insertWordBreaks:n}. " +
			"Oracles: (1) exact output = reference renderer modulo reference spelling (and <wbr> positions); (2) safety: in an escaping context without cancelling directive the printed part " +
			"contains no raw special outside well-formed references and the tags the chain's directives add. Systematic part: every value x every path (modes/chains rotating) and every chain x " +
			"every path; rest seeded random. distinct = distinct (value, path, modes, chain); non-trivial = value contains one of the five specials",
		N: func(tier string) int {
			if tier == "thorough" {
				return nVals*len(c03Paths) + len(c03AllChains)*len(c03Paths)*4 + 6000000
			}
			return nVals*len(c03Paths) + len(c03AllChains)*len(c03Paths) + 200000
		},
		Run: func(ctx *fw.Ctx, i int) fw.Result {
			if i%197 == 5 {
				if res := c03ChangingRegistry(ctx); res != nil {
					return *res
				}
			}
			r := ctx.Rng
			nSysV := nVals * len(c03Paths)
			nSysC := len(c03AllChains) * len(c03Paths)
			if ctx.Tier == "thorough" {
				nSysC *= 4
			}
			var val ref.Value
			var path string
			var ch c03Chain
			switch {
			case i < nSysV:
				val = c03Values(r, i%nVals)
				path = c03Paths[i/nVals]
				ch = c03AllChains[(i*7)%len(c03AllChains)]
				if i%3 == 0 {
					ch = nil
				}
			case i < nSysV+nSysC:
				k := i - nSysV
				ch = c03AllChains[k%len(c03AllChains)]
				path = c03Paths[(k/len(c03AllChains))%len(c03Paths)]
				val = ref.Str([]string{"<a href=\"x\">T&C's</a>\nline two is a longerwordthanmost", "a&b<c>d\"e'f\r\ng", "plain text", "&lt;b&gt; &amp;"}[(k/(len(c03AllChains)*len(c03Paths)))%4])
			default:
				val = c03Values(r, nVals+1)
				path = c03Paths[r.Intn(len(c03Paths))]
				ch = c03AllChains[r.Intn(len(c03AllChains))]
			}
			nsMode, tMode := c03Modes[r.Intn(5)], c03Modes[r.Intn(5)]
			cNs, cT := c03Modes[r.Intn(5)], c03Modes[r.Intn(5)]
			if i < 25*25 {
				nsMode, tMode, cNs, cT = c03Modes[i%5], c03Modes[(i/5)%5], c03Modes[(i/25)%5], c03Modes[(i/125)%5]
			}
			b := c03Program(path, nsMode, tMode, cNs, cT, ch)
			fa, fb := b.Files[0], b.Files[1]
			if i%3 == 1 {
				// other files of the same two namespaces, declared with other autoescape modes and added first and last:
				// each file's declaration governs only its own templates
				m1, m2 := c03Modes[r.Intn(5)], c03Modes[r.Intn(5)]
				fz := &ref.File{Name: "z0.soy", Namespace: "na", Autoescape: m1, Templates: []*ref.Template{{Name: "other1", Body: []ref.Node{&ref.Raw{Text: "o"}}}}}
				fy := &ref.File{Name: "z1.soy", Namespace: "nb", Autoescape: m2, Templates: []*ref.Template{{Name: "other2", Body: []ref.Node{&ref.Raw{Text: "o"}}}}}
				if r.Bool() {
					b.Files = append([]*ref.File{fz, fy}, b.Files...)
				} else {
					b.Files = append([]*ref.File{fy}, append(b.Files, fz)...)
				}
				ctx.Cell("shared-namespaces")
			}
			files := bundleSources(b, ref.Layout{})
			d := map[string]ref.Value{"v": val}
			prog := &gen.Program{B: b, Entry: "na.main", Data: d}
			cd := dump(files, prog, d)
			tofu, err := compile(files, nil)
			if err != nil {
				return fw.Result{Verdict: fw.Violated, Key: "compile-rejects-valid", Case: cd, Msg: errText(err)}
			}
			got, rerr := render(tofu, "na.main", d, nil, nil)
			ctx.Cell("path:" + path)
			ctx.Cell("mode:" + nsMode + "/" + tMode)
			for _, dd := range ch {
				ctx.Cell("dir:" + dd.Name)
			}
			special := val.K == ref.KStr && strings.ContainsAny(val.S, "&<>\"'")
			id := ""
			if special {
				id = fmt.Sprintf("%q|%s|%s/%s/%s/%s|%s", val.S, path, nsMode, tMode, cNs, cT, chainSrc(ch))
			}
			ctx.Eval(id)
			if strings.HasPrefix(path, "msg-") && rerr == nil {
				// a catalogue that translates every message into itself must not change a byte
				if reg, cerr := compileRegistry(files, nil); cerr == nil {
					idb := &fakeBundle{msgs: map[uint64]*soymsg.Message{}, locale: "xx"}
					for _, t := range reg.Templates {
						walkAst(t.Node, func(n ast.Node) {
							if m, ok := n.(*ast.MsgNode); ok {
								idb.msgs[m.ID] = soymsg.NewMessage(m.ID, soymsg.PlaceholderString(m))
							}
						})
					}
					got2, rerr2 := render(soyhtml.NewTofu(reg), "na.main", d, nil, idb)
					ctx.Obs("identity_catalogue_renders", 1)
					if rerr2 != nil || got2 != got {
						cd.Got = got2
						return fw.Result{Verdict: fw.Violated, Key: "escaping:identity-catalogue-changes-output@" + path, Case: cd,
							Msg: fmt.Sprintf("value %q via %s chain %q: without a catalogue %q, with a catalogue that maps the message to itself %q (err %v)", fw.Trim(valString(val), 80), path, chainSrc(ch), fw.Trim(got, 200), fw.Trim(got2, 200), rerr2)}
					}
				}
			}
			judged, wbr := chainJudged(ch)
			if wbr && (path == "let-content" || path == "param-content") {
				judged = false // the <wbr> markup is escaped again by the outer print; positions are not modelled
			}
			if !judged {
				ctx.Obs("totality_only", 1)
				return fw.Result{Verdict: fw.Held}
			}
			notes := &ref.RenderNotes{}
			segs, st := ref.Render(b, "na.main", d, ref.RenderOpts{Notes: notes})
			if st == ref.OOD {
				ctx.Obs("out_of_domain", 1)
				return fw.Result{Verdict: fw.Skip}
			}
			gotCmp := got
			if notes.Wbr || wbr {
				if path == "msg-twin-placeholders" && strings.Contains(valString(val), "<wbr>") {
					// the raw copy of the value carries the very markup that is removed before comparing
					ctx.Obs("totality_only", 1)
					return fw.Result{Verdict: fw.Held}
				}
				gotCmp = strings.ReplaceAll(got, "<wbr>", "")
			}
			if r := compareRender(ctx, segs, st, gotCmp, rerr, cd); r != nil {
				cd.Got = got
				r.Key = "escaping:" + r.Key + "@" + path
				r.Msg = fmt.Sprintf("value %q printed via %s with chain %q under modes ns=%q tmpl=%q (callee ns=%q tmpl=%q): %s", fw.Trim(valString(val), 80), path, chainSrc(ch), nsMode, tMode, cNs, cT, r.Msg)
				return *r
			}
			if st != ref.OK {
				return fw.Result{Verdict: fw.Held}
			}
			// which template prints the value, and is it an escaping context?
			printerOn := ref.EffectiveAutoescape(fa, fa.Templates[0])
			if path == "param-value" || path == "data-all" || path == "nested-content" {
				printerOn = ref.EffectiveAutoescape(fb, fb.Templates[0])
			}
			escapingCtx := printerOn && !chainCancels(ch)
			hasEscaper := false
			for _, dd := range ch {
				if dd.Name == "escapeHtml" || dd.Name == "changeNewlineToBr" || dd.Name == "insertWordBreaks" {
					hasEscaper = true
				}
			}
			inner := got
			if l, rr := strings.Index(got, "["), strings.LastIndex(got, "]"); l >= 0 && rr > l {
				inner = got[l+1 : rr]
			}
			if path == "attribute-value" {
				// the three copies of the value sit between fixed pieces of markup
				pre, mid1, mid2, post := "<a href=\"", "\"><img src='", "' title=\"", "\">"
				if !strings.HasPrefix(inner, pre) || !strings.HasSuffix(inner, post) {
					return fw.Result{Verdict: fw.Held}
				}
				body := inner[len(pre) : len(inner)-len(post)]
				a := strings.Index(body, mid1)
				b := strings.LastIndex(body, mid2)
				if a < 0 || b < a {
					return fw.Result{Verdict: fw.Violated, Key: "raw-special-in-escaping-context@" + path, Case: cd,
						Msg: fmt.Sprintf("value %q as attribute values: output %q does not keep the markup between the values apart", fw.Trim(valString(val), 80), fw.Trim(got, 300))}
				}
				inner = body[:a] + "|" + body[a+len(mid1):b] + "|" + body[b+len(mid2):]
			}
			if path == "msg-twin-placeholders" {
				// "(" raw value ")[" value under the chain "]"
				prefix := "(" + valString(val) + ")["
				if !strings.HasPrefix(got, prefix) || !strings.HasSuffix(got, "]") {
					return fw.Result{Verdict: fw.Held} // compared with the reference above; nothing more to slice out
				}
				inner = got[len(prefix) : len(got)-1]
			}
			if escapingCtx || (hasEscaper && !chainCancelsAfterEscaper(ch)) {
				if path == "let-content" || path == "param-content" {
					// the outer print decides: it is in main (let-content) or in the callee (param-content)
					outerOn := ref.EffectiveAutoescape(fa, fa.Templates[0])
					if path == "param-content" {
						outerOn = ref.EffectiveAutoescape(fb, fb.Templates[0])
					}
					if !outerOn && !escapingCtx && !hasEscaper {
						return fw.Result{Verdict: fw.Held}
					}
				}
				var tags []string
				for _, dd := range ch {
					if dd.Name == "changeNewlineToBr" {
						tags = append(tags, "<br>")
					}
					if dd.Name == "insertWordBreaks" {
						tags = append(tags, "<wbr>")
					}
				}
				ctx.Obs("safety_checked", 1)
				if ok, why := htmlSafe(inner, tags); !ok {
					return fw.Result{Verdict: fw.Violated, Key: "raw-special-in-escaping-context@" + path, Case: cd,
						Msg: fmt.Sprintf("value %q via %s chain %q (modes %q/%q, callee %q/%q): output %q: %s", fw.Trim(valString(val), 80), path, chainSrc(ch), nsMode, tMode, cNs, cT, fw.Trim(inner, 200), why)}
				}
				// the same predicate on what the generated JavaScript returns for the same program and value (every
				// 32nd case; values JSON can carry; under node only)
				if (i%32 == 3 || (path == "operator-operand" && i%4 == 3)) && utf8.ValidString(valString(val)) && !strings.HasPrefix(path, "msg-") && path != "attribute-value" {
					if r := c03JSPass(ctx, files, d, val, path, ch, tags, cd); r != nil {
						return *r
					}
				}
			} else {
				ctx.Obs("control_group_raw_passthrough", 1)
			}
			if i%1500 == 0 {
				ctx.Sample(map[string]interface{}{"value": fw.Trim(valString(val), 100), "path": path, "chain": chainSrc(ch), "modes": []string{nsMode, tMode, cNs, cT}, "output": fw.Trim(got, 200)})
			}
			return fw.Result{Verdict: fw.Held}
		},
		Floors: func(obs map[string]int64, cells map[string]bool, tier string) []string {
			var why []string
			for _, p := range c03Paths {
				if !cells["path:"+p] {
					why = append(why, "path never exercised: "+p)
				}
			}
			if obs["control_group_raw_passthrough"] == 0 {
				why = append(why, "no raw pass-through seen in the control group (mode off / cancelling directive): an oracle that passes everything would be invisible")
			}
			if obs["safety_checked"] == 0 {
				why = append(why, "safety predicate never applied")
			}
			return why
		},
		Assumptions: []string{
			"chains in which truncate follows an escaping directive are run for totality only (a cut may split a reference the escaper produced; the statement asks the escapers to escape what passes through them)",
			"insertWordBreaks break positions are not modelled: output compared with <wbr> removed, and the safety predicate sees the raw output",
			"reference spelling (&#34; vs &quot;) is not constrained",
		},
	})
}

func chainCancelsAfterEscaper(ch c03Chain) bool { return false }

func valString(v ref.Value) string {
	s, st := ref.PrintVal(v)
	if st != ref.OK {
		return "<" + v.K.String() + ">"
	}
	return s
}

// c03JSPass renders the program through the generated JavaScript and applies the safety predicate to its output.
func c03JSPass(ctx *fw.Ctx, files []srcFile, d map[string]ref.Value, val ref.Value, path string, ch c03Chain, tags []string, cd interface{}) *fw.Result {
	e, err := engine()
	if err != nil || e.Name() != "node" {
		return nil
	}
	reg, err := compileRegistry(files, nil)
	if err != nil {
		return nil
	}
	js, err := genJS(reg, soyjs.Options{})
	if err != nil {
		return &fw.Result{Verdict: fw.Violated, Key: "js-generation-fails@" + path, Case: cd, Msg: errText(err)}
	}
	if file, err := loadBundleJS(e, reg, js); err != nil {
		if _, isEng := err.(jsx.EngineError); isEng {
			return nil
		}
		return &fw.Result{Verdict: fw.Violated, Key: "js-does-not-load@" + path, Case: cd, Msg: file + ": " + fw.Trim(err.Error(), 300)}
	}
	out, typ, jerr := e.Eval("na.main(" + jsonArg(goData(d)) + ", null, null)")
	if jerr != nil || typ != "string" {
		return nil // what the JavaScript side accepts at all is C04's subject
	}
	inner := out
	if l, rr := strings.Index(out, "["), strings.LastIndex(out, "]"); l >= 0 && rr > l {
		inner = out[l+1 : rr]
	}
	ctx.Obs("safety_checked_js", 1)
	if ok, why := htmlSafe(inner, tags); !ok {
		return &fw.Result{Verdict: fw.Violated, Key: "js:raw-special-in-escaping-context@" + path, Case: map[string]interface{}{"case": cd, "js_output": out, "generated_js": js},
			Msg: fmt.Sprintf("value %q via %s chain %q: the generated JavaScript returns %q: %s", fw.Trim(valString(val), 80), path, chainSrc(ch), fw.Trim(inner, 200), why)}
	}
	return nil
}
