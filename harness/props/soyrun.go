package props

import (
	"bytes"
	"fmt"
	"strings"
	"sync"
	"sync/atomic"

	"github.com/robfig/soy"
	"github.com/robfig/soy/ast"
	"github.com/robfig/soy/data"
	"github.com/robfig/soy/soyhtml"
	"github.com/robfig/soy/soymsg"
	"github.com/robfig/soy/template"

	"verif/fw"
	"verif/gen"
	"verif/ref"
)

// srcFile is one source file handed to the real compiler.
type srcFile struct {
	Name string `json:"name"`
	Text string `json:"text"`
}

func bundleSources(b *ref.Bundle, lay ref.Layout) []srcFile {
	var out []srcFile
	for _, f := range b.Files {
		out = append(out, srcFile{f.Name, ref.FileSrc(f, lay, nil)})
	}
	return out
}

func toData(v ref.Value) data.Value {
	return toDataID(v, map[int]data.Value{})
}

// toDataID converts preserving instance identity: two reference values with the
// same ID become the same data.List / data.Map instance.
func toDataID(v ref.Value, seen map[int]data.Value) data.Value {
	if v.ID != 0 {
		if x, ok := seen[v.ID]; ok {
			return x
		}
	}
	switch v.K {
	case ref.KUndef:
		return data.Undefined{}
	case ref.KNull:
		return data.Null{}
	case ref.KBool:
		return data.Bool(v.B)
	case ref.KInt:
		return data.Int(v.I)
	case ref.KFloat:
		return data.Float(v.F)
	case ref.KStr:
		return data.String(v.S)
	case ref.KList:
		l := make(data.List, len(v.L))
		for i, x := range v.L {
			l[i] = toDataID(x, seen)
		}
		if v.ID != 0 {
			seen[v.ID] = l
		}
		return l
	case ref.KMap:
		m := make(data.Map, len(v.Keys))
		for _, k := range v.Keys {
			m[k] = toDataID(v.M[k], seen)
		}
		if v.ID != 0 {
			seen[v.ID] = m
		}
		return m
	}
	panic("toData")
}

func toDataMap(m map[string]ref.Value) data.Map {
	out := make(data.Map, len(m))
	seen := map[int]data.Value{}
	for k, v := range m {
		out[k] = toDataID(v, seen)
	}
	return out
}

func goData(m map[string]ref.Value) map[string]interface{} {
	out := map[string]interface{}{}
	for k, v := range m {
		out[k] = v.ToGo()
	}
	return out
}

var lastSources []srcFile

// compile hands the sources to the real compiler.
func compile(files []srcFile, globals map[string]ref.Value) (*soyhtml.Tofu, error) {
	lastSources = files
	b := soy.NewBundle()
	for _, f := range files {
		b.AddTemplateString(f.Name, f.Text)
	}
	if len(globals) > 0 {
		b.AddGlobalsMap(toDataMap(globals))
	}
	// every third bundle has been compiled once before: a Bundle may be compiled any number of times, and what is
	// judged is the later compilation
	if atomic.AddInt64(&compileCalls, 1)%3 == 0 {
		b.Compile()
	}
	return b.CompileToTofu()
}

var compileCalls int64

var renderBudgetOnce sync.Once

// armRenderBudget bounds the work of one render through the walk / range-loop hooks:
// generated programs need far fewer than 10^6 steps; exceeding 10^7 aborts the worker
// with a violation naming the loop.
func armRenderBudget() {
	renderBudgetOnce.Do(func() {
		soyhtml.VerifOverBudget = func(kind string, steps int64) {
			site := repoSite(2)
			fw.Abort(97, "render-budget@"+site, fmt.Sprintf("render exceeded 10^7 %s steps at %s: a loop runs unboundedly on finite data", kind, site), nil)
		}
	})
	atomic.StoreInt64(&soyhtml.VerifWalkSteps, 0)
	atomic.StoreInt64(&soyhtml.VerifWorkSteps, 0)
	atomic.StoreInt64(&soyhtml.VerifWorkLimit, 10000000)
}

// render runs the real renderer; the data map is converted freshly each time.
func render(tofu *soyhtml.Tofu, entry string, d map[string]ref.Value, ij *ref.Value, msgs soymsg.Bundle) (string, error) {
	var buf bytes.Buffer
	armRenderBudget()
	fw.CurrentCase = map[string]interface{}{"render": entry, "data": goData(d), "sources": lastSources}
	r := tofu.NewRenderer(entry)
	if ij != nil {
		r.Inject(toData(*ij).(data.Map))
	}
	if msgs != nil {
		r.WithMessages(msgs)
	}
	err := r.Execute(&buf, toDataMap(d))
	return buf.String(), err
}

// caseDump is the materialised form of a program case for replay files and samples.
type caseDump struct {
	Files   []srcFile              `json:"files"`
	Entry   string                 `json:"entry"`
	Data    map[string]interface{} `json:"data"`
	IJ      interface{}            `json:"ij,omitempty"`
	Globals map[string]interface{} `json:"globals,omitempty"`
	Want    string                 `json:"want,omitempty"`
	Got     string                 `json:"got,omitempty"`
	Err     string                 `json:"err,omitempty"`
}

// trimBig shortens what a dump shows of very long strings and lists (the case is regenerated from its index when it is
// replayed; a dump of megabytes per violating case would only fill the logs).
func trimBig(v interface{}) interface{} {
	switch x := v.(type) {
	case string:
		if len(x) > 600 {
			return fmt.Sprintf("%s...(%d bytes in all)...%s", x[:300], len(x), x[len(x)-100:])
		}
	case []interface{}:
		out := make([]interface{}, 0, 24)
		for i, e := range x {
			if i >= 20 {
				out = append(out, fmt.Sprintf("...(%d items in all)", len(x)))
				break
			}
			out = append(out, trimBig(e))
		}
		return out
	case map[string]interface{}:
		out := map[string]interface{}{}
		for k, e := range x {
			out[k] = trimBig(e)
		}
		return out
	}
	return v
}

func dump(files []srcFile, p *gen.Program, d map[string]ref.Value) *caseDump {
	c := &caseDump{Files: files, Entry: p.Entry, Data: trimBig(goData(d)).(map[string]interface{})}
	if p.IJ != nil {
		c.IJ = p.IJ.ToGo()
	}
	if len(p.B.Globals) > 0 {
		c.Globals = goData(p.B.Globals)
	}
	return c
}

// shrinkKey produces a short stable key component from free text (first line, trimmed of volatile parts).
func firstLine(s string) string {
	if i := strings.IndexByte(s, '\n'); i >= 0 {
		s = s[:i]
	}
	return fw.Trim(s, 160)
}

func errText(err error) string {
	if err == nil {
		return ""
	}
	return fw.Trim(fmt.Sprint(err), 600)
}

// identityCatalogue maps every message of the registry that is not a plural to its own text.
func identityCatalogue(reg *template.Registry) *fakeBundle {
	idb := &fakeBundle{msgs: map[uint64]*soymsg.Message{}, locale: "xx"}
	for _, t := range reg.Templates {
		walkAst(t.Node, func(n ast.Node) {
			if m, ok := n.(*ast.MsgNode); ok {
				for _, c := range m.Body.Children() {
					if _, isPl := c.(*ast.MsgPluralNode); isPl {
						return
					}
				}
				idb.msgs[m.ID] = soymsg.NewMessage(m.ID, soymsg.PlaceholderString(m))
			}
		})
	}
	return idb
}
