package props

import (
	"bytes"
	"fmt"
	"io"
	"strings"
	"sync/atomic"

	"github.com/robfig/soy/soymsg/pomsg"

	"github.com/robfig/soy"
	"github.com/robfig/soy/ast"
	"github.com/robfig/soy/data"
	"github.com/robfig/soy/soyhtml"
	"github.com/robfig/soy/soyjs"
	"github.com/robfig/soy/soymsg"
	"github.com/robfig/soy/template"

	"verif/fw"
	"verif/gen"
	"verif/mon"
	"verif/ref"
)

// fakeBundle is a message bundle owned by the harness.
type fakeBundle struct {
	msgs   map[uint64]*soymsg.Message
	locale string
}

func (b *fakeBundle) Locale() string                    { return b.locale }
func (b *fakeBundle) Message(id uint64) *soymsg.Message { return b.msgs[id] }
func (b *fakeBundle) PluralCase(n int) int {
	if n == 1 {
		return 0
	}
	return 1
}

func walkAst(n ast.Node, f func(ast.Node)) {
	if n == nil {
		return
	}
	f(n)
	if p, ok := n.(ast.ParentNode); ok {
		for _, c := range p.Children() {
			if c != nil {
				walkAst(c, f)
			}
		}
	}
}

// translationsFor builds a bundle that translates every non-plural message by wrapping it.
func translationsFor(reg *template.Registry) *fakeBundle {
	b := &fakeBundle{msgs: map[uint64]*soymsg.Message{}, locale: "xx"}
	for _, t := range reg.Templates {
		walkAst(t.Node, func(n ast.Node) {
			m, ok := n.(*ast.MsgNode)
			if !ok {
				return
			}
			for _, c := range m.Body.Children() {
				if _, isPl := c.(*ast.MsgPluralNode); isPl {
					return
				}
			}
			b.msgs[m.ID] = soymsg.NewMessage(m.ID, "«"+soymsg.PlaceholderString(m)+"»")
		})
	}
	return b
}

// translationsEmptying is translationsFor with one message in seven translated into nothing at all (a translation with
// nothing in it is a translation too).
func translationsEmptying(reg *template.Registry) *fakeBundle {
	b := translationsFor(reg)
	for id := range b.msgs {
		if id%7 == 0 {
			b.msgs[id] = soymsg.NewMessage(id, "")
		}
	}
	return b
}

// translationsWithPlurals is translationsFor plus plural messages: two forms (the fake bundle picks form 0 for n = 1, form 1
// otherwise), each the wrapped text of the {case 1} / {default} body. For renders by the Go backend (the generated
// JavaScript would need a plural selector in the runtime).
func translationsWithPlurals(reg *template.Registry) *fakeBundle {
	b := translationsEmptying(reg)
	braced := func(body ast.ParentNode) (string, bool) {
		var sb strings.Builder
		for _, c := range body.Children() {
			switch c := c.(type) {
			case *ast.RawTextNode:
				sb.Write(c.Text)
			case *ast.MsgPlaceholderNode:
				sb.WriteString("{" + c.Name + "}")
			default:
				return "", false
			}
		}
		return sb.String(), true
	}
	for _, t := range reg.Templates {
		walkAst(t.Node, func(n ast.Node) {
			m, ok := n.(*ast.MsgNode)
			if !ok || len(m.Body.Children()) != 1 {
				return
			}
			pl, ok := m.Body.Children()[0].(*ast.MsgPluralNode)
			if !ok {
				return
			}
			other, ok := braced(pl.Default)
			if !ok {
				return
			}
			one := other
			for _, c := range pl.Cases {
				if c.Value == 1 {
					if s, ok := braced(c.Body); ok {
						one = s
					}
				}
			}
			b.msgs[m.ID] = &soymsg.Message{ID: m.ID, Parts: []soymsg.Part{soymsg.PluralPart{VarName: pl.VarName, Cases: []soymsg.PluralCase{
				{Spec: soymsg.PluralSpec{Type: soymsg.PluralSpecOther, ExplicitValue: -1}, Parts: soymsg.Parts("«1:" + one + "»")},
				{Spec: soymsg.PluralSpec{Type: soymsg.PluralSpecOther, ExplicitValue: -1}, Parts: soymsg.Parts("«n:" + other + "»")},
			}}}}
		})
	}
	return b
}

func compileRegistry(files []srcFile, globals map[string]ref.Value) (*template.Registry, error) {
	b := soy.NewBundle()
	for _, f := range files {
		b.AddTemplateString(f.Name, f.Text)
	}
	if len(globals) > 0 {
		b.AddGlobalsMap(toDataMap(globals))
	}
	if atomic.AddInt64(&compileCalls, 1)%3 == 0 {
		b.Compile() // (see compile)
	}
	return b.Compile()
}

// configure installs the process-level configuration of the user-extensible registries.
func configureRegistries(config string) {
	bang := soyhtml.PrintDirective{Apply: func(v data.Value, _ []data.Value) data.Value { return data.String(v.String() + "!") }, ValidArgLengths: []int{0}}
	switch config {
	case "oblig1":
		soyhtml.PrintDirectives["verifBang"] = bang
		soyhtml.ObligatoryPrintDirectiveNames = []string{"verifBang"}
	case "oblig2":
		soyhtml.PrintDirectives["verifBang"] = bang
		soyhtml.ObligatoryPrintDirectiveNames = []string{"verifBang", "id"}
	case "oblig-builtin":
		soyhtml.ObligatoryPrintDirectiveNames = []string{"noAutoescape"}
	case "custom":
		soyhtml.PrintDirectives["verifBang"] = bang
		soyjs.PrintDirectives["verifBang"] = soyjs.PrintDirective{Name: "verif.bang", CancelAutoescape: false}
		soyhtml.Funcs["verifTwice"] = soyhtml.Func{Apply: func(a []data.Value) data.Value { return data.String(a[0].String() + a[0].String()) }, ValidArgLengths: []int{1}}
		soyjs.Funcs["verifTwice"] = soyjs.Func{Name: "verifTwice", Apply: func(js soyjs.JSWriter, args []ast.Node) { js.Write("verif.twice(", args[0], ")") }, ValidArgLengths: []int{1}}
	}
}

// callFormsFile pins the ways a call can hand the caller's own maps to a callee together with explicit params:
// whatever expression yields the map, the params must never be written into it.
const callFormsFile = `{namespace pr}
/**
 * @param? m
 * @param? c
 */
{template .callforms}
{if isNonnull($m)}
{call .show data="$m"}{param a: 1 /}{/call}
{call .show data="augmentMap($m, [:])"}{param a: 2 /}{/call}
{call .show data="augmentMap([:], $m)"}{param s: 'x' /}{/call}
{call .show data="$m ?: $m"}{param a: 3 /}{/call}
{call .show data="$c ? $m : $m"}{param s}content{/param}{/call}
{call .show data="['k': $m].k"}{param a: 4 /}{/call}
{let $alias: $m /}{call .show data="$alias"}{param a: 5 /}{param extra: 'e' /}{/call}
{call .show data="all"}{param a: 6 /}{/call}
[{$m.a}|{$m.s}|{$m.extra ?: 'no-extra'}]
{/if}
{/template}
/** @param? m */
{template .pluralforms}
{msg desc="one node in the default case"}{plural length(keys($m ?: [:]))}{case 1}One apple for {$m?.s}{default}Several{/plural}{/msg}
{msg desc="lone placeholder"}{plural 2}{case 1}a{default}{$m?.a}{/plural}{/msg}
{msg desc="three cases"}{plural 0}{case 0}none for {$m?.s}{case 1}one{default}{$m?.a} many for {$m?.s}{/plural}{/msg}
{/template}
/** */
{template .samewords1}
{let $n: 2 /}{msg desc="counted by n"}{plural $n}{case 1}One apple{default}Several apples{/plural}{/msg}{msg desc="plain"}Several apples{/msg}
{/template}
/** */
{template .samewords2}
{let $count: 2 /}{msg desc="counted by count"}{plural $count}{case 1}One apple{default}Several apples{/plural}{/msg}
{/template}
/**
 * @param? m
 * @param? c
 */
{template .sf1}
{foreach $x in []}a{ifempty}e{/foreach}
{let $note: 'draft' /}{let $a: 'leak-a' /}{let $s}leak-s{/let}{let $extra: 'leak-x' /}{$note}{$a}{$s}{$extra}{$c ? 1 : 0}
{call .show data="all" /}{if isNonnull($m)}{call .show data="$m" /}{/if}
{/template}
/**
 * @param? m
 * @param? c
 */
{template .sf2}
{foreach $x in []}a{ifempty}e{/foreach}{foreach $x in []}a{ifempty}e{/foreach}
{let $note: 'draft' /}{let $a: 'leak-a' /}{let $s}leak-s{/let}{let $extra: 'leak-x' /}{$note}{$a}{$s}{$extra}{$c ? 1 : 0}
{call .show data="all" /}{if isNonnull($m)}{call .show data="$m" /}{/if}
{/template}
/**
 * @param? m
 * @param? c
 */
{template .sf3}
{foreach $x in []}a{ifempty}e{/foreach}{foreach $x in []}a{ifempty}e{/foreach}{foreach $x in []}a{ifempty}e{/foreach}
{let $note: 'draft' /}{let $a: 'leak-a' /}{let $s}leak-s{/let}{let $extra: 'leak-x' /}{$note}{$a}{$s}{$extra}{$c ? 1 : 0}
{call .show data="all" /}{if isNonnull($m)}{call .show data="$m" /}{/if}
{/template}
/**
 * @param? m
 * @param? c
 */
{template .sf4}
{foreach $x in []}a{ifempty}e{/foreach}{foreach $x in []}a{ifempty}e{/foreach}{foreach $x in []}a{ifempty}e{/foreach}{foreach $x in []}a{ifempty}e{/foreach}
{let $note: 'draft' /}{let $a: 'leak-a' /}{let $s}leak-s{/let}{let $extra: 'leak-x' /}{$note}{$a}{$s}{$extra}{$c ? 1 : 0}
{call .show data="all" /}{if isNonnull($m)}{call .show data="$m" /}{/if}
{/template}
/**
 * @param? m
 * @param? c
 */
{template .sfi1}
{foreach $z in [1, 2]}{foreach $x in []}a{ifempty}e{/foreach}
{let $note: 'draft' /}{let $a: 'leak-a' /}{let $s}leak-s{/let}{let $extra: 'leak-x' /}{$note}{$a}{$s}{$extra}{$c ? 1 : 0}{/foreach}
{call .show data="all" /}{if isNonnull($m)}{call .show data="$m" /}{/if}
{/template}
/**
 * @param? m
 * @param? c
 */
{template .sfi2}
{foreach $z in [1, 2]}{foreach $x in []}a{ifempty}e{/foreach}{foreach $x in []}a{ifempty}e{/foreach}
{let $note: 'draft' /}{let $a: 'leak-a' /}{let $s}leak-s{/let}{let $extra: 'leak-x' /}{$note}{$a}{$s}{$extra}{$c ? 1 : 0}{/foreach}
{call .show data="all" /}{if isNonnull($m)}{call .show data="$m" /}{/if}
{/template}
/**
 * @param? m
 * @param? c
 */
{template .sfi3}
{foreach $z in [1, 2]}{foreach $x in []}a{ifempty}e{/foreach}{foreach $x in []}a{ifempty}e{/foreach}{foreach $x in []}a{ifempty}e{/foreach}
{let $note: 'draft' /}{let $a: 'leak-a' /}{let $s}leak-s{/let}{let $extra: 'leak-x' /}{$note}{$a}{$s}{$extra}{$c ? 1 : 0}{/foreach}
{call .show data="all" /}{if isNonnull($m)}{call .show data="$m" /}{/if}
{/template}
/**
 * @param? title
 * @param? note
 */
{template .d0}{$title ?: ''}{call .d1 data="all" /}{/template}
/**
 * @param? title
 * @param? note
 */
{template .d1}{$title ?: ''}{call .d2 data="all" /}{/template}
/**
 * @param? title
 * @param? note
 */
{template .d2}{$title ?: ''}{call .d3 data="all" /}{/template}
/**
 * @param? title
 * @param? note
 */
{template .d3}{$title ?: ''}{call .d4 data="all" /}{/template}
/**
 * @param? title
 * @param? note
 */
{template .d4}{$title ?: ''}{call .d5 data="all" /}{/template}
/**
 * @param? title
 * @param? note
 */
{template .d5}{$title ?: ''}{call .d6 data="all" /}{/template}
/**
 * @param? title
 * @param? note
 */
{template .d6}{$title ?: ''}{call .d7 data="all" /}{/template}
/**
 * @param? title
 * @param? note
 */
{template .d7}{$title ?: ''}{call .d8 data="all" /}{/template}
/**
 * @param? title
 * @param? note
 */
{template .d8}{$title ?: ''}{call .d9 data="all"}{param note: 'set by d8' /}{/call}{/template}
/**
 * @param? title
 * @param? note
 */
{template .d9}{$title ?: ''}{call .d10 data="all"}{param note: 'set by d9' /}{/call}{/template}
/**
 * @param? title
 * @param? note
 */
{template .d10}{$title ?: ''}{call .d11 data="all"}{param note: 'set by d10' /}{/call}{/template}
/**
 * @param? title
 * @param? note
 */
{template .d11}[{$title ?: 'nt'}|{$note ?: 'nn'}]{/template}
/**
 * @param? m
 * @param? c
 */
{template .scopeforms}
{for $i in range(0)}x{ifempty}e{/for}{let $note: 'draft' /}{for $i in range(0)}x{/for}{foreach $y in []}y{/foreach}{let $a: 'leak-a' /}{for $i in range(0)}x{ifempty}e{/for}
{if $c}{let $extra: 'leak-extra' /}{$extra}{/if}{if not $c}{let $extra: 'leak-extra0' /}{$extra}{/if}{switch 3}{case 1}one{/switch}{switch 3}{case 1}one{default}{let $count: 9 /}{$count}{/switch}
{let $extra: 'leak-extra2' /}{$note}{$a}{$extra}
{foreach $z in [1, 2]}{if $z == 1}{foreach $x in []}a{ifempty}e{/foreach}{/if}{let $name: $z /}{$name}{/foreach}
{call .show data="all" /}{call .structshow data="all" /}{if isNonnull($m)}{call .show data="$m" /}{/if}
{/template}
/** @param? m */
{template .funcforms}
{randomInt(1)}{randomInt(1) + length(keys(augmentMap(['a': 1], ['b': 2])))}|{round(2.567, 2)}|{round(2.5)}|{floor(2.5)}|{ceiling(2.5)}|{min(1, 2.5)}|{max(1, 2)}|{strContains('abc', 'b')}|{length(range(3))}|{hasData()}|{isNonnull($m)}
{foreach $x in range(1, 7, 2)}{index($x)}{isFirst($x)}{isLast($x)}{/foreach}
{foreach $k in keys(['b': 1, 'a': 2, 'd': 3, 'c': 4, 'e': 5, 'f': 6])}{$k}{/foreach}|{keys(['q': 1, 'p': 2, 'r': 3, 's': 4])}|{if isNonnull($m)}{foreach $k in keys($m)}{$k}{/foreach}{/if}
{let $r1: range(5) /}{let $r2: range(5) /}{let $k1: keys(['a': 1]) /}
[fresh:{range(3) == range(4) ? 'S' : 'D'}{range(300) == range(1000) ? 'S' : 'D'}{range(2, 9) == range(2, 9) ? 'S' : 'D'}{$r1 == $r2 ? 'S' : 'D'}{$k1 == keys(['a': 1]) ? 'S' : 'D'}{augmentMap(['a': 1], ['b': 2]) == augmentMap(['a': 1], ['b': 2]) ? 'S' : 'D'}{$r1 == $r1 ? 'S' : 'D'}]
{/template}
/** @param? m */
{template .dirforms}
{let $v: $m?.s ?: 'a <b> & c' /}
{$v|id|escapeHtml}{$v|noAutoescape|truncate:3}{$v|id|insertWordBreaks:3}{$v|insertWordBreaks:2}{$v|changeNewlineToBr}{$v|changeNewlineToBr|id}
{$v|escapeHtml|noAutoescape}{$v|truncate:4|id}{$v|escapeUri|id}{$v|id|escapeJsString}{$v|json}{$v|noAutoescape|changeNewlineToBr|insertWordBreaks:5}{$v|id}{$v}
{/template}
/**
 * @param? a
 * @param? s
 * @param? extra
 */
{template .show}({$a ?: 'na'},{$s ?: 'ns'},{$extra ?: 'nx'}){/template}
/**
 * @param? name
 * @param? count
 * @param? title
 * @param? tags
 * @param? inner
 * @param? unitPrice
 */
{template .structshow}<{$name ?: 'nn'}/{$count ?: 'nc'}/{$title ?: 'nt'}/{$tags ? length($tags) : 'x'}/{$inner ? $inner.depth : 'ni'}/{$unitPrice ?: 'nu'}>{/template}
`

const customFile = "{namespace cust}\n/** @param? a */\n{template .t}\n{verifTwice($a ?: 'q')|verifBang}{$a|verifBang|truncate:3}\n{/template}\n"

type c08Op struct {
	kind   string // render | js
	tmpl   string
	data   int // index into data pool
	ij     bool
	msgs   bool
	file   int
	es6    bool
	viaGen bool
}

func (o c08Op) String() string {
	if o.kind == "render" {
		return fmt.Sprintf("render %s data#%d ij=%v msgs=%v", o.tmpl, o.data, o.ij, o.msgs)
	}
	if o.kind == "reconf" {
		return "replace the custom function and directive of the JavaScript backend"
	}
	return fmt.Sprintf("js file#%d es6=%v msgs=%v generator=%v", o.file, o.es6, o.msgs, o.viaGen)
}

// c08World is a compiled bundle plus the shared inputs of a history.
type c08World struct {
	reg     *template.Registry
	tofu    *soyhtml.Tofu
	datas   []data.Map
	ij      data.Map
	ijFirst data.Map // injected before ij by some renders (and replaced by it)
	msgs    *fakeBundle
	// prov is a catalogue written as a PO file and loaded by the library's own loader (locale fr only: fr_CA, fr-BE ...
	// reach it through the locale fallback); nil when the bundle has no message a PO file can carry
	prov  soymsg.Provider
	jsgen *soyjs.Generator // one generator for the whole history (and for all goroutines of C09)
}

type memOpener map[string]string

func (m memOpener) Open(locale string) (io.ReadCloser, error) {
	if s, ok := m[locale]; ok {
		return io.NopCloser(strings.NewReader(s)), nil
	}
	return nil, nil
}

// realCatalogue writes a French catalogue for the registry (every message translated into its own marked text) and
// loads it through pomsg.Load.
func realCatalogue(reg *template.Registry) soymsg.Provider {
	var b strings.Builder
	b.WriteString("msgid \"\"\nmsgstr \"\"\n\"Content-Type: text/plain; charset=UTF-8\\n\"\n\"Plural-Forms: nplurals=2; plural=(n > 1);\\n\"\n\n")
	seen := map[uint64]bool{}
	n := 0
	for _, t := range reg.Templates {
		walkAst(t.Node, func(nd ast.Node) {
			m, ok := nd.(*ast.MsgNode)
			if !ok || seen[m.ID] || pomsg.Validate(m) != nil {
				return
			}
			seen[m.ID] = true
			n++
			var pl *ast.MsgPluralNode
			if ch := m.Body.Children(); len(ch) == 1 {
				pl, _ = ch[0].(*ast.MsgPluralNode)
			}
			if pl != nil {
				fmt.Fprintf(&b, "#: id=%d var=%s\n", m.ID, pl.VarName)
			} else {
				fmt.Fprintf(&b, "#: id=%d\n", m.ID)
			}
			if m.Meaning != "" {
				b.WriteString("msgctxt " + poQuote(m.Meaning) + "\n")
			}
			id := pomsg.Msgid(m)
			if pl != nil {
				idp := pomsg.MsgidPlural(m)
				b.WriteString("msgid " + poQuote(id) + "\nmsgid_plural " + poQuote(idp) + "\nmsgstr[0] " + poQuote("‹"+id+"›") + "\nmsgstr[1] " + poQuote("‹‹"+idp+"››") + "\n\n")
			} else {
				b.WriteString("msgid " + poQuote(id) + "\nmsgstr " + poQuote("‹"+id+"›") + "\n\n")
			}
		})
	}
	if n == 0 {
		return nil
	}
	prov, err := pomsg.Load(memOpener{"fr": b.String()}, []string{"fr", "de"})
	if err != nil {
		return nil
	}
	return prov
}

func newWorld(files []srcFile, globals map[string]ref.Value, datas []map[string]ref.Value, ij *ref.Value) (*c08World, error) {
	reg, err := compileRegistry(files, globals)
	if err != nil {
		return nil, err
	}
	w := &c08World{reg: reg, tofu: soyhtml.NewTofu(reg), msgs: translationsWithPlurals(reg), prov: realCatalogue(reg), jsgen: soyjs.NewGenerator(reg)}
	// the locale the bundle reports: left-to-right, right-to-left and unknown ones (the same for every world of one bundle)
	if len(files) > 0 {
		w.msgs.locale = []string{"xx", "ar_EG", "en_US", "he", "fa_IR", "ur", "zh-Hant"}[fw.HashStr(files[0].Text)%7]
	}
	for _, d := range datas {
		w.datas = append(w.datas, toDataMap(d))
	}
	if ij != nil {
		w.ij = toData(*ij).(data.Map)
		w.ijFirst = data.Map{"user": data.String("first"), "onlyInFirst": data.Int(1), "nums": data.List{data.Int(99)}}
	}
	return w, nil
}

// c08Reconfigure replaces the custom function and directive of the JavaScript backend by other implementations (the
// registries are the user's to change at any time; what is generated afterwards follows them).
var c08Variant int

func c08Reconfigure() {
	c08Variant++
	v := c08Variant
	soyjs.PrintDirectives["verifBang"] = soyjs.PrintDirective{Name: fmt.Sprintf("verif.bang%d", v%3), CancelAutoescape: false}
	soyjs.Funcs["verifTwice"] = soyjs.Func{Name: "verifTwice", Apply: func(js soyjs.JSWriter, args []ast.Node) { js.Write(fmt.Sprintf("verif.twice%d(", v%3), args[0], ")") }, ValidArgLengths: []int{1}}
}

func (w *c08World) exec(o c08Op) (out string, err error) {
	var buf bytes.Buffer
	if o.kind == "reconf" {
		return "", nil // (the registries were changed by the history loop, once, before both worlds run what follows)
	}
	if o.kind == "render" {
		armRenderBudget()
		r := w.tofu.NewRenderer(o.tmpl)
		if o.ij && w.ij != nil {
			if (o.data+len(o.tmpl))%3 == 0 {
				// injected twice: the later map is the one in force, and neither is touched
				r.Inject(w.ijFirst)
			}
			r.Inject(w.ij)
		}
		if o.msgs {
			if w.prov != nil && (o.data/2+len(o.tmpl))%2 == 0 {
				// the library's own catalogue, looked up under a locale that only the fallback chain resolves
				if bd := w.prov.Bundle([]string{"fr", "fr_CA", "fr-BE", "fr_FR"}[(o.data/2+len(o.tmpl))%4]); bd != nil {
					r.WithMessages(bd)
				}
			} else {
				r.WithMessages(w.msgs)
			}
		}
		err = r.Execute(&buf, w.datas[o.data])
		return buf.String(), err
	}
	sf := w.reg.SoyFiles[o.file%len(w.reg.SoyFiles)]
	if o.viaGen {
		err = w.jsgen.WriteFile(&buf, sf.Name)
		return buf.String(), err
	}
	opts := soyjs.Options{}
	if o.es6 {
		opts.Formatter = &soyjs.ES6Formatter{}
	}
	if o.msgs {
		opts.Messages = w.msgs
	}
	err = soyjs.Write(&buf, sf, opts)
	return buf.String(), err
}

func errClass(err error) string {
	if err == nil {
		return "ok"
	}
	return "error"
}

// c08Setup builds the sources, data pool and op list of one history.
func c08History(r *fw.Rand, tier, config string, nops int) (files []srcFile, prog *gen.Program, datas []map[string]ref.Value, ops []c08Op) {
	g := &gen.G{R: r}
	g.O = c02Opts(r, tier)
	g.O.Msgs = true
	g.O.IJ = r.P(2, 3)
	prog = g.Bundle(1+r.Intn(3), 3+r.Intn(3))
	files = bundleSources(prog.B, ref.Layout{})
	if config == "custom" {
		files = append(files, srcFile{"custom.soy", customFile})
	}
	files = append(files, srcFile{"callforms.soy", callFormsFile})
	// two files laid out alike byte for byte, whose print commands sit at the same offsets and differ only in their
	// directive arguments: what a command does is a matter of the command, not of where it sits
	files = append(files, srcFile{"twina.soy", "{namespace twa}\n/** */\n{template .t}\n{'abcdefgh'|truncate:3,false}{'abcdefgh'|truncate:4,false}{'<b>'|escapeHtml}\n{/template}\n"},
		srcFile{"twinb.soy", "{namespace twb}\n/** */\n{template .t}\n{'abcdefgh'|truncate:5,false}{'abcdefgh'|truncate:2,false}{'<b>'|noAutoescape}\n{/template}\n"})
	datas = []map[string]ref.Value{prog.Data, g.NewData(prog), {}}
	for k, d := range datas[:2] {
		if _, has := d["m"]; !has {
			mv := ref.MapOf("a", ref.Int(int64(70+k)), "s", ref.Str("shared"))
			mv.ID = 4000 + k
			d["m"] = mv
		}
		if _, has := d["c"]; !has {
			d["c"] = ref.Bool(k == 0)
		}
	}
	// a hostile data map: wrong kinds everywhere, to make renders fail part-way
	h := map[string]ref.Value{}
	hv := hostileValues()
	for k := range prog.Data {
		h[k] = hv[r.Intn(len(hv))]
	}
	datas = append(datas, h)
	var names []string
	for _, f := range prog.B.Files {
		for _, t := range f.Templates {
			names = append(names, f.FQ(t))
		}
	}
	if config == "custom" {
		names = append(names, "cust.t")
	}
	names = append(names, "pr.d0", "pr.d0", "pr.d3", "pr.scopeforms", "pr.sf1", "pr.sf2", "pr.sf3", "pr.sf4", "pr.sfi1", "pr.sfi2", "pr.sfi3", "pr.callforms", "pr.callforms", "pr.dirforms", "pr.funcforms", "pr.pluralforms", "pr.pluralforms", "pr.samewords1", "pr.samewords2", "pr.samewords2", "pr.samewords1", "twa.t", "twb.t", "twb.t", "twa.t")
	for k := 0; k < nops; k++ {
		if config == "custom" && r.P(1, 10) {
			ops = append(ops, c08Op{kind: "reconf"})
			continue
		}
		if r.P(1, 4) {
			op := c08Op{kind: "js", file: r.Intn(64), es6: r.Bool(), msgs: r.P(1, 3), viaGen: r.P(1, 4)}
			if config == "custom" && r.Bool() {
				// the file that uses the custom function and directive, often through the long-lived generator
				op.file, op.viaGen = len(prog.B.Files), r.Bool()
			}
			ops = append(ops, op)
			continue
		}
		name := prog.Entry
		if r.P(1, 2) {
			name = names[r.Intn(len(names))]
		}
		ops = append(ops, c08Op{kind: "render", tmpl: name, data: r.Intn(len(datas)), ij: r.P(3, 4), msgs: r.P(1, 3)})
	}
	return
}

// c08ReplacedRegistry: the registry under a Tofu is replaced in place by a newer compilation of edited sources (what
// Bundle.WatchFiles does when a file changes). What the Tofu renders afterwards is what a Tofu made from the newer
// compilation renders - whatever it had rendered before the change.
func c08ReplacedRegistry(ctx *fw.Ctx) *fw.Result {
	src := func(gen string) []srcFile {
		return []srcFile{{"page.soy", "{namespace ns}\n/** @param? x */\n{template .page}\n" + gen + ":{call .part data=\"all\" /}{call other.t /}\n{/template}\n/** @param? x */\n{template .part}[" + gen + "-part {$x ?: 'nx'}]{/template}\n"},
			{"other.soy", "{namespace other}\n/** */\n{template .t}(" + gen + "-other){/template}\n"}}
	}
	oldReg, err := compileRegistry(src("first"), nil)
	if err != nil {
		return &fw.Result{Verdict: fw.Inconclusive, Key: "replaced-registry-setup", Msg: err.Error()}
	}
	newReg, err := compileRegistry(src("second"), nil)
	if err != nil {
		return &fw.Result{Verdict: fw.Inconclusive, Key: "replaced-registry-setup", Msg: err.Error()}
	}
	freshReg, _ := compileRegistry(src("second"), nil)
	tofu := soyhtml.NewTofu(oldReg)
	warm := ctx.Rng.Intn(3) // how much the Tofu renders before the change: nothing, the page, the page and its parts
	var buf bytes.Buffer
	d := data.Map{"x": data.String("v")}
	if warm >= 1 {
		tofu.Render(&buf, "ns.page", d)
	}
	if warm >= 2 {
		tofu.Render(&buf, "ns.part", d)
		tofu.Render(&buf, "other.t", nil)
	}
	*oldReg = *newReg
	for _, name := range []string{"ns.page", "ns.part", "other.t", "ns.page"} {
		var got, want bytes.Buffer
		gerr := tofu.Render(&got, name, d)
		werr := soyhtml.NewTofu(freshReg).Render(&want, name, d)
		if errClass(gerr) != errClass(werr) || got.String() != want.String() {
			return &fw.Result{Verdict: fw.Violated, Key: "history-dependent-output:registry-replaced", Case: map[string]interface{}{"rendered_before_the_change": warm, "template": name},
				Msg: fmt.Sprintf("after the registry was replaced in place, %s renders %q (err %v); a Tofu made from the newer compilation renders %q (the Tofu had rendered %d templates before the change)", name, got.String(), gerr, want.String(), warm)}
		}
	}
	ctx.Obs("registries_replaced_in_place", 1)
	return nil
}

func init() {
	fw.Register(&fw.Prop{
		ID:    "C08",
		Level: "exploration",
		Rule: "cases = histories of 20 (thorough 200) operations over one compiled bundle (C02 generator with messages and $ij): renders of any template with 4 data maps (valid, fresh, empty, hostile -> " +
			"failing part-way), with/without $ij and a translation bundle, soyjs.Write ES5/ES6 +-messages, Generator.WriteFile. After EVERY operation a deep structural digest (reflect walk incl. " +
			"unexported fields, slice lengths, map entries, pointer identities) of the template.Registry, of every data map, of $ij and of the message bundle must equal its value before the " +
			"operation, and the operation's output/error must equal what the same operation returns on a freshly compiled bundle. Each worker process runs one registry configuration: default, " +
			"one / two obligatory print directives (custom), obligatory built-in directive, custom function+directive. distinct = distinct history; non-trivial = history contains a failing render and a JS generation",
		Configs: []string{"default", "oblig1", "oblig2", "oblig-builtin", "custom", "default", "oblig1", "custom"},
		N: func(tier string) int {
			if tier == "thorough" {
				return 30000
			}
			return 2000
		},
		Setup: func(tier string, seed uint64, config string) string {
			configureRegistries(config)
			c08Config = config
			return ""
		},
		Run: func(ctx *fw.Ctx, i int) fw.Result {
			if i%50 == 7 {
				if res := c08ReplacedRegistry(ctx); res != nil {
					return *res
				}
			}
			nops := 20
			if ctx.Tier == "thorough" {
				nops = 200
				if i%10 != 0 {
					nops = 40
				}
			}
			files, prog, datas, ops := c08History(ctx.Rng, ctx.Tier, c08Config, nops)
			ctx.Cell("config:" + c08Config)
			w, err := newWorld(files, prog.B.Globals, datas, prog.IJ)
			if err != nil {
				return fw.Result{Verdict: fw.Skip}
			}
			digestAll := func() [4]uint64 {
				var d [4]uint64
				d[0] = mon.Digest(w.reg)
				d[1] = mon.Digest(w.datas)
				d[2] = mon.Digest(w.ij) ^ (mon.Digest(w.ijFirst) * 31)
				d[3] = mon.Digest(w.msgs)
				return d
			}
			_, visited := mon.DigestCount(w.reg)
			ctx.Max("max_registry_values_digested", float64(visited))
			names := [4]string{"compiled-bundle", "data-map", "injected-data", "message-bundle"}
			failing, js := 0, 0
			var hist []string
			for k, op := range ops {
				hist = append(hist, op.String())
				if op.kind == "reconf" {
					c08Reconfigure()
					ctx.Obs("registry_reconfigurations", 1)
					continue
				}
				before := digestAll()
				out, err := w.exec(op)
				after := digestAll()
				ctx.Obs("operations", 1)
				ctx.Obs("digests_taken", 8)
				if op.kind == "render" && op.tmpl == "pr.callforms" && err == nil && strings.Contains(out, "no-extra") {
					ctx.Obs("callforms_rendered_ok", 1)
				}
				if op.kind == "js" {
					js++
				} else if err != nil {
					failing++
					ctx.Obs("failing_renders", 1)
				}
				if op.kind == "render" && op.tmpl == "pr.funcforms" && err == nil {
					// every call of a list- or map-valued function yields a value of its own (equality of lists and maps
					// is identity): six comparisons of two results, one of a value with itself
					ctx.Obs("fresh_results_compared", 1)
					if !strings.Contains(strings.ReplaceAll(out, "!", ""), "[fresh:DDDDDDS]") { // (obligatory directives of some configurations append "!")
						return fw.Result{Verdict: fw.Violated, Key: "function-results-share-identity", Case: map[string]interface{}{"files": files, "history": hist, "config": c08Config},
							Msg: fmt.Sprintf("operation %d (%s): two calls of range / keys / augmentMap compared equal, or a list differs from itself: %q (want [fresh:DDDDDDS])", k, op, fw.Trim(out, 300))}
					}
				}
				if op.kind == "render" && (op.tmpl == "twa.t" || op.tmpl == "twb.t") && err == nil {
					// known by construction: three literals under three directives, then the obligatory ones of this configuration
					bang := ""
					if c08Config == "oblig1" || c08Config == "oblig2" {
						bang = "!"
					}
					want := "abc" + bang + "abcd" + bang + "&lt;b&gt;" + bang
					if op.tmpl == "twb.t" {
						want = "abcde" + bang + "ab" + bang + "<b>" + bang
					}
					ctx.Obs("twin_file_renders", 1)
					if out != want {
						return fw.Result{Verdict: fw.Violated, Key: "twin-file-output-wrong", Case: map[string]interface{}{"files": files, "history": hist, "config": c08Config},
							Msg: fmt.Sprintf("operation %d (%s) [config %s] returned %q; the template prints three literals under fixed directives and must give %q", k, op, c08Config, out, want)}
					}
				}
				for x := 0; x < 4; x++ {
					if before[x] != after[x] {
						return fw.Result{Verdict: fw.Violated, Key: "mutates:" + names[x] + ":" + op.kind + ":" + errClass(err),
							Case: map[string]interface{}{"files": files, "history": hist, "config": c08Config},
							Msg:  fmt.Sprintf("operation %d (%s, result %s) changed the %s (structural digest %x -> %x) [config %s]", k, op, errClass(err), names[x], before[x], after[x], c08Config)}
					}
				}
				// the same operation on a freshly compiled bundle
				fresh, ferr := newWorld(files, prog.B.Globals, datas, prog.IJ)
				if ferr != nil {
					return fw.Result{Verdict: fw.Inconclusive, Key: "fresh-compile-failed", Msg: errText(ferr)}
				}
				want, werr := fresh.exec(op)
				if (err == nil) != (werr == nil) || out != want {
					return fw.Result{Verdict: fw.Violated, Key: "history-dependent-output:" + op.kind,
						Case: map[string]interface{}{"files": files, "history": hist, "config": c08Config, "want": fw.Trim(want, 2000), "got": fw.Trim(out, 2000)},
						Msg: fmt.Sprintf("operation %d (%s) after %d earlier operations returned %s %q; on a freshly compiled bundle it returns %s %q [config %s]",
							k, op, k, errClass(err), fw.Trim(out, 300), errClass(werr), fw.Trim(want, 300), c08Config)}
				}
			}
			id := ""
			if failing > 0 && js > 0 {
				id = strings.Join(hist, ";") + files[0].Text
			}
			ctx.Eval(id)
			if i%50 == 0 {
				ctx.Sample(map[string]interface{}{"config": c08Config, "history": hist, "failing_renders": failing, "js_generations": js})
			}
			return fw.Result{Verdict: fw.Held}
		},
		Floors: func(obs map[string]int64, cells map[string]bool, tier string) []string {
			var why []string
			for _, c := range []string{"default", "oblig1", "oblig2", "oblig-builtin", "custom"} {
				if !cells["config:"+c] {
					why = append(why, "configuration never run: "+c)
				}
			}
			if obs["failing_renders"] == 0 {
				why = append(why, "no failing render inside a history")
			}
			if obs["callforms_rendered_ok"] == 0 {
				why = append(why, "the call-forms probe never rendered successfully")
			}
			if obs["digests_taken"] == 0 {
				why = append(why, "no digest taken")
			}
			return why
		},
		Assumptions: []string{"heap objects do not move, so pointer values are stable identities within a process"},
	})
}

var c08Config string
