package props

import (
	"fmt"
	"github.com/robfig/soy"
	"github.com/robfig/soy/template"
	"os"
	"os/exec"
	"regexp"
	"strconv"
	"strings"
	"sync"

	"github.com/robfig/soy/ast"
	"github.com/robfig/soy/soymsg"

	"verif/fw"
	"verif/ref"
)

// ---- message generator (independent of the bundle generator: bodies are built to stress naming and hashing)

var c10Vars = []string{"name", "setName", "labsUrl", "count", "x", "userId", "a", "b", "n", "total",
	// runs of underscores, leading and trailing ones, words of one and two letters, capitals in a row, digits inside
	"first___name", "a__b", "_lead", "trail_", "__x__y1z_", "isAtEnd", "toIdOf", "aBCd", "HTTPServer", "x2y", "UPPER_CASE", "camelCASEMix", "v12b3"}

// c10Var draws half of the names from a few thousand distinct identifiers: one process names placeholders after far
// more identifiers than any table of them is made for, and keeps coming back to the first ones.
func c10Var(r *fw.Rand) string {
	if r.P(2, 3) {
		n := r.Intn(3000)
		return fmt.Sprintf([]string{"formField%dLabel", "account%dOwner", "item_%d_id", "fld%d", "x%dY"}[n%5], n)
	}
	return c10Vars[r.Intn(len(c10Vars))]
}

func c10Expr(r *fw.Rand) ref.Expr {
	v := c10Var(r)
	switch r.Intn(10) {
	case 0, 1, 2:
		return &ref.DataRef{Name: v}
	case 3, 4:
		return &ref.DataRef{Name: v, Acc: []ref.Acc{{Kind: 0, Key: c10Var(r)}}}
	case 5:
		return &ref.DataRef{Name: v, Acc: []ref.Acc{{Kind: 0, Key: "inner"}, {Kind: 0, Key: c10Vars[r.Intn(len(c10Vars))], NullSafe: r.Bool()}}}
	case 6:
		return &ref.DataRef{Name: v, Acc: []ref.Acc{{Kind: 1, Index: r.Intn(3)}}}
	case 7:
		return &ref.Binary{Op: "+", L: &ref.DataRef{Name: v}, R: &ref.Lit{V: ref.Int(int64(r.Intn(3)))}}
	case 8:
		return &ref.Binary{Op: "*", L: &ref.Paren{X: &ref.Binary{Op: "+", L: &ref.DataRef{Name: v}, R: &ref.Lit{V: ref.Int(1)}}}, R: &ref.Lit{V: ref.Int(2)}}
	default:
		return &ref.Call{Fn: "length", Args: []ref.Expr{&ref.DataRef{Name: v}}}
	}
}

var c10Tags = []string{"<my-button kind=\"ok\">", "</my-button>", "<o:p>", "</o:p>", "<svg:rect/>", "<x-1/>", "<b>", "</b>", "<a href=\"http://x/y\">", "<a href=\"http://x/z\">", "</a>", "<br/>", "<br>", "<i>", "</i>", "<span class=\"c\">", "</span>", "<li>", "<p>", "<img src=\"s.png\"/>", "<em>", "<xyz>", "<h1 id=\"t\">",
	// tag names are case-insensitive: <A>, <BR>, <Img .../>, <tBody> name their placeholders like <a>, <br>, <img/>, <tbody>
	"<A HREF=\"http://x/y\">", "</A>", "<BR>", "<Br/>", "<IMG SRC=\"s.png\"/>", "<Em>", "</EM>", "<tBody>", "</TBODY>", "<LI>", "<P>", "<B>", "</B>", "<H1>", "<DIV>", "</Div>"}

func c10Text(r *fw.Rand) string {
	n := r.Intn(30)
	if r.P(1, 4) {
		n = 10 + r.Intn(6) // around the 12-byte block boundary
	}
	if r.P(1, 25) {
		n = []int{250, 1000, 1020, 1030, 2050, 4100}[r.Intn(6)] + r.Intn(12) // longer than a buffer is likely to be
	}
	const alpha = "abcdefghijklmnopqrstuvwxyz ABC.,!?:;-_'\"&%$#@()[]=+*0123456789éü中"
	rs := []rune(alpha)
	var b strings.Builder
	for i := 0; i < n; i++ {
		b.WriteRune(rs[r.Intn(len(rs))])
	}
	s := b.String()
	if r.P(1, 6) && n > 2 {
		// an angle bracket that opens no tag (or one that does, with what follows), inside the text
		mid := 1 + r.Intn(len([]rune(s))-1)
		rs2 := []rune(s)
		s = string(rs2[:mid]) + []string{" < ", " <= ", "<<", " > ", "a<1", "1>0", "< b", "<-"}[r.Intn(8)] + string(rs2[mid:])
	}
	// keep the text stable under the template-text rules: no leading/trailing blanks, no comment openers
	s = strings.TrimSpace(strings.ReplaceAll(strings.ReplaceAll(s, "//", "/"), "/*", "*"))
	if s == "" {
		s = "t"
	}
	return s
}

func c10Parts(r *fw.Rand, n int, allowCall bool) []ref.Node {
	var out []ref.Node
	for i := 0; i < n; i++ {
		switch r.Intn(7) {
		case 0, 1:
			out = append(out, &ref.Raw{Text: c10Text(r)})
		case 2:
			out = append(out, &ref.Raw{Text: c10Tags[r.Intn(len(c10Tags))]})
		case 3, 4, 5:
			out = append(out, &ref.Print{E: c10Expr(r)})
		default:
			if allowCall {
				out = append(out, &ref.CallT{Target: "m.callee", NameSrc: ".callee", SelfClose: true})
			} else {
				out = append(out, &ref.Print{E: c10Expr(r)})
			}
		}
	}
	// merge adjacent raw nodes with a separating blank (as the source would read)
	var merged []ref.Node
	for _, n := range out {
		if rw, ok := n.(*ref.Raw); ok && len(merged) > 0 {
			if p, ok := merged[len(merged)-1].(*ref.Raw); ok {
				p.Text += " " + rw.Text
				continue
			}
		}
		merged = append(merged, n)
	}
	return merged
}

func c10Msg(r *fw.Rand) *ref.Msg {
	m := &ref.Msg{Desc: "description " + strconv.Itoa(r.Intn(5))}
	if r.P(1, 3) {
		m.Meaning = []string{"noun", "verb", "a button label", "verb  to file", "a  b   c", " lead", "trail ", "tab\there", "caf\u00e9 \u4e2d", "x=\u00a0y", "UPPER lower"}[r.Intn(11)] // (whitespace in a meaning is part of it)
	}
	switch {
	case r.P(1, 4):
		p := &ref.Plural{E: c10Expr(r)}
		if r.P(1, 2) {
			p.E = &ref.DataRef{Name: c10Vars[r.Intn(len(c10Vars))]}
		}
		used := map[int]bool{}
		for k := 0; k < r.Intn(4); k++ {
			n := r.Intn(5)
			if used[n] {
				continue
			}
			used[n] = true
			p.Cases = append(p.Cases, ref.PluralCase{N: n, Body: c10Parts(r, 1+r.Intn(3), false)})
		}
		p.Default = c10Parts(r, 1+r.Intn(3), false)
		m.Body = []ref.Node{p}
	case r.P(1, 5):
		// colliding base names: $a.x, $b.x and a variable whose own name looks like a generated one
		m.Body = []ref.Node{&ref.Print{E: &ref.DataRef{Name: "a", Acc: []ref.Acc{{Kind: 0, Key: "x"}}}}, &ref.Raw{Text: " and "},
			&ref.Print{E: &ref.DataRef{Name: "b", Acc: []ref.Acc{{Kind: 0, Key: "x"}}}}, &ref.Raw{Text: " or "}, &ref.Print{E: &ref.DataRef{Name: "x_1"}}}
		if r.Bool() {
			m.Body = append(m.Body, &ref.Print{E: &ref.DataRef{Name: "x_2"}}, &ref.Print{E: &ref.DataRef{Name: "c", Acc: []ref.Acc{{Kind: 0, Key: "x"}}}})
		}
		if r.Bool() {
			m.Body[0], m.Body[4] = m.Body[4], m.Body[0]
		}
	default:
		m.Body = c10Parts(r, 1+r.Intn(6), true)
	}
	return m
}

// c10File wraps messages in a compilable file. Every variable any message can use is declared and used.
func c10File(msgs []*ref.Msg, wrap int) string {
	var b strings.Builder
	all := append([]string{}, c10Vars...)
	all = append(all, "x_1", "x_2", "c")
	w := &strings.Builder{}
	for i, m := range msgs {
		t := &ref.Template{Name: "x", Body: []ref.Node{m}}
		f := &ref.File{Namespace: "zz", Templates: []*ref.Template{t}}
		src := ref.FileSrc(f, ref.Layout{}, nil)
		// cut the message out of the printed template
		s := src[strings.Index(src, "{msg") : strings.LastIndex(src, "{/msg}")+len("{/msg}")]
		switch (wrap + i) % 12 {
		case 1:
			s = "{if $a}" + s + "{/if}"
		case 2:
			s = "some text before {$b} " + s + " and after"
		case 3:
			s = "{foreach $q in [1,2]}" + s + "{/foreach}"
		case 4:
			s = fmt.Sprintf("{let $w%d}%s{/let}{$w%d}", i, s, i)
		case 5:
			s = "{call .callee}{param p}" + s + "{/param}{/call}"
		case 6:
			s = "{switch 1}{case 1}" + s + "{/switch}"
		case 7:
			s = "{if $a}x{else}" + s + "{/if}"
		case 8:
			s = "{foreach $q in $a}x{ifempty}" + s + "{/foreach}"
		case 9:
			s = "{log}" + s + "{/log}"
		case 10:
			s = "{for $i in range(2)}" + s + "{/for}"
		case 11:
			s = fmt.Sprintf("{if $a}{foreach $q in [1]}{call .callee}{param p}{let $w%d}%s{/let}{$w%d}{/param}{/call}{/foreach}{/if}", i, s, i)
		}
		w.WriteString(s + "\n")
	}
	// the names drawn from the large family are declared like the others
	declared := map[string]bool{"q": true, "i": true, "ij": true}
	for _, v := range all {
		declared[v] = true
	}
	for _, m := range c10VarRe.FindAllStringSubmatch(w.String(), -1) {
		if !declared[m[1]] && !c10LocalRe.MatchString(m[1]) {
			declared[m[1]] = true
			all = append(all, m[1])
		}
	}
	b.WriteString("{namespace m}\n/**\n")
	for _, v := range all {
		b.WriteString(" * @param? " + v + "\n")
	}
	b.WriteString(" */\n{template .t}\n")
	for _, v := range all {
		b.WriteString("{isNonnull($" + v + ")}")
	}
	b.WriteString("\n")
	b.WriteString(w.String())
	b.WriteString("{/template}\n/** @param? p */\n{template .callee}callee{$p ?: ''}{/template}\n")
	return b.String()
}

var c10PhRe = regexp.MustCompile(`\{([A-Z0-9_]+)\}`)

// c10Unbraced is what the official algorithm fingerprints for a message without a plural: the text with placeholder
// names in place of the placeholders, without the braces.
func c10Unbraced(phstr string) string { return c10PhRe.ReplaceAllString(phstr, "$1") }

var c10VarRe = regexp.MustCompile(`\$([A-Za-z_][A-Za-z0-9_]*)`)
var c10LocalRe = regexp.MustCompile(`^w[0-9]+$`)

type c10Obs struct {
	id    uint64
	phstr string
}

// c10Compile compiles the file and returns (id, placeholder string) of each message in source order.
func c10Compile(src string) ([]c10Obs, error) {
	reg, err := compileRegistry([]srcFile{{"m.soy", src}}, nil)
	if err != nil {
		return nil, err
	}
	var out []c10Obs
	for _, t := range reg.Templates {
		walkAst(t.Node, func(n ast.Node) {
			if m, ok := n.(*ast.MsgNode); ok {
				out = append(out, c10Obs{m.ID, soymsg.PlaceholderString(m)})
			}
		})
	}
	return out, nil
}

func cloneMsg(r *fw.Rand, seed uint64) *ref.Msg { return c10Msg(fw.NewRand(seed)) }

// c10Mutate changes one thing the id must depend on; returns nil when no such change applies.
func c10Mutate(m *ref.Msg, kind int) (*ref.Msg, string) {
	parts := &m.Body
	var pl *ref.Plural
	if len(m.Body) == 1 {
		if p, ok := m.Body[0].(*ref.Plural); ok {
			pl = p
			parts = &p.Default
		}
	}
	switch kind {
	case 0: // text
		for _, n := range *parts {
			if rw, ok := n.(*ref.Raw); ok && !strings.Contains(rw.Text, "<") {
				rw.Text += "Z"
				return m, "text changed"
			}
		}
		*parts = append(*parts, &ref.Raw{Text: "Z"})
		return m, "text appended"
	case 1: // meaning
		m.Meaning += "2"
		return m, "meaning changed"
	case 2: // placeholder renamed
		for _, n := range *parts {
			if p, ok := n.(*ref.Print); ok {
				if d, ok := p.E.(*ref.DataRef); ok && len(d.Acc) == 0 {
					d.Name = "total"
					p.E = &ref.DataRef{Name: "renamedVar"}
					return m, "placeholder variable renamed"
				}
			}
		}
		return nil, ""
	case 3: // order of two parts with different printed forms
		ps := *parts
		for i := 0; i+1 < len(ps); i++ {
			_, r1 := ps[i].(*ref.Raw)
			_, r2 := ps[i+1].(*ref.Raw)
			if r1 != r2 {
				ps[i], ps[i+1] = ps[i+1], ps[i]
				return m, "two parts swapped"
			}
		}
		return nil, ""
	case 4: // plural structure
		if pl == nil {
			return nil, ""
		}
		n := 9
		pl.Cases = append(pl.Cases, ref.PluralCase{N: n, Body: []ref.Node{&ref.Raw{Text: "nine"}}})
		return m, "plural case added"
	}
	return nil, ""
}

func init() {
	fw.Register(&fw.Prop{
		ID:    "C10",
		Level: "exploration",
		Rule: "cases = seeded message bodies: raw text of arbitrary characters with lengths straddling the 12-byte hash blocks, print placeholders over 10 expression shapes, html tags (known, unknown, " +
			"attributes, self-closing), colliding base names ($a.x $b.x $x_1), plurals with any case set, with and without meaning. For each: (a) ids and placeholder strings identical over 20 " +
			"(thorough 100) compilations in-process and in a separate process; (b) unchanged under another description, surrounding code, sibling messages and position; (c) changed by a change " +
			"of text, meaning, placeholder name, part order or plural structure; (d) equal to a re-implementation of the official algorithm (self-tested against ids of the official extractor) " +
			"where that algorithm is unambiguous; (f) 12 long messages keep the ids they have alone while 24 goroutines compile them concurrently. distinct = distinct message source; non-trivial = has a placeholder or >= 12 bytes of text",
		N: func(tier string) int {
			if tier == "thorough" {
				return 60000
			}
			return 4000
		},
		Setup: func(tier string, seed uint64, config string) string {
			if why := ref.SelfTestMsgID(); why != "" {
				return why
			}
			if s := os.Getenv("VERIF_C10_PRINT"); s != "" {
				// sub-process mode: print id and placeholder string of the message with this seed
				sd, _ := strconv.ParseUint(s, 10, 64)
				m := c10Msg(fw.NewRand(sd))
				obs, err := c10Compile(c10File([]*ref.Msg{m}, 0))
				if err != nil || len(obs) != 1 {
					fmt.Println("ERR", err)
				} else {
					fmt.Printf("%d %q\n", obs[0].id, obs[0].phstr)
				}
				os.Exit(0)
			}
			return ""
		},
		Run: func(ctx *fw.Ctx, i int) fw.Result {
			seed := ctx.Rng.U64()
			m := c10Msg(fw.NewRand(seed))
			src := c10File([]*ref.Msg{m}, 0)
			base, err := c10Compile(src)
			if err != nil || len(base) != 1 {
				return fw.Result{Verdict: fw.Violated, Key: "message-rejected", Case: src, Msg: fmt.Sprintf("generated message does not compile: %v (%d messages)", err, len(base))}
			}
			info := ref.ModelMsg(m)
			id := ""
			if len(info.Order) > 0 || len(base[0].phstr) >= 12 {
				id = src
			}
			ctx.Eval(id)
			// (a) stability across compilations
			reps := 20
			if ctx.Tier == "thorough" {
				reps = 100
			}
			for k := 0; k < reps; k++ {
				again, err := c10Compile(src)
				if err != nil || len(again) != 1 || again[0] != base[0] {
					return fw.Result{Verdict: fw.Violated, Key: "unstable-id-across-compilations", Case: src,
						Msg: fmt.Sprintf("compilation %d of the same source gave id %v / %q, the first gave %d / %q", k+2, again, "", base[0].id, base[0].phstr)}
				}
			}
			ctx.Obs("recompilations", int64(reps))
			if i%20 == 0 {
				cmd := exec.Command(os.Args[0], "-prop", "C10")
				cmd.Env = append(os.Environ(), "VERIF_C10_PRINT="+strconv.FormatUint(seed, 10))
				out, err := cmd.Output()
				want := fmt.Sprintf("%d %q\n", base[0].id, base[0].phstr)
				ctx.Obs("process_boundaries_crossed", 1)
				if err != nil || string(out) != want {
					return fw.Result{Verdict: fw.Violated, Key: "unstable-id-across-processes", Case: src,
						Msg: fmt.Sprintf("another process computed %q (err %v), this one %q", out, err, want)}
				}
			}
			// (b) invariance
			for v0 := 1; v0 <= 4; v0++ {
				v := v0*5 + int(seed%12)
				m2 := c10Msg(fw.NewRand(seed))
				m2.Desc = "another description entirely " + strconv.Itoa(v)
				sib1, sib2 := c10Msg(fw.NewRand(seed+uint64(v))), c10Msg(fw.NewRand(seed+uint64(v)+77))
				obs, err := c10Compile(c10File([]*ref.Msg{sib1, m2, sib2}, v))
				if err != nil || len(obs) != 3 {
					return fw.Result{Verdict: fw.Inconclusive, Key: "variant-does-not-compile", Msg: fmt.Sprint(err), Case: c10File([]*ref.Msg{sib1, m2, sib2}, v)}
				}
				if obs[1] != base[0] {
					return fw.Result{Verdict: fw.Violated, Key: "id-depends-on-context", Case: map[string]string{"alone": src, "in_context": c10File([]*ref.Msg{sib1, m2, sib2}, v)},
						Msg: fmt.Sprintf("with another description, siblings and surrounding code the message got %d / %q instead of %d / %q", obs[1].id, obs[1].phstr, base[0].id, base[0].phstr)}
				}
				ctx.Obs("context_variants", 1)
			}
			// (c) sensitivity
			for kind := 0; kind < 5; kind++ {
				m3, what := c10Mutate(c10Msg(fw.NewRand(seed)), kind)
				if m3 == nil {
					continue
				}
				before := ref.ModelMsg(c10Msg(fw.NewRand(seed)))
				after := ref.ModelMsg(m3)
				if before.PhString == after.PhString && kind != 1 {
					continue // the change did not alter the message content after all (e.g. equal placeholders swapped)
				}
				if before.ID == after.ID {
					// the official algorithm itself gives both contents one id: outside plurals it fingerprints placeholder
					// names without braces, so "{$b}B" and "B{$b}" are both "BB", and {X}{XXX} and {XXX}{X} are both XXXX. An id that
					// follows it cannot differ here (also where the numbering of same-named placeholders is not pinned down: a
					// collision under one legitimate numbering is enough not to demand a difference).
					ctx.Obs("official_algorithm_collisions", 1)
					continue
				}
				obs, err := c10Compile(c10File([]*ref.Msg{m3}, 0))
				if err != nil || len(obs) != 1 {
					continue
				}
				ctx.Obs("content_changes", 1)
				ctx.Cell("change:" + what)
				if obs[0].id == base[0].id && !strings.Contains(base[0].phstr, ",plural,") && c10Unbraced(obs[0].phstr) == c10Unbraced(base[0].phstr) {
					// (the same collision of the official algorithm, seen from the library's own placeholder strings: where
					// the reference numbers same-named placeholders differently it cannot vouch for it)
					ctx.Obs("official_algorithm_collisions", 1)
					continue
				}
				if obs[0].id == base[0].id {
					return fw.Result{Verdict: fw.Violated, Key: "id-insensitive:" + strings.Fields(what)[0], Case: map[string]string{"before": src, "after": c10File([]*ref.Msg{m3}, 0)},
						Msg: fmt.Sprintf("%s but the id stayed %d (%q -> %q)", what, base[0].id, base[0].phstr, obs[0].phstr)}
				}
			}
			// (e) text that mimics a placeholder: "{lb}NAME{rb} ..." and "{$name} ..." have the same braced form but
			// different content; compiled one after the other in this process, in either order, each keeps its own id
			{
				v := c10Vars[int(seed%uint64(len(c10Vars)))]
				tail := " " + c10Text(fw.NewRand(seed+5))
				mp := &ref.Msg{Desc: "d", Meaning: m.Meaning, Body: []ref.Node{&ref.Print{E: &ref.DataRef{Name: v}}, &ref.Raw{Text: tail}}}
				mt := &ref.Msg{Desc: "d", Meaning: m.Meaning, Body: []ref.Node{&ref.Special{Name: "lb"}, &ref.Raw{Text: ref.UpperUnderscore(v)}, &ref.Special{Name: "rb"}, &ref.Raw{Text: tail}}}
				pair := []*ref.Msg{mp, mt}
				if seed%2 == 0 {
					pair = []*ref.Msg{mt, mp}
				}
				for _, one := range pair {
					obs, err := c10Compile(c10File([]*ref.Msg{one}, 0))
					if err != nil || len(obs) != 1 {
						return fw.Result{Verdict: fw.Inconclusive, Key: "mimic-does-not-compile", Msg: fmt.Sprint(err), Case: c10File([]*ref.Msg{one}, 0)}
					}
					want := ref.ModelMsg(one)
					ctx.Obs("placeholder_mimics", 1)
					if obs[0].id != want.ID {
						return fw.Result{Verdict: fw.Violated, Key: "id-depends-on-earlier-messages", Case: map[string]string{"first": c10File(pair[:1], 0), "second": c10File(pair[1:], 0)},
							Msg: fmt.Sprintf("message %q (meaning %q) got id %d, the official fingerprint is %d; a message with the same braced form but different content was compiled in this process before",
								obs[0].phstr, one.Meaning, obs[0].id, want.ID)}
					}
				}
			}
			// (f) other messages compiled at the same time by other goroutines: each message keeps the id it has alone
			if i%23 == 0 {
				const nMsgs = 12
				srcs := make([]string, nMsgs)
				alone := make([]c10Obs, nMsgs)
				for k := range srcs {
					mk := c10Msg(fw.NewRand(seed + 1000 + uint64(k)))
					// long texts: the ids are computed over the whole text
					unit := c10Text(fw.NewRand(seed+2000+uint64(k))) + " "
					reps := 40
					if len(unit) > 100 {
						reps = 2 // (the unit is one of the long texts already)
					}
					long := &ref.Raw{Text: " " + strings.Repeat(unit, reps)}
					if pl, isPl := mk.Body[0].(*ref.Plural); isPl {
						pl.Default = append(pl.Default, long)
					} else {
						mk.Body = append(mk.Body, long)
					}
					srcs[k] = c10File([]*ref.Msg{mk}, 0)
					o, err := c10Compile(srcs[k])
					if err != nil || len(o) != 1 {
						return fw.Result{Verdict: fw.Inconclusive, Key: "variant-does-not-compile", Msg: fmt.Sprint(err), Case: srcs[k]}
					}
					alone[k] = o[0]
				}
				rounds := 6
				if ctx.Tier == "thorough" {
					rounds = 20
				}
				const workers = 24
				bad := make(chan string, workers)
				var wg sync.WaitGroup
				for w := 0; w < workers; w++ {
					wg.Add(1)
					go func(w int) {
						defer wg.Done()
						for rd := 0; rd < rounds; rd++ {
							for k := 0; k < nMsgs; k++ {
								j := (k + w) % nMsgs
								o, err := c10Compile(srcs[j])
								if err != nil || len(o) != 1 || o[0] != alone[j] {
									select {
									case bad <- fmt.Sprintf("message %d: alone it has id %d, compiled while %d other goroutines compile other messages it got %v (err %v)", j, alone[j].id, workers-1, o, err):
									default:
									}
									return
								}
							}
						}
					}(w)
				}
				wg.Wait()
				ctx.Obs("concurrent_compilations", int64(workers*rounds*nMsgs))
				select {
				case why := <-bad:
					return fw.Result{Verdict: fw.Violated, Key: "id-depends-on-concurrent-compilations", Case: map[string]interface{}{"sources": srcs}, Msg: why}
				default:
				}
			}
			// (g) two placeholders whose expressions differ only in how they are grouped are two placeholders
			if i%40 == 3 {
				av, bv, cv := &ref.DataRef{Name: "a"}, &ref.DataRef{Name: "b"}, &ref.DataRef{Name: "c"}
				one := &ref.Lit{V: ref.Int(1)}
				bin := func(op string, l, r ref.Expr) ref.Expr { return &ref.Binary{Op: op, L: l, R: r} }
				pairs := [][2]ref.Expr{
					{bin("or", av, bin("or", bv, cv)), bin("or", bin("or", av, bv), cv)},
					{bin("and", av, bin("and", bv, cv)), bin("and", bin("and", av, bv), cv)},
					{bin("-", av, bin("-", bv, one)), bin("-", bin("-", av, bv), one)},
					{bin("*", av, bin("+", bv, one)), bin("+", bin("*", av, bv), one)},
					{bin("+", av, bin("+", bv, cv)), bin("+", bin("+", av, bv), cv)},
					{bin("?:", av, bin("?:", bv, cv)), bin("?:", bin("?:", av, bv), cv)},
					{&ref.Unary{Op: "-", X: bin("+", av, one)}, bin("+", &ref.Unary{Op: "-", X: av}, one)},
					{&ref.Unary{Op: "not", X: bin("and", av, bv)}, bin("and", &ref.Unary{Op: "not", X: av}, bv)},
				}
				pq := pairs[(i/40)%len(pairs)]
				mk := func(x, y ref.Expr) *ref.Msg {
					return &ref.Msg{Desc: "d", Body: []ref.Node{&ref.Raw{Text: "first "}, &ref.Print{E: x}, &ref.Raw{Text: " second "}, &ref.Print{E: y}}}
				}
				two, err1 := c10Compile(c10File([]*ref.Msg{mk(pq[0], pq[1])}, 0))
				same, err2 := c10Compile(c10File([]*ref.Msg{mk(pq[0], pq[0])}, 0))
				if err1 != nil || err2 != nil || len(two) != 1 || len(same) != 1 {
					return fw.Result{Verdict: fw.Inconclusive, Key: "variant-does-not-compile", Msg: fmt.Sprint(err1, err2), Case: c10File([]*ref.Msg{mk(pq[0], pq[1])}, 0)}
				}
				ctx.Obs("regrouped_placeholder_pairs", 1)
				if two[0].id == same[0].id || two[0].phstr == same[0].phstr {
					return fw.Result{Verdict: fw.Violated, Key: "regrouped-expressions-taken-for-one-placeholder", Case: c10File([]*ref.Msg{mk(pq[0], pq[1])}, 0),
						Msg: fmt.Sprintf("a message printing %s and %s got placeholders %q and id %d, the same as the message printing the first expression twice", ref.Src(pq[0], ref.PrintStyle{}), ref.Src(pq[1], ref.PrintStyle{}), two[0].phstr, two[0].id)}
				}
			}
			// (h) a user parse pass (Bundle.AddParsePass) that edits the text of a message: the id is that of the message as it
			// stands when compilation ends, i.e. the id the edited text gets when it is written in the source
			if i%10 == 4 {
				edited := c10Msg(fw.NewRand(seed))
				if last, ok := edited.Body[len(edited.Body)-1].(*ref.Raw); ok && len(edited.Body) > 0 {
					last.Text += " (edited)"
					want, werr := c10Compile(c10File([]*ref.Msg{edited}, 0))
					passEdited := false // (text that ends in an HTML tag ends in a tag node, which the pass leaves alone)
					bnd := soy.NewBundle().AddTemplateString("m.soy", src).AddParsePass(func(reg template.Registry) error {
						for _, t := range reg.Templates {
							walkAst(t.Node, func(n ast.Node) {
								if m, ok := n.(*ast.MsgNode); ok {
									ch := m.Body.Children()
									if rt, ok := ch[len(ch)-1].(*ast.RawTextNode); ok {
										rt.Text = append(append([]byte{}, rt.Text...), " (edited)"...)
										passEdited = true
									}
								}
							})
						}
						return nil
					})
					reg, gerr := bnd.Compile()
					if werr == nil && gerr == nil && len(want) == 1 && passEdited {
						var got []c10Obs
						for _, t := range reg.Templates {
							walkAst(t.Node, func(n ast.Node) {
								if m, ok := n.(*ast.MsgNode); ok {
									got = append(got, c10Obs{m.ID, soymsg.PlaceholderString(m)})
								}
							})
						}
						ctx.Obs("parse_pass_edits", 1)
						if len(got) != 1 || got[0] != want[0] {
							return fw.Result{Verdict: fw.Violated, Key: "id-ignores-parse-pass-edit", Case: src,
								Msg: fmt.Sprintf("a parse pass appended \" (edited)\" to the message text: compiled id / placeholders %v, the edited text written in the source gets %v", got, want)}
						}
					}
				}
			}
			// (d) the official algorithm
			if !info.Ambiguous {
				ctx.Obs("official_algorithm_compared", 1)
				if base[0].phstr != info.PhString {
					return fw.Result{Verdict: fw.Violated, Key: "placeholder-names-differ-from-official", Case: src,
						Msg: fmt.Sprintf("placeholder string %q, the official naming gives %q", base[0].phstr, info.PhString)}
				}
				if base[0].id != info.ID {
					return fw.Result{Verdict: fw.Violated, Key: "id-differs-from-official", Case: src,
						Msg: fmt.Sprintf("id %d, the official fingerprint of %q (meaning %q) is %d", base[0].id, info.PhString, m.Meaning, info.ID)}
				}
			} else {
				ctx.Obs("official_algorithm_ambiguous", 1)
			}
			if i%100 == 0 {
				ctx.Sample(map[string]interface{}{"message": src[strings.Index(src, "{msg") : strings.LastIndex(src, "{/msg}")+6], "id": base[0].id, "placeholders": base[0].phstr})
			}
			return fw.Result{Verdict: fw.Held}
		},
		Floors: func(obs map[string]int64, cells map[string]bool, tier string) []string {
			var why []string
			if obs["process_boundaries_crossed"] == 0 {
				why = append(why, "no process boundary crossed")
			}
			if obs["concurrent_compilations"] == 0 {
				why = append(why, "no concurrent compilation")
			}
			if obs["official_algorithm_compared"] == 0 || obs["content_changes"] == 0 || obs["context_variants"] == 0 {
				why = append(why, "one of the four oracles never ran")
			}
			return why
		},
		Assumptions: []string{
			"the official algorithm is applied only where it is unambiguous (no generated name equal to another base name); elsewhere only stability, invariance and sensitivity are judged",
			"id collisions of the 63-bit fingerprint are treated as impossible",
		},
	})
}
