package props

import (
	"bytes"
	"fmt"
	"runtime"
	"sort"
	"strconv"
	"strings"
	"sync"
	"sync/atomic"

	"github.com/robfig/soy"
	"github.com/robfig/soy/data"
	"github.com/robfig/soy/parse"
	"github.com/robfig/soy/soyhtml"
	"github.com/robfig/soy/soyjs"

	"verif/fw"
	"verif/ref"
)

var c09DeepSeq int64 = 3
var c09YieldEvery int64
var c09YieldCtr int64

// racyProbe performs a deliberate data race inside the harness: the supervisor
// must find its report in the race log (proof that the race runtime is active
// and that its log is being read). It has no frame of the code under test.
var racyProbeVar int

func racyProbe() {
	var wg sync.WaitGroup
	for g := 0; g < 2; g++ {
		wg.Add(1)
		go func(g int) {
			defer wg.Done()
			racyProbeVar += g
		}(g)
	}
	wg.Wait()
}

type c09Event struct {
	seq   int64
	g, op int
	start bool
}

type c09Inner struct{ Depth int }
type c09StructA struct {
	Name  string
	Count int
	Tags  []string
}
type c09StructB struct {
	Count int
	Title string
	Name  string
	Inner c09Inner
}
type c09StructC struct {
	UnitPrice float64
	Title     string
	Inner     *c09Inner
	Tags      []string
}

func init() {
	fw.Register(&fw.Prop{
		ID:    "C09",
		Level: "exploration",
		Race:  true,
		Rule: "cases = stanzas: one compiled bundle (C02 generator with messages and $ij) shared by G in {4,16,64} goroutines x R in {30..500} operations each drawn from {render entry template, " +
			"render another template, soyjs.Write ES5/ES6 +-messages, Generator.WriteFile, compile an independent bundle, parse.Expr+EvalExpr}, sharing one Tofu, the data maps, $ij and the message " +
			"bundle; GOMAXPROCS in {2,4,16}; a hook yields the scheduler every k-th walk step to vary interleavings; each worker process runs the default registries or an obligatory print directive. " +
			"Oracles: Go race detector (reports with a frame of the code under test, read from the race log) and byte comparison of every concurrent result with the sequential result. " +
			"distinct = distinct (bundle, G, R, GOMAXPROCS, yield period, config); non-trivial = at least two operations overlapped in time",
		Configs: []string{"default", "oblig1", "default", "custom"},
		N: func(tier string) int {
			if tier == "thorough" {
				return 2400
			}
			return 192
		},
		Setup: func(tier string, seed uint64, config string) string {
			configureRegistries(config)
			c08Config = config
			racyProbe()
			soyhtml.VerifYield = func() {
				if k := atomic.LoadInt64(&c09YieldEvery); k > 0 && atomic.AddInt64(&c09YieldCtr, 1)%k == 0 {
					runtime.Gosched()
				}
			}
			return ""
		},
		Run: func(ctx *fw.Ctx, i int) fw.Result {
			r := ctx.Rng
			G := []int{4, 16}[r.Intn(2)]
			R := []int{30, 100}[r.Intn(2)]
			if ctx.Tier == "thorough" {
				G = []int{4, 16, 64}[r.Intn(3)]
				R = []int{50, 200, 500}[r.Intn(3)]
				if G == 64 && R == 500 {
					R = 200
				}
			}
			procs := []int{2, 4, 16}[r.Intn(3)]
			yieldEvery := []int64{0, 1, 3, 17}[r.Intn(4)]
			files, prog, datas, _ := c08History(r, ctx.Tier, c08Config, 0)
			w, err := newWorld(files, prog.B.Globals, datas, prog.IJ)
			if err != nil {
				return fw.Result{Verdict: fw.Skip}
			}
			// an independent bundle to compile concurrently
			files2, prog2, _, _ := c08History(r, ctx.Tier, "default", 0)
			// operation menu
			var names []string
			for _, f := range prog.B.Files {
				for _, t := range f.Templates {
					names = append(names, f.FQ(t))
				}
			}
			type opT struct {
				op   c08Op
				kind int // 0 world op, 1 compile independent, 2 expr
				expr string
			}
			names = append(names, "pr.callforms", "pr.dirforms", "pr.funcforms", "pr.pluralforms", "pr.samewords1", "pr.samewords2") // every built-in function and directive, every call form that hands the shared maps to a callee together with params
			exprs := []string{"1 + 2 * 3", "['a': 1, 'b': [1,2]].b[1] + 'x'", "round(2.5) + max(1, 2)", "$a.b ?: 1 < 'a'"}
			var menu []opT
			for _, n := range names {
				for d := range datas {
					menu = append(menu, opT{op: c08Op{kind: "render", tmpl: n, data: d, ij: true, msgs: d%2 == 0}})
				}
			}
			for f := range files {
				menu = append(menu, opT{op: c08Op{kind: "js", file: f}}, opT{op: c08Op{kind: "js", file: f, es6: true, msgs: true}}, opT{op: c08Op{kind: "js", file: f, viaGen: true}})
			}
			menu = append(menu, opT{kind: 1}, opT{kind: 2, expr: exprs[r.Intn(len(exprs))]}, opT{kind: 3})
			// work this process has never done before: code nested deeper than anything so far is compiled, generated and
			// rendered for the first time by all goroutines at once (what a library keeps per process and grows on demand
			// is grown here under contention); its sequential results are taken afterwards
			deepD := int(atomic.AddInt64(&c09DeepSeq, 5))
			menu = append(menu, opT{kind: 5, expr: fmt.Sprint(deepD)}, opT{kind: 5, expr: fmt.Sprint(deepD + 2)}, opT{kind: 5, expr: fmt.Sprint(deepD)})
			// Tofu.Render with Go structs of three different types as data (converted anew by every render)
			for rep := 0; rep < 3; rep++ {
				menu = append(menu, opT{kind: 4, expr: "A"}, opT{kind: 4, expr: "B"}, opT{kind: 4, expr: "C"})
			}
			// one globals map handed to many independent bundles, each of which adds globals of its own afterwards
			sharedGlobals := toDataMap(prog2.B.Globals)
			if sharedGlobals == nil {
				sharedGlobals = data.Map{}
			}
			sharedGlobals["verif.SHARED"] = data.Int(1)
			sharedBefore := len(sharedGlobals)
			var ownSeq int64
			var structOps []int
			for k, o := range menu {
				if o.kind == 4 {
					structOps = append(structOps, k)
				}
			}
			cold, err := newWorld(files, prog.B.Globals, datas, prog.IJ)
			if err != nil {
				return fw.Result{Verdict: fw.Skip}
			}
			runOn := func(w *c08World, o opT) string {
				switch o.kind {
				case 1:
					_, err := compileRegistry(files2, prog2.B.Globals)
					return "compile:" + errClass(err)
				case 4:
					var obj interface{}
					switch o.expr {
					case "A":
						obj = c09StructA{Name: "anna", Count: 3, Tags: []string{"x", "y"}}
					case "B":
						obj = &c09StructB{Count: 7, Title: "t<b>", Name: "bob", Inner: c09Inner{Depth: 2}}
					default:
						obj = c09StructC{UnitPrice: 2.5, Title: "c", Inner: &c09Inner{Depth: 9}, Tags: []string{"z"}}
					}
					var buf bytes.Buffer
					err := w.tofu.Render(&buf, "pr.structshow", obj)
					return errClass(err) + ":" + buf.String()
				case 3:
					b := soy.NewBundle().AddGlobalsMap(sharedGlobals).AddGlobalsMap(data.Map{fmt.Sprintf("verif.OWN_%d", atomic.AddInt64(&ownSeq, 1)): data.Int(2)})
					for _, f := range files2 {
						b.AddTemplateString(f.Name, f.Text)
					}
					_, err := b.Compile()
					return "compile-shared-globals:" + errClass(err)
				case 5:
					d, _ := strconv.Atoi(o.expr)
					src := "{namespace dp}\n/** @param? a */\n{template .t}\n" + strings.Repeat("{if not $a}{switch 1}{case 1}", d) + "{foreach $x in [1]}<{$x}>{/foreach}" + strings.Repeat("{/switch}{/if}", d) + "\n{/template}\n"
					reg, err := compileRegistry([]srcFile{{"deep.soy", src}}, nil)
					if err != nil {
						return "deep-compile-error"
					}
					var js, out bytes.Buffer
					werr := soyjs.Write(&js, reg.SoyFiles[0], soyjs.Options{})
					rerr := soyhtml.NewTofu(reg).Render(&out, "dp.t", nil)
					return fmt.Sprintf("deep:%s:%x:%s:%s", errClass(werr), fw.HashStr(js.String()), errClass(rerr), out.String())
				case 2:
					n, err := parse.Expr(o.expr)
					if err != nil {
						return "expr-parse-error"
					}
					v, err := soyhtml.EvalExpr(n)
					if err != nil {
						return "expr-error"
					}
					return "expr:" + v.String()
				}
				out, err := w.exec(o.op)
				return errClass(err) + ":" + out
			}
			// the concurrent phase runs on w, which nothing has touched since compilation (lazily built
			// state is cold); the sequential results come from a second compilation of the same sources
			run := func(o opT) string { return runOn(w, o) }
			atomic.StoreInt64(&c09YieldEvery, 0)
			golden := make([]string, len(menu))
			for k, o := range menu {
				if o.kind != 5 {
					golden[k] = runOn(cold, o)
				}
			}
			type lateT struct {
				g, k int
				got  string
			}
			var late []lateT
			// the concurrent stanza
			old := runtime.GOMAXPROCS(procs)
			defer runtime.GOMAXPROCS(old)
			atomic.StoreInt64(&c09YieldEvery, yieldEvery)
			var seq int64
			events := make([][]c09Event, G)
			type mism struct {
				g, k      int
				want, got string
			}
			var mu sync.Mutex
			var mismatches []mism
			var wg sync.WaitGroup
			plans := make([][]int, G)
			for g := 0; g < G; g++ {
				plans[g] = make([]int, R)
				for k := range plans[g] {
					if i%4 == 1 && r.P(3, 4) {
						// a stanza that is mostly Tofu.Render over Go structs of different types
						plans[g][k] = structOps[r.Intn(len(structOps))]
					} else if r.P(1, 2) {
						plans[g][k] = r.Intn(len(menu))
					} else {
						plans[g][k] = r.Intn(minInt(len(menu), 4)) // contention on few templates
					}
				}
			}
			startGate := make(chan struct{})
			for g := 0; g < G; g++ {
				wg.Add(1)
				go func(g int) {
					defer wg.Done()
					<-startGate
					for _, k := range plans[g] {
						s := atomic.AddInt64(&seq, 1)
						got := run(menu[k])
						e := atomic.AddInt64(&seq, 1)
						events[g] = append(events[g], c09Event{s, g, k, true}, c09Event{e, g, k, false})
						if menu[k].kind == 5 {
							mu.Lock()
							late = append(late, lateT{g, k, got})
							mu.Unlock()
						} else if got != golden[k] {
							mu.Lock()
							mismatches = append(mismatches, mism{g, k, golden[k], got})
							mu.Unlock()
						}
					}
				}(g)
			}
			close(startGate)
			wg.Wait()
			atomic.StoreInt64(&c09YieldEvery, 0)
			for _, l := range late {
				if golden[l.k] == "" {
					golden[l.k] = runOn(cold, menu[l.k])
				}
				if l.got != golden[l.k] {
					mismatches = append(mismatches, mism{l.g, l.k, golden[l.k], l.got})
				}
			}
			ctx.Obs("first_time_deep_operations", int64(len(late)))
			// interleaving signature and overlap count
			var all []c09Event
			for _, ev := range events {
				all = append(all, ev...)
			}
			sort.Slice(all, func(a, b int) bool { return all[a].seq < all[b].seq })
			var sig bytes.Buffer
			open, overlaps := 0, 0
			for _, e := range all {
				if e.start {
					if open > 0 {
						overlaps++
					}
					open++
					fmt.Fprintf(&sig, "+%d", e.g)
				} else {
					open--
					fmt.Fprintf(&sig, "-%d", e.g)
				}
			}
			ctx.Obs("operations", int64(G*R))
			ctx.Obs("overlapping_starts", int64(overlaps))
			ctx.Obs("stanzas", 1)
			ctx.Cell("config:" + c08Config)
			ctx.Cell(fmt.Sprintf("procs:%d", procs))
			ctx.Cell("sig:" + fmt.Sprintf("%x", fw.HashStr(sig.String())))
			id := ""
			if overlaps > 0 {
				id = fmt.Sprintf("%s|G%d R%d P%d Y%d %s", files[0].Text, G, R, procs, yieldEvery, c08Config)
			}
			ctx.Eval(id)
			if i%8 == 0 {
				ctx.Sample(map[string]interface{}{"goroutines": G, "ops_each": R, "gomaxprocs": procs, "yield_every": yieldEvery, "config": c08Config,
					"overlapping_starts": overlaps, "interleaving_prefix": fw.Trim(sig.String(), 120), "menu_size": len(menu)})
			}
			if len(sharedGlobals) != sharedBefore {
				return fw.Result{Verdict: fw.Violated, Key: "globals-map-of-the-caller-modified", Case: map[string]interface{}{"files": files2},
					Msg: fmt.Sprintf("the globals map given to AddGlobalsMap had %d entries, after the bundles were compiled it has %d", sharedBefore, len(sharedGlobals))}
			}
			if len(mismatches) > 0 {
				m := mismatches[0]
				what := menu[m.k].op.String()
				if menu[m.k].kind != 0 {
					what = fmt.Sprintf("kind %d", menu[m.k].kind)
				}
				return fw.Result{Verdict: fw.Violated, Key: "concurrent-output-differs:" + strings.SplitN(what, " ", 2)[0],
					Case: map[string]interface{}{"files": files, "G": G, "R": R, "gomaxprocs": procs, "config": c08Config},
					Msg: fmt.Sprintf("%d of %d concurrent operations returned something else than when run alone; first: goroutine %d, %s\n want %q\n got  %q",
						len(mismatches), G*R, m.g, what, fw.Trim(m.want, 300), fw.Trim(m.got, 300))}
			}
			return fw.Result{Verdict: fw.Held}
		},
		Floors: func(obs map[string]int64, cells map[string]bool, tier string) []string {
			var why []string
			sigs := 0
			for c := range cells {
				if strings.HasPrefix(c, "sig:") {
					sigs++
				}
			}
			if sigs < 2 {
				why = append(why, fmt.Sprintf("only %d distinct interleaving signature(s) observed", sigs))
			}
			if obs["overlapping_starts"] == 0 {
				why = append(why, "no two operations overlapped in time")
			}
			if obs["race_reports_outside_repo"] == 0 {
				why = append(why, "the deliberately racy probe of the harness was not reported: the race runtime is not active or its log is not being read")
			}
			for _, c := range []string{"default", "oblig1", "custom"} {
				if !cells["config:"+c] {
					why = append(why, "configuration never run: "+c)
				}
			}
			return why
		},
		Assumptions: []string{
			"only the interleavings these runs produced are explored; the race detector sees races on the paths the workload executes",
			"hot reload (WatchFiles) is outside the statement",
		},
	})
}

var _ = soyjs.Options{}
var _ = ref.OK
