package props

import (
	"fmt"
	"math"
	"strconv"
	"strings"
	"sync"

	"verif/fw"
	"verif/gen"
	"verif/ref"
)

// operand classes of the systematic part
type opClass struct {
	name string
	v    ref.Value
	lit  bool // can be written as a literal
	// non-finite numbers have no literal and are not data: they are quotients (num / 0)
	num, den int64
	quot     bool
}

func operandClasses() []opClass {
	return []opClass{
		{name: "null", v: ref.Null, lit: true},
		{name: "true", v: ref.Bool(true), lit: true},
		{name: "false", v: ref.Bool(false), lit: true},
		{name: "zero", v: ref.Int(0), lit: true},
		{name: "int", v: ref.Int(7), lit: true},
		{name: "negint", v: ref.Int(-3), lit: true},
		{name: "int53", v: ref.Int(ref.MaxSafe - 1), lit: true},
		{name: "float", v: ref.Float(2.5), lit: true},
		{name: "negfloat", v: ref.Float(-0.75), lit: true},
		{name: "empty", v: ref.Str(""), lit: true},
		{name: "ascii", v: ref.Str("abc"), lit: true},
		{name: "digits", v: ref.Str("42"), lit: true},
		{name: "unicode", v: ref.Str("héllo 中"), lit: true},
		{name: "html", v: ref.Str("<a href=\"x\">&'"), lit: true},
		{name: "list", v: ref.Value{K: ref.KList, ID: 501, L: []ref.Value{ref.Int(1), ref.Str("two")}}, lit: false},
		{name: "map", v: ref.Value{K: ref.KMap, ID: 502, Keys: []string{"k"}, M: map[string]ref.Value{"k": ref.Int(1)}}, lit: false},
		{name: "undefined", v: ref.Undef},
		{name: "nan", v: ref.Float(math.NaN()), lit: true, quot: true, num: 0},
		{name: "inf", v: ref.Float(math.Inf(1)), lit: true, quot: true, num: 1},
		{name: "neginf", v: ref.Float(math.Inf(-1)), lit: true, quot: true, num: -2},
	}
}

type c01Case struct {
	E       ref.Expr
	Data    map[string]ref.Value
	Cell    string
	Pos     int // -1: rotate
	Globals map[string]ref.Value
}

// c01Globals are compile-time globals of every kind.
var c01Globals = map[string]ref.Value{
	"G_NULL": ref.Null, "G_TRUE": ref.Bool(true), "G_FALSE": ref.Bool(false), "G_ZERO": ref.Int(0), "G_INT": ref.Int(42), "G_NEG": ref.Int(-7), "G_BIG": ref.Int(ref.MaxSafe - 1),
	"G_FLOAT": ref.Float(2.5), "app.name": ref.Str("soy<app>&'\""), "app.empty": ref.Str(""), "a.b.c.DEEP": ref.Str("deep"),
	"G_LIST": ref.Value{K: ref.KList, ID: 801, L: []ref.Value{ref.Int(1), ref.Str("two")}}, "G_MAP": ref.Value{K: ref.KMap, ID: 802, Keys: []string{"k"}, M: map[string]ref.Value{"k": ref.Str("v")}},
}

var (
	c01Once sync.Once
	c01Sys  []c01Case
)

func dataFor(vals ...opClass) map[string]ref.Value {
	names := []string{"x", "y", "z"}
	d := map[string]ref.Value{}
	for i, c := range vals {
		if c.quot {
			d[names[i]] = ref.Int(0) // the divisor
		} else if c.v.K != ref.KUndef {
			d[names[i]] = c.v
		}
	}
	return d
}

func operandExpr(c opClass, name string, asLit bool) ref.Expr {
	if c.quot {
		var den ref.Expr = &ref.DataRef{Name: name}
		if asLit {
			den = &ref.Lit{V: ref.Int(0)}
		}
		return &ref.Paren{X: &ref.Binary{Op: "/", L: &ref.Lit{V: ref.Int(c.num)}, R: den}}
	}
	if asLit && c.lit {
		return &ref.Lit{V: c.v}
	}
	return &ref.DataRef{Name: name}
}

func c01Systematic() []c01Case {
	c01Once.Do(func() {
		cls := operandClasses()
		add := func(e ref.Expr, d map[string]ref.Value, cell string) {
			c01Sys = append(c01Sys, c01Case{E: e, Data: d, Cell: cell, Pos: -1})
		}
		// every binary operator x every pair of operand classes, as variables and as literals
		for _, op := range ref.BinaryOps {
			for _, a := range cls {
				for _, b := range cls {
					cell := "bin:" + op + ":" + a.name + ":" + b.name
					add(&ref.Binary{Op: op, L: operandExpr(a, "x", false), R: operandExpr(b, "y", false)}, dataFor(a, b), cell)
					if a.lit && b.lit {
						add(&ref.Binary{Op: op, L: operandExpr(a, "x", true), R: operandExpr(b, "y", true)}, dataFor(), cell+":lit")
					}
				}
			}
		}
		// unary x class; ternary condition x class
		for _, a := range cls {
			for _, op := range []string{"-", "not"} {
				add(&ref.Unary{Op: op, X: operandExpr(a, "x", false)}, dataFor(a), "un:"+op+":"+a.name)
				if a.lit {
					add(&ref.Unary{Op: op, X: operandExpr(a, "x", true)}, dataFor(), "un:"+op+":"+a.name+":lit")
				}
			}
			add(&ref.Tern{C: operandExpr(a, "x", false), A: &ref.Lit{V: ref.Str("T")}, B: &ref.Lit{V: ref.Str("F")}}, dataFor(a), "tern:"+a.name)
		}
		// every ordered pair of operators, both nestings, minimal and redundant parentheses
		ops := append([]string{}, ref.BinaryOps...)
		ops = append(ops, "neg", "not", "tern", "ternelse")
		build := func(op string, l, r ref.Expr) ref.Expr {
			switch op {
			case "neg":
				return &ref.Unary{Op: "-", X: l}
			case "not":
				return &ref.Unary{Op: "not", X: l}
			case "tern":
				return &ref.Tern{C: l, A: r, B: &ref.Lit{V: ref.Int(11)}}
			case "ternelse":
				return &ref.Tern{C: l, A: &ref.Lit{V: ref.Int(12)}, B: r}
			}
			return &ref.Binary{Op: op, L: l, R: r}
		}
		operandSets := [][3]ref.Value{
			{ref.Int(7), ref.Int(3), ref.Int(2)},
			{ref.Int(0), ref.Int(1), ref.Int(0)},
			{ref.Bool(true), ref.Bool(false), ref.Bool(false)},
			{ref.Float(2.5), ref.Int(-4), ref.Int(2)},
			{ref.Null, ref.Int(5), ref.Int(0)},
		}
		for _, o1 := range ops {
			for _, o2 := range ops {
				for si, set := range operandSets {
					a, b, c := &ref.Lit{V: set[0]}, &ref.Lit{V: set[1]}, &ref.Lit{V: set[2]}
					left := build(o2, build(o1, a, b), c)  // (a o1 b) o2 c
					right := build(o1, a, build(o2, b, c)) // a o1 (b o2 c)
					cell := "nest:" + o1 + ":" + o2
					add(left, dataFor(), cell+":L")
					add(right, dataFor(), cell+":R")
					if si == 0 {
						add(build(o2, &ref.Paren{X: build(o1, a, b)}, c), dataFor(), cell+":L:redundant")
						add(build(o1, a, &ref.Paren{X: build(o2, b, c)}), dataFor(), cell+":R:redundant")
						// same with variables
						d := map[string]ref.Value{"x": set[0], "y": set[1], "z": set[2]}
						x, y, z := &ref.DataRef{Name: "x"}, &ref.DataRef{Name: "y"}, &ref.DataRef{Name: "z"}
						add(build(o2, build(o1, x, y), z), d, cell+":L:vars")
						add(build(o1, x, build(o2, y, z)), d, cell+":R:vars")
					}
				}
			}
		}
		// functions x argument classes
		type fn struct {
			name  string
			arity []int
		}
		fns := []fn{{"length", []int{1}}, {"keys", []int{1}}, {"augmentMap", []int{2}}, {"round", []int{1, 2}}, {"floor", []int{1}}, {"ceiling", []int{1}},
			{"min", []int{2}}, {"max", []int{2}}, {"randomInt", []int{1}}, {"strContains", []int{2}}, {"range", []int{1, 2, 3}}, {"hasData", []int{0}}, {"isNonnull", []int{1}}}
		for _, f := range fns {
			for _, ar := range f.arity {
				switch ar {
				case 0:
					add(&ref.Call{Fn: f.name}, dataFor(), "fn:"+f.name)
				case 1:
					for _, a := range cls {
						add(&ref.Call{Fn: f.name, Args: []ref.Expr{operandExpr(a, "x", false)}}, dataFor(a), "fn:"+f.name+":"+a.name)
						if a.lit && !a.quot {
							// the argument written as a literal (a backend that writes "x.length" must not write "5.length")
							add(&ref.Call{Fn: f.name, Args: []ref.Expr{operandExpr(a, "x", true)}}, dataFor(), "fn:"+f.name+":"+a.name+":lit")
						}
					}
					for _, gn := range []string{"G_INT", "G_NEG", "G_FLOAT", "G_NULL", "app.name", "G_LIST"} {
						c01Sys = append(c01Sys, c01Case{E: &ref.Call{Fn: f.name, Args: []ref.Expr{&ref.Global{Name: gn}}}, Data: dataFor(), Cell: "fn:" + f.name + ":global:" + gn, Pos: -1, Globals: c01Globals})
					}
				case 2:
					for _, a := range cls {
						for _, b := range cls {
							add(&ref.Call{Fn: f.name, Args: []ref.Expr{operandExpr(a, "x", false), operandExpr(b, "y", false)}}, dataFor(a, b), "fn:"+f.name+":"+a.name+":"+b.name)
							if a.lit && !a.quot && (b.name == "int" || b.name == "ascii") {
								add(&ref.Call{Fn: f.name, Args: []ref.Expr{operandExpr(a, "x", true), operandExpr(b, "y", true)}}, dataFor(), "fn:"+f.name+":"+a.name+":"+b.name+":lit")
								add(&ref.Call{Fn: f.name, Args: []ref.Expr{operandExpr(b, "y", true), operandExpr(a, "x", true)}}, dataFor(), "fn:"+f.name+":"+b.name+":"+a.name+":lit")
							}
						}
					}
				case 3:
					for _, a := range []int64{0, 1, -2} {
						for _, b := range []int64{0, 5, 9} {
							for _, c := range []int64{1, 2, 4} {
								add(&ref.Call{Fn: f.name, Args: []ref.Expr{&ref.Lit{V: ref.Int(a)}, &ref.Lit{V: ref.Int(b)}, &ref.Lit{V: ref.Int(c)}}}, dataFor(), "fn:"+f.name+":3")
							}
						}
					}
				}
			}
		}
		// round with digits, floats needing rounding
		for _, x := range []float64{1.25, 2.5, 3.75, -1.25, 0.125, 1234.5, 14.625} {
			for _, n := range []int64{0, 1, 2, -1, -2} {
				add(&ref.Call{Fn: "round", Args: []ref.Expr{&ref.Lit{V: ref.Float(x)}, &ref.Lit{V: ref.Int(n)}}}, dataFor(), "fn:round:digits")
			}
		}
		// literal forms
		lits := []ref.Expr{
			&ref.Lit{V: ref.Int(31), Src: "0x1F"}, &ref.Lit{V: ref.Int(43981), Src: "0xABCD"}, &ref.Lit{V: ref.Int(0), Src: "0x0"},
			// a minus before a hexadecimal literal is the unary operator
			&ref.Lit{V: ref.Int(-31), Src: "-0x1F"}, &ref.Binary{Op: "*", L: &ref.Lit{V: ref.Int(2)}, R: &ref.Lit{V: ref.Int(-31), Src: "-0x1F"}},
			// a character beyond U+FFFF written as the two \u escapes of its surrogate pair
			&ref.Lit{V: ref.Str("\U0001F600"), Src: `'\uD83D\uDE00'`}, &ref.Lit{V: ref.Str("a\U0001F600\u00e9\U00010000"), Src: `'a\uD83D\uDE00\u00E9\uD800\uDC00'`},
			&ref.Lit{V: ref.Float(1500), Src: "1.5e3"}, &ref.Lit{V: ref.Float(0.25), Src: "25e-2"}, &ref.Lit{V: ref.Float(1000), Src: "1e3"}, &ref.Lit{V: ref.Float(120), Src: "1.2e+2"},
			&ref.Lit{V: ref.Float(0.5)}, &ref.Lit{V: ref.Float(-100)}, &ref.Lit{V: ref.Int(-827)}, &ref.Lit{V: ref.Int(ref.MaxSafe - 1)}, &ref.Lit{V: ref.Int(-(ref.MaxSafe - 1))},
			&ref.Lit{V: ref.Null}, &ref.Lit{V: ref.Bool(true)}, &ref.Lit{V: ref.Bool(false)},
			&ref.Lit{V: ref.Str("é"), Src: `'é'`}, &ref.Lit{V: ref.Str("a\"b"), Src: `'a\"b'`}, &ref.Lit{V: ref.Str(" x"), Src: `' x'`},
			&ref.Lit{V: ref.Str("a\\b'c\nd\re\tf\bg\fh")}, &ref.Lit{V: ref.Str("")},
			&ref.Lit{V: ref.Str("\u00e9\tb")}, &ref.Lit{V: ref.Str("caf\u00e9\n")}, &ref.Lit{V: ref.Str("\u4e2d\n\u6587")}, &ref.Lit{V: ref.Str("\U0001F600\\x")}, &ref.Lit{V: ref.Str("\u00fc'\u00e9\n\u00ff")},
			&ref.Binary{Op: "==", L: &ref.Lit{V: ref.Str("\u00e9\n")}, R: &ref.Binary{Op: "+", L: &ref.Lit{V: ref.Str("\u00e9")}, R: &ref.Lit{V: ref.Str("\n")}}},
			&ref.MapLit{Keys: []string{"caf\u00e9\n", "\u4e2d\t"}, Vals: []ref.Expr{&ref.Lit{V: ref.Int(1)}, &ref.Lit{V: ref.Int(2)}}}, &ref.Lit{V: ref.Str("😀 astral")}, &ref.Lit{V: ref.Str("{not a tag} // not a comment /* x */")},
			&ref.ListLit{}, &ref.MapLit{}, &ref.ListLit{Items: []ref.Expr{&ref.Lit{V: ref.Int(1)}, &ref.Lit{V: ref.Str("a")}, &ref.ListLit{Items: []ref.Expr{&ref.Lit{V: ref.Null}}}}},
			&ref.DataRef{Name: "m", Acc: []ref.Acc{{Kind: 0, Key: "k"}}},
		}
		for _, l := range lits {
			add(l, map[string]ref.Value{"m": ref.MapOf("k", ref.Str("v"))}, "literal")
		}
		// number literals in exponent form denote the double nearest to the decimal they spell: each is compared with the
		// positional spelling of the same double, and with itself through arithmetic that must be exact
		for _, fl := range gen.FloatLadder() {
			l := fl.(*ref.Lit)
			if math.Abs(l.V.F) > 1e22 || (l.V.F != 0 && math.Abs(l.V.F) < 1e-22) {
				continue // the positional spelling gets unwieldy; C17 prints these
			}
			pos := strconv.FormatFloat(l.V.F, 'f', -1, 64)
			if !strings.Contains(pos, ".") {
				pos += ".0"
			}
			pl := &ref.Lit{V: l.V, Src: pos}
			add(&ref.Binary{Op: "==", L: l, R: pl}, dataFor(), "float-literal:exponent-vs-positional")
			add(&ref.Binary{Op: "<", L: l, R: pl}, dataFor(), "float-literal:exponent-vs-positional:lt")
			add(&ref.Binary{Op: "==", L: &ref.Binary{Op: "-", L: l, R: pl}, R: &ref.Lit{V: ref.Float(0), Src: "0.0"}}, dataFor(), "float-literal:difference-is-zero")
		}
		// injected data: every access form; the same references with an index that changes between evaluations (pinned
		// to the position that evaluates the expression once per iteration of a loop over 0..3)
		ij := func(acc ...ref.Acc) *ref.DataRef { return &ref.DataRef{Name: "ij", Acc: acc} }
		itv := &ref.DataRef{Name: "it"}
		key := func(k string) ref.Acc { return ref.Acc{Kind: 0, Key: k} }
		for _, e := range []ref.Expr{ij(key("user")), ij(key("count")), ij(key("nums"), ref.Acc{Kind: 1, Index: 2}), ij(ref.Acc{Kind: 2, Arg: &ref.Lit{V: ref.Str("user")}}),
			ij(key("none")), ij(key("nope")), ij(ref.Acc{Kind: 0, Key: "nope", NullSafe: true}, ref.Acc{Kind: 0, Key: "x", NullSafe: true}), ij(key("nope"), key("x")),
			ij(key("tbl"), ref.Acc{Kind: 2, Arg: &ref.Binary{Op: "+", L: &ref.Lit{V: ref.Str("k")}, R: ij(key("count"))}}), ij(key("nums"), ref.Acc{Kind: 1, Index: 9}),
			&ref.Binary{Op: "+", L: ij(key("count")), R: ij(key("nums"), ref.Acc{Kind: 2, Arg: ij(key("count"))})}} {
			add(e, dataFor(), "ij")
		}
		loopPos := -1
		for k, p := range c01Positions {
			if p.name == "four-times-in-a-loop" {
				loopPos = k
			}
		}
		lst := ref.Value{K: ref.KList, ID: 710, L: []ref.Value{ref.Str("l0"), ref.Str("l1"), ref.Str("l2"), ref.Str("l3")}}
		short := ref.Value{K: ref.KList, ID: 711, L: []ref.Value{ref.Int(5), ref.Int(6)}}
		mp := ref.MapOf("k0", ref.Str("v0"), "k1", ref.Str("v1"), "k2", ref.Str("v2"), "k3", ref.Str("v3"))
		mp.ID = 712
		ld := map[string]ref.Value{"x": lst, "y": short, "m": mp}
		idx := func(e ref.Expr) ref.Acc { return ref.Acc{Kind: 2, Arg: e} }
		for _, e := range []ref.Expr{
			ij(key("nums"), idx(itv)), ij(key("names"), idx(itv)), &ref.Binary{Op: "+", L: ij(key("names"), idx(itv)), R: itv},
			ij(key("tbl"), idx(&ref.Binary{Op: "+", L: &ref.Lit{V: ref.Str("k")}, R: itv})), ij(key("nums"), idx(&ref.Binary{Op: "-", L: &ref.Lit{V: ref.Int(3)}, R: itv})),
			&ref.DataRef{Name: "x", Acc: []ref.Acc{idx(itv)}}, &ref.DataRef{Name: "m", Acc: []ref.Acc{idx(&ref.Binary{Op: "+", L: &ref.Lit{V: ref.Str("k")}, R: itv})}},
			&ref.DataRef{Name: "y", Acc: []ref.Acc{idx(itv)}}, // past the end from the third iteration on: an error, and no text for it
			ij(key("nums"), idx(&ref.Binary{Op: "+", L: itv, R: &ref.Lit{V: ref.Int(2)}})),
			&ref.Binary{Op: "?:", L: &ref.DataRef{Name: "y", Acc: []ref.Acc{{Kind: 2, Arg: itv, NullSafe: true}}}, R: &ref.Lit{V: ref.Str("dflt")}},
			&ref.Tern{C: &ref.Binary{Op: "<", L: itv, R: &ref.Lit{V: ref.Int(2)}}, A: &ref.DataRef{Name: "y", Acc: []ref.Acc{idx(itv)}}, B: ij(key("nums"), idx(itv))},
			&ref.Call{Fn: "length", Args: []ref.Expr{ij(key("names"), idx(itv))}}, &ref.ListLit{Items: []ref.Expr{itv, ij(key("nums"), idx(itv))}},
			&ref.Binary{Op: "*", L: ij(key("nums"), idx(itv)), R: ij(key("nums"), idx(&ref.Binary{Op: "%", L: &ref.Binary{Op: "+", L: itv, R: &ref.Lit{V: ref.Int(1)}}, R: &ref.Lit{V: ref.Int(4)}}))},
		} {
			c01Sys = append(c01Sys, c01Case{E: e, Data: ld, Cell: "varying-index", Pos: loopPos})
		}
		// loop functions on the variables of three nested loops (a foreach, a for over range, a foreach), from the
		// innermost body: each names its own loop, however many loops lie in between
		nestPos := -1
		for k, p := range c01Positions {
			if p.name == "nested-loops" {
				nestPos = k
			}
		}
		lf := func(fn, v string) ref.Expr { return &ref.Call{Fn: fn, Args: []ref.Expr{&ref.DataRef{Name: v}}} }
		for _, v := range []string{"out", "mid", "it"} {
			for _, fn := range []string{"index", "isFirst", "isLast"} {
				c01Sys = append(c01Sys, c01Case{E: lf(fn, v), Data: dataFor(), Cell: "loop-function:" + fn + ":" + v, Pos: nestPos})
			}
		}
		c01Sys = append(c01Sys,
			c01Case{E: &ref.Binary{Op: "+", L: &ref.Binary{Op: "*", L: lf("index", "out"), R: &ref.Lit{V: ref.Int(100)}}, R: &ref.Binary{Op: "+", L: &ref.Binary{Op: "*", L: lf("index", "mid"), R: &ref.Lit{V: ref.Int(10)}}, R: lf("index", "it")}}, Data: dataFor(), Cell: "loop-function:all", Pos: nestPos},
			c01Case{E: &ref.Tern{C: &ref.Binary{Op: "and", L: lf("isLast", "out"), R: lf("isFirst", "it")}, A: &ref.DataRef{Name: "out"}, B: &ref.DataRef{Name: "mid"}}, Data: dataFor(), Cell: "loop-function:mixed", Pos: nestPos},
			c01Case{E: &ref.Binary{Op: "+", L: &ref.DataRef{Name: "out"}, R: &ref.Binary{Op: "+", L: &ref.DataRef{Name: "mid"}, R: &ref.DataRef{Name: "it"}}}, Data: dataFor(), Cell: "loop-function:vars", Pos: nestPos})
		// compile-time globals of every kind, alone and as operands
		gnames := []string{"G_NULL", "G_TRUE", "G_FALSE", "G_ZERO", "G_INT", "G_NEG", "G_BIG", "G_FLOAT", "app.name", "app.empty", "a.b.c.DEEP", "G_LIST", "G_MAP"}
		for _, gn := range gnames {
			gx := &ref.Global{Name: gn}
			c01Sys = append(c01Sys, c01Case{E: gx, Data: dataFor(), Cell: "global:" + gn, Pos: -1, Globals: c01Globals})
			for _, op := range []string{"+", "*", "<", "==", "and", "?:"} {
				c01Sys = append(c01Sys, c01Case{E: &ref.Binary{Op: op, L: gx, R: &ref.Lit{V: ref.Int(2)}}, Data: dataFor(), Cell: "global:" + gn + ":" + op, Pos: -1, Globals: c01Globals},
					c01Case{E: &ref.Binary{Op: op, L: &ref.Lit{V: ref.Str("s")}, R: gx}, Data: dataFor(), Cell: "global:" + gn + ":" + op + ":rhs", Pos: -1, Globals: c01Globals})
			}
			c01Sys = append(c01Sys, c01Case{E: &ref.Tern{C: gx, A: &ref.Lit{V: ref.Str("T")}, B: &ref.Lit{V: ref.Str("F")}}, Data: dataFor(), Cell: "global:" + gn + ":tern", Pos: -1, Globals: c01Globals},
				c01Case{E: &ref.Unary{Op: "not", X: gx}, Data: dataFor(), Cell: "global:" + gn + ":not", Pos: -1, Globals: c01Globals},
				c01Case{E: &ref.Unary{Op: "-", X: gx}, Data: dataFor(), Cell: "global:" + gn + ":neg", Pos: -1, Globals: c01Globals},
				c01Case{E: &ref.Call{Fn: "isNonnull", Args: []ref.Expr{gx}}, Data: dataFor(), Cell: "global:" + gn + ":fn", Pos: -1, Globals: c01Globals})
		}
		// map literal read back through every access form
		ml := &ref.MapLit{Keys: []string{"a", "b c", "d'e"}, Vals: []ref.Expr{&ref.Lit{V: ref.Int(1)}, &ref.Lit{V: ref.Str("x")}, &ref.ListLit{Items: []ref.Expr{&ref.Lit{V: ref.Int(9)}}}}}
		_ = ml
		// data references: every access form over nested data, null-safe chains, past-the-end, non-collections
		nested := ref.MapOf("a", ref.MapOf("b", ref.Value{K: ref.KList, ID: 601, L: []ref.Value{ref.Int(10), ref.MapOf("c", ref.Str("deep"))}}), "n", ref.Null, "s", ref.Str("str"), "i", ref.Int(5))
		nested.ID = 600
		refs := []*ref.DataRef{
			{Name: "d", Acc: []ref.Acc{{Kind: 0, Key: "a"}, {Kind: 0, Key: "b"}, {Kind: 1, Index: 0}}},
			{Name: "d", Acc: []ref.Acc{{Kind: 0, Key: "a"}, {Kind: 0, Key: "b"}, {Kind: 2, Arg: &ref.Lit{V: ref.Int(1)}}, {Kind: 0, Key: "c"}}},
			{Name: "d", Acc: []ref.Acc{{Kind: 2, Arg: &ref.Lit{V: ref.Str("a")}}, {Kind: 2, Arg: &ref.Lit{V: ref.Str("b")}}, {Kind: 1, Index: 1}, {Kind: 2, Arg: &ref.Lit{V: ref.Str("c")}}}},
			{Name: "d", Acc: []ref.Acc{{Kind: 0, Key: "n", NullSafe: true}, {Kind: 0, Key: "q", NullSafe: true}}},
			{Name: "d", Acc: []ref.Acc{{Kind: 0, Key: "n"}, {Kind: 0, Key: "q", NullSafe: true}, {Kind: 0, Key: "r"}, {Kind: 1, Index: 3}}},
			{Name: "d", Acc: []ref.Acc{{Kind: 0, Key: "n"}, {Kind: 0, Key: "q"}}},
			{Name: "d", Acc: []ref.Acc{{Kind: 0, Key: "missing"}}},
			{Name: "d", Acc: []ref.Acc{{Kind: 0, Key: "missing", NullSafe: true}, {Kind: 0, Key: "x", NullSafe: true}}},
			{Name: "d", Acc: []ref.Acc{{Kind: 0, Key: "missing"}, {Kind: 0, Key: "x"}}},
			{Name: "d", Acc: []ref.Acc{{Kind: 0, Key: "a"}, {Kind: 0, Key: "b"}, {Kind: 1, Index: 2}}},
			{Name: "d", Acc: []ref.Acc{{Kind: 0, Key: "a"}, {Kind: 0, Key: "b"}, {Kind: 2, Arg: &ref.Lit{V: ref.Int(7)}, NullSafe: true}}},
			{Name: "d", Acc: []ref.Acc{{Kind: 0, Key: "s"}, {Kind: 0, Key: "x"}}},
			{Name: "d", Acc: []ref.Acc{{Kind: 0, Key: "i"}, {Kind: 1, Index: 0}}},
			{Name: "d", Acc: []ref.Acc{{Kind: 0, Key: "s", NullSafe: true}, {Kind: 2, Arg: &ref.Lit{V: ref.Int(0)}, NullSafe: true}}},
			{Name: "u"}, {Name: "u", Acc: []ref.Acc{{Kind: 0, Key: "x", NullSafe: true}}}, {Name: "u", Acc: []ref.Acc{{Kind: 0, Key: "x"}}},
			{Name: "d", Acc: []ref.Acc{{Kind: 0, Key: "a"}, {Kind: 0, Key: "b"}, {Kind: 2, Arg: &ref.Binary{Op: "-", L: &ref.DataRef{Name: "d", Acc: []ref.Acc{{Kind: 0, Key: "i"}}}, R: &ref.Lit{V: ref.Int(5)}}}}},
		}
		for _, r := range refs {
			add(r, map[string]ref.Value{"d": nested}, "dataref")
			add(&ref.Binary{Op: "?:", L: r, R: &ref.Lit{V: ref.Str("dflt")}}, map[string]ref.Value{"d": nested}, "dataref:elvis")
			add(&ref.Call{Fn: "isNonnull", Args: []ref.Expr{r}}, map[string]ref.Value{"d": nested}, "dataref:isNonnull")
		}
	})
	return c01Sys
}

// vars collects the variables an expression references.
func exprVars(e ref.Expr, into map[string]bool) {
	switch e := e.(type) {
	case *ref.Paren:
		exprVars(e.X, into)
	case *ref.DataRef:
		if e.Name != "ij" {
			into[e.Name] = true
		}
		for _, a := range e.Acc {
			if a.Kind == 2 {
				exprVars(a.Arg, into)
			}
		}
	case *ref.Unary:
		exprVars(e.X, into)
	case *ref.Binary:
		exprVars(e.L, into)
		exprVars(e.R, into)
	case *ref.Tern:
		exprVars(e.C, into)
		exprVars(e.A, into)
		exprVars(e.B, into)
	case *ref.Call:
		for _, a := range e.Args {
			exprVars(a, into)
		}
	case *ref.ListLit:
		for _, a := range e.Items {
			exprVars(a, into)
		}
	case *ref.MapLit:
		for _, a := range e.Vals {
			exprVars(a, into)
		}
	}
}

func hasOperator(e ref.Expr) bool {
	switch e := e.(type) {
	case *ref.Paren:
		return hasOperator(e.X)
	case *ref.DataRef:
		return len(e.Acc) > 0
	case *ref.Unary, *ref.Binary, *ref.Tern, *ref.Call:
		return true
	case *ref.ListLit:
		return len(e.Items) > 0
	case *ref.MapLit:
		return len(e.Keys) > 0
	}
	return false
}

// positions that take an expression. Each returns the body of the entry
// template, or nil when the position does not apply to a value of this kind.
var c01Positions = []struct {
	name string
	mk   func(e ref.Expr, v ref.Value, st ref.Status) []ref.Node
}{
	{"print-implicit", func(e ref.Expr, v ref.Value, st ref.Status) []ref.Node { return []ref.Node{&ref.Print{E: e}} }},
	{"print-explicit", func(e ref.Expr, v ref.Value, st ref.Status) []ref.Node {
		return []ref.Node{&ref.Print{E: e, Explicit: true}}
	}},
	{"if", func(e ref.Expr, v ref.Value, st ref.Status) []ref.Node {
		return []ref.Node{&ref.If{Conds: []ref.Expr{e}, Bodies: [][]ref.Node{{&ref.Raw{Text: "T"}}}, HasElse: true, Else: []ref.Node{&ref.Raw{Text: "F"}}}}
	}},
	{"elseif", func(e ref.Expr, v ref.Value, st ref.Status) []ref.Node {
		return []ref.Node{&ref.If{Conds: []ref.Expr{&ref.Lit{V: ref.Bool(false)}, e}, Bodies: [][]ref.Node{{&ref.Raw{Text: "0"}}, {&ref.Raw{Text: "T"}}}, HasElse: true, Else: []ref.Node{&ref.Raw{Text: "F"}}}}
	}},
	{"let", func(e ref.Expr, v ref.Value, st ref.Status) []ref.Node {
		return []ref.Node{&ref.LetVal{Name: "v", E: e}, &ref.Raw{Text: "["}, &ref.Print{E: &ref.DataRef{Name: "v"}}, &ref.Raw{Text: "]"}}
	}},
	{"param", func(e ref.Expr, v ref.Value, st ref.Status) []ref.Node {
		return []ref.Node{&ref.CallT{Target: "t.show", NameSrc: ".show", Params: []ref.Param{{Name: "p", E: e}}}}
	}},
	{"param-attr", func(e ref.Expr, v ref.Value, st ref.Status) []ref.Node {
		if strings.ContainsAny(ref.Src(e, ref.PrintStyle{}), "\"\\\n\r") {
			return nil
		}
		return []ref.Node{&ref.CallT{Target: "t.show", NameSrc: ".show", Params: []ref.Param{{Name: "p", E: e, AttrSyntax: true}}}}
	}},
	{"switch", func(e ref.Expr, v ref.Value, st ref.Status) []ref.Node {
		cases := []ref.SwitchCase{{Vals: []ref.Expr{&ref.Lit{V: ref.Int(7)}, &ref.Lit{V: ref.Str("abc")}}, Body: []ref.Node{&ref.Raw{Text: "hit"}}},
			{Vals: []ref.Expr{&ref.Lit{V: ref.Bool(true)}, &ref.Lit{V: ref.Null}, &ref.Lit{V: ref.Float(2.5)}}, Body: []ref.Node{&ref.Raw{Text: "hit2"}}}}
		return []ref.Node{&ref.Switch{E: e, Cases: cases, HasDef: true, Default: []ref.Node{&ref.Raw{Text: "dflt"}}}}
	}},
	{"switch-many", func(e ref.Expr, v ref.Value, st ref.Status) []ref.Node {
		// a dozen cases of literal values (the operand classes and what the operators make of them: 7 / 7 is the float 1.0
		// and selects {case 1})
		vals := []ref.Value{ref.Int(0), ref.Int(1), ref.Int(2), ref.Int(7), ref.Int(-3), ref.Int(49), ref.Int(14), ref.Str("abc"), ref.Str(""), ref.Bool(true), ref.Bool(false), ref.Null, ref.Float(2.5), ref.Int(-6), ref.Str("42"), ref.Int(42)}
		var cases []ref.SwitchCase
		for k := 0; k < len(vals); k += 2 {
			c := ref.SwitchCase{Vals: []ref.Expr{&ref.Lit{V: vals[k]}}, Body: []ref.Node{&ref.Raw{Text: fmt.Sprintf("c%d", k)}}}
			if k%4 == 0 {
				c.Vals = append(c.Vals, &ref.Lit{V: vals[k+1]})
			} else {
				cases = append(cases, ref.SwitchCase{Vals: []ref.Expr{&ref.Lit{V: vals[k+1]}}, Body: []ref.Node{&ref.Raw{Text: fmt.Sprintf("c%d", k+1)}}})
			}
			cases = append(cases, c)
		}
		return []ref.Node{&ref.Switch{E: e, Cases: cases, HasDef: true, Default: []ref.Node{&ref.Raw{Text: "dflt"}}}}
	}},
	{"case", func(e ref.Expr, v ref.Value, st ref.Status) []ref.Node {
		return []ref.Node{&ref.Switch{E: &ref.Lit{V: ref.Int(7)}, Cases: []ref.SwitchCase{{Vals: []ref.Expr{&ref.Lit{V: ref.Int(99)}, e}, Body: []ref.Node{&ref.Raw{Text: "eq7"}}}}, HasDef: true, Default: []ref.Node{&ref.Raw{Text: "ne7"}}}}
	}},
	{"foreach", func(e ref.Expr, v ref.Value, st ref.Status) []ref.Node {
		if st != ref.OK || v.K != ref.KList {
			e = &ref.ListLit{Items: []ref.Expr{e, &ref.Lit{V: ref.Int(1)}}}
		}
		return []ref.Node{&ref.Foreach{Var: "it", List: e, Body: []ref.Node{&ref.Print{E: &ref.DataRef{Name: "it"}}, &ref.Raw{Text: ";"}}, HasEmpty: true, IfEmpty: []ref.Node{&ref.Raw{Text: "empty"}}, Keyword: "foreach"}}
	}},
	{"for-range-arg", func(e ref.Expr, v ref.Value, st ref.Status) []ref.Node {
		if st != ref.OK || v.K != ref.KInt || v.I < -5 || v.I > 50 {
			return nil
		}
		return []ref.Node{&ref.Foreach{Var: "it", List: &ref.Call{Fn: "range", Args: []ref.Expr{e}}, Body: []ref.Node{&ref.Print{E: &ref.DataRef{Name: "it"}}}, Keyword: "for"}}
	}},
	{"directive-arg", func(e ref.Expr, v ref.Value, st ref.Status) []ref.Node {
		if st != ref.OK || v.K != ref.KInt || v.I < 0 {
			return nil
		}
		return []ref.Node{&ref.Print{E: &ref.Lit{V: ref.Str("0123456789abcdef")}, Dirs: []ref.Dir{{Name: "truncate", Args: []ref.Expr{e}}}}}
	}},
	{"list-item", func(e ref.Expr, v ref.Value, st ref.Status) []ref.Node {
		return []ref.Node{&ref.LetVal{Name: "v", E: &ref.ListLit{Items: []ref.Expr{&ref.Lit{V: ref.Int(0)}, e}}}, &ref.Print{E: &ref.DataRef{Name: "v", Acc: []ref.Acc{{Kind: 1, Index: 1}}}}}
	}},
	{"map-value", func(e ref.Expr, v ref.Value, st ref.Status) []ref.Node {
		return []ref.Node{&ref.LetVal{Name: "v", E: &ref.MapLit{Keys: []string{"k"}, Vals: []ref.Expr{e}}}, &ref.Print{E: &ref.DataRef{Name: "v", Acc: []ref.Acc{{Kind: 0, Key: "k"}}}}}
	}},
	{"index", func(e ref.Expr, v ref.Value, st ref.Status) []ref.Node {
		if st != ref.OK || v.K != ref.KInt || v.I < 0 || v.I > 6 {
			return nil
		}
		l := &ref.ListLit{Items: []ref.Expr{&ref.Lit{V: ref.Str("i0")}, &ref.Lit{V: ref.Str("i1")}, &ref.Lit{V: ref.Str("i2")}}}
		return []ref.Node{&ref.LetVal{Name: "v", E: l}, &ref.Print{E: &ref.Binary{Op: "?:", L: &ref.DataRef{Name: "v", Acc: []ref.Acc{{Kind: 2, Arg: e}}}, R: &ref.Lit{V: ref.Str("past")}}}}
	}},
	{"function-arg", func(e ref.Expr, v ref.Value, st ref.Status) []ref.Node {
		return []ref.Node{&ref.Print{E: &ref.Call{Fn: "isNonnull", Args: []ref.Expr{e}}}}
	}},
	{"call-data", func(e ref.Expr, v ref.Value, st ref.Status) []ref.Node {
		if strings.ContainsAny(ref.Src(e, ref.PrintStyle{}), "\"\\\n\r") {
			return nil
		}
		if st != ref.OK || v.K != ref.KMap {
			e = &ref.MapLit{Keys: []string{"p"}, Vals: []ref.Expr{e}}
		}
		return []ref.Node{&ref.CallT{Target: "t.show", NameSrc: ".show", Data: e, SelfClose: true}}
	}},
	{"css", func(e ref.Expr, v ref.Value, st ref.Status) []ref.Node {
		// the css command is scanned up to its closing brace as text: an expression with a brace in it
		// needs the double-brace form, which is not what this position is about
		if strings.ContainsAny(ref.Src(e, ref.PrintStyle{}), "{}") {
			return nil
		}
		return []ref.Node{&ref.Css{E: e, Suffix: "sfx"}}
	}},
	{"plural", func(e ref.Expr, v ref.Value, st ref.Status) []ref.Node {
		if st != ref.OK || v.K != ref.KInt {
			return nil
		}
		return []ref.Node{&ref.Msg{Desc: "d", Body: []ref.Node{&ref.Plural{E: e, Cases: []ref.PluralCase{{N: 0, Body: []ref.Node{&ref.Raw{Text: "none"}}}, {N: 7, Body: []ref.Node{&ref.Raw{Text: "seven"}}}}, Default: []ref.Node{&ref.Raw{Text: "many"}}}}}}
	}},
	{"msg-placeholder", func(e ref.Expr, v ref.Value, st ref.Status) []ref.Node {
		return []ref.Node{&ref.Msg{Desc: "d", Body: []ref.Node{&ref.Raw{Text: "a "}, &ref.Print{E: e}, &ref.Raw{Text: " b"}}}}
	}},
	{"four-times-in-a-loop", func(e ref.Expr, v ref.Value, st ref.Status) []ref.Node {
		// the same expression evaluated once per iteration (cells that mention $it see another value each time)
		list := &ref.ListLit{Items: []ref.Expr{&ref.Lit{V: ref.Int(0)}, &ref.Lit{V: ref.Int(1)}, &ref.Lit{V: ref.Int(2)}, &ref.Lit{V: ref.Int(3)}}}
		return []ref.Node{&ref.Foreach{Var: "it", List: list, Body: []ref.Node{&ref.Print{E: e}, &ref.Raw{Text: ";"}}, Keyword: "foreach"}}
	}},
	{"nested-loops", func(e ref.Expr, v ref.Value, st ref.Status) []ref.Node {
		inner := &ref.Foreach{Var: "it", List: &ref.ListLit{Items: []ref.Expr{&ref.Lit{V: ref.Int(0)}, &ref.Lit{V: ref.Int(1)}, &ref.Lit{V: ref.Int(2)}}}, Body: []ref.Node{&ref.Print{E: e}, &ref.Raw{Text: ";"}}, Keyword: "foreach"}
		mid := &ref.Foreach{Var: "mid", List: &ref.Call{Fn: "range", Args: []ref.Expr{&ref.Lit{V: ref.Int(2)}}}, Body: []ref.Node{inner, &ref.Raw{Text: "|"}}, Keyword: "for"}
		return []ref.Node{&ref.Foreach{Var: "out", List: &ref.ListLit{Items: []ref.Expr{&ref.Lit{V: ref.Int(7)}, &ref.Lit{V: ref.Int(8)}}}, Body: []ref.Node{mid, &ref.Raw{Text: "/"}}, Keyword: "foreach"}}
	}},
	{"content-param", func(e ref.Expr, v ref.Value, st ref.Status) []ref.Node {
		return []ref.Node{&ref.CallT{Target: "t.show", NameSrc: ".show", Params: []ref.Param{{Name: "p", IsContent: true, Content: []ref.Node{&ref.Print{E: e, Dirs: []ref.Dir{{Name: "noAutoescape"}}}}}}}}
	}},
}

// c01IJ is the injected data of every C01 render.
var c01IJ = func() ref.Value {
	nums := ref.Value{K: ref.KList, ID: 701, L: []ref.Value{ref.Int(10), ref.Int(11), ref.Int(12), ref.Int(13)}}
	names := ref.Value{K: ref.KList, ID: 702, L: []ref.Value{ref.Str("n0"), ref.Str("n1"), ref.Str("n<2>"), ref.Str("n3")}}
	tbl := ref.MapOf("k0", ref.Int(100), "k1", ref.Int(101), "k2", ref.Int(102), "k3", ref.Int(103))
	tbl.ID = 703
	v := ref.MapOf("user", ref.Str("u&1"), "count", ref.Int(3), "nums", nums, "names", names, "tbl", tbl, "none", ref.Null)
	v.ID = 700
	return v
}()

// c01Program wraps the expression at the position into a one-file bundle.
func c01Program(e ref.Expr, d map[string]ref.Value, pos int, globals map[string]ref.Value) (*gen.Program, string) {
	env := ref.NewEnv(d, &c01IJ, globals)
	v, st := ref.Eval(e, env)
	body := c01Positions[pos].mk(e, v, st)
	if body == nil {
		pos = 0
		body = c01Positions[0].mk(e, v, st)
	}
	vars := map[string]bool{}
	exprVars(e, vars)
	t := &ref.Template{Name: "main", Body: body}
	var names []string
	for k := range vars {
		names = append(names, k)
	}
	sortStrings(names)
	for _, k := range names {
		if k == "it" || k == "v" || (c01Positions[pos].name == "nested-loops" && (k == "out" || k == "mid")) {
			continue
		}
		t.Params = append(t.Params, ref.ParamDecl{Name: k, Optional: true})
	}
	show := &ref.Template{Name: "show", Params: []ref.ParamDecl{{Name: "p", Optional: true}}, Body: []ref.Node{&ref.Raw{Text: "<"}, &ref.Print{E: &ref.DataRef{Name: "p"}}, &ref.Raw{Text: ">"}}}
	f := &ref.File{Name: "c01.soy", Namespace: "t", Templates: []*ref.Template{t, show}}
	return &gen.Program{B: &ref.Bundle{Files: []*ref.File{f}, Globals: globals}, Entry: "t.main", Data: d}, c01Positions[pos].name
}

func sortStrings(s []string) {
	for i := 1; i < len(s); i++ {
		for j := i; j > 0 && s[j] < s[j-1]; j-- {
			s[j], s[j-1] = s[j-1], s[j]
		}
	}
}

func c01N(tier string) (sys, rnd int) {
	sys = len(c01Systematic())
	if tier == "thorough" {
		return sys * len(c01Positions), 8000000
	}
	return sys * 2, 400000
}

// c01Volume is the number of volume cases: one file of about 2700
// templates, each printing a random expression (and using it as a condition and
// as a let value), so that whatever the parser keeps for the lifetime of a file
// has seen more than ten thousand operators before the last expressions come.
func c01Volume(tier string) int {
	if tier == "thorough" {
		return 160
	}
	return 16
}

var c01RandGlobals = map[string]ref.Value{"GLOBAL_INT": ref.Int(7), "app.NAME": ref.Str("soy<app>"), "app.RATIO": ref.Float(0.5), "FLAG": ref.Bool(true)}

// c01RandomExpr draws typed bindings and a random expression over them.
func c01RandomExpr(r *fw.Rand, depth int, globals bool) (ref.Expr, map[string]ref.Value) {
	g := &gen.G{R: r, O: gen.Opts{ErrPlants: true, Globals: globals, Astral: true}}
	d := map[string]ref.Value{}
	nextID := 700
	perm := r.Perm(len(gen.ParamPool))
	nb := 2 + r.Intn(4)
	for k := 0; k < nb; k++ {
		p := gen.ParamPool[perm[k]]
		if p.Name == "e" {
			continue
		}
		g.Bind(p.Name, p.Ty)
		d[p.Name] = g.Data(p.Ty, &nextID)
	}
	ty := []gen.Ty{gen.TInt, gen.TInt, gen.TStr, gen.TBool, gen.TFloat, gen.TList(gen.TInt), gen.TMapAS}[r.Intn(7)]
	e := g.Expr(ty, depth)
	if g.O.Globals && r.P(1, 2) {
		e = &ref.Binary{Op: "+", L: &ref.Global{Name: []string{"GLOBAL_INT", "app.NAME", "app.RATIO"}[r.Intn(3)]}, R: e}
	}
	return e, d
}

func countOps(e ref.Expr) int {
	n := 0
	switch x := e.(type) {
	case *ref.Binary:
		n = 1 + countOps(x.L) + countOps(x.R)
	case *ref.Unary:
		n = countOps(x.X)
	case *ref.Tern:
		n = countOps(x.C) + countOps(x.A) + countOps(x.B)
	case *ref.Call:
		for _, a := range x.Args {
			n += countOps(a)
		}
	}
	return n
}

// c01VolumeCase builds, compiles and judges one large file.
func c01VolumeCase(ctx *fw.Ctx, i int) fw.Result {
	r := ctx.Rng
	nt := 2400 + r.Intn(600)
	f := &ref.File{Name: "volume.soy", Namespace: "t"}
	b := &ref.Bundle{Files: []*ref.File{f}, Globals: c01RandGlobals}
	datas := make([]map[string]ref.Value, nt)
	ops := 0
	for k := 0; k < nt; k++ {
		var e ref.Expr
		var d map[string]ref.Value
		for try := 0; ; try++ {
			e, d = c01RandomExpr(r, 4+r.Intn(2), true)
			if _, st := ref.Eval(e, ref.NewEnv(d, &c01IJ, c01RandGlobals)); st == ref.OK || (st == ref.Err && try > 2 && k%50 == 49) {
				break
			}
		}
		ops += 3 * countOps(e)
		vars := map[string]bool{}
		exprVars(e, vars)
		t := &ref.Template{Name: fmt.Sprintf("m%d", k)}
		var names []string
		for n := range vars {
			names = append(names, n)
		}
		sortStrings(names)
		for _, n := range names {
			if n != "it" && n != "v" {
				t.Params = append(t.Params, ref.ParamDecl{Name: n, Optional: true})
			}
		}
		t.Body = []ref.Node{&ref.Print{E: e}, &ref.Raw{Text: "|"},
			&ref.If{Conds: []ref.Expr{e}, Bodies: [][]ref.Node{{&ref.Raw{Text: "T"}}}, HasElse: true, Else: []ref.Node{&ref.Raw{Text: "F"}}}, &ref.Raw{Text: "|"},
			&ref.LetVal{Name: "v", E: e}, &ref.Print{E: &ref.DataRef{Name: "v"}}}
		f.Templates = append(f.Templates, t)
		datas[k] = d
	}
	style := ref.PrintStyle{Tight: i%3 == 1, Wide: i%3 == 2}
	files := bundleSources(b, ref.Layout{Style: style})
	ctx.Cell("pos:volume")
	ctx.Obs("volume_operators", int64(ops))
	prog := &gen.Program{B: b, Entry: "t.m0", Data: datas[0]}
	cd := dump(files, prog, datas[0])
	tofu, err := compile(files, b.Globals)
	ctx.Eval(files[0].Text)
	if err != nil {
		cd.Files = nil // (half a megabyte; the case is regenerated from its index)
		return fw.Result{Verdict: fw.Violated, Key: "compile-rejects-valid@volume", Case: cd,
			Msg: fmt.Sprintf("a file of %d templates with %d operators in all, each expression valid on its own, is rejected: %v", nt, ops, errText(err))}
	}
	for k, t := range f.Templates {
		segs, st := ref.Render(b, "t."+t.Name, datas[k], ref.RenderOpts{IJ: &c01IJ})
		if st == ref.OOD {
			continue
		}
		got, rerr := render(tofu, "t."+t.Name, datas[k], &c01IJ, nil)
		one := &caseDump{Files: []srcFile{{Name: "volume.soy (template " + t.Name + " of it)", Text: ref.FileSrc(&ref.File{Name: f.Name, Namespace: f.Namespace, Templates: []*ref.Template{t}}, ref.Layout{Style: style}, nil)}},
			Entry: "t." + t.Name, Data: goData(datas[k])}
		if res := compareRender(ctx, segs, st, got, rerr, one); res != nil {
			res.Key += "@volume"
			res.Msg = fmt.Sprintf("template %d of %d in one file: %s", k, nt, res.Msg)
			return *res
		}
	}
	return fw.Result{Verdict: fw.Held}
}

func init() {
	fw.Register(&fw.Prop{
		ID:    "C01",
		Level: "exploration",
		Rule: "systematic: every binary operator x every ordered pair of 20 operand classes (three of them the non-finite quotients n/0) (as variables and as literals), every unary x class, every ordered pair of operators in both " +
			"nestings with minimal and redundant parentheses, every function x argument-class tuple, every literal form, every data-reference form over nested data; each placed in " +
			"21 syntactic positions (quick: two positions per expression, rotating; thorough: all); random: seeded typed expression trees of depth <= 4/6 with random data and position. " +
			"Oracle: reference evaluator. distinct = distinct (source, data); non-trivial = contains an operator, function, access path or non-empty collection literal",
		N: func(tier string) int { s, r := c01N(tier); return s + r + c01Volume(tier) },
		Run: func(ctx *fw.Ctx, i int) fw.Result {
			sys, rnd := c01N(ctx.Tier)
			ref.NonFinite = true // quotients by zero take part in comparisons, equality and truthiness
			if i >= sys+rnd {
				return c01VolumeCase(ctx, i)
			}
			var e ref.Expr
			var d map[string]ref.Value
			var pos int
			cell := "random"
			var globals map[string]ref.Value
			if i < sys {
				all := c01Systematic()
				c := all[i%len(all)]
				e, d, cell = c.E, c.Data, c.Cell
				globals = c.Globals
				if c.Pos >= 0 {
					pos = c.Pos
				} else if ctx.Tier == "thorough" {
					pos = i / len(all)
				} else if i < len(all) {
					pos = 0
				} else {
					pos = 1 + (i*7+i/len(c01Positions))%(len(c01Positions)-1)
				}
			} else {
				useGlobals := ctx.Rng.P(1, 4)
				depth := 2 + ctx.Rng.Intn(3)
				if ctx.Tier == "thorough" {
					depth = 2 + ctx.Rng.Intn(5)
				}
				// bind a few typed variables, then generate over them
				e, d = c01RandomExpr(ctx.Rng, depth, useGlobals)
				if useGlobals {
					globals = c01RandGlobals
				}
				pos = ctx.Rng.Intn(len(c01Positions))
			}
			prog, posName := c01Program(e, d, pos, globals)
			style := ref.PrintStyle{Tight: i%3 == 1, Wide: i%3 == 2, TrailingComma: i%5 == 3}
			files := bundleSources(prog.B, ref.Layout{Style: style})
			ctx.Cell("pos:" + posName)
			cd := dump(files, prog, d)
			segs, st := ref.Render(prog.B, prog.Entry, d, ref.RenderOpts{IJ: &c01IJ})
			tofu, err := compile(files, prog.B.Globals)
			if err != nil {
				ctx.Eval("")
				key := "compile-rejects-valid@" + posName
				if strings.Contains(ref.Src(e, style), "-0x") && strings.Contains(errText(err), `bad number syntax: "-"`) {
					key = "compile-rejects-valid:minus-before-hex-literal" // (one defect whatever the position: see known_findings.txt)
				}
				return fw.Result{Verdict: fw.Violated, Key: key, Case: cd,
					Msg: fmt.Sprintf("valid expression %q rejected in position %s: %v", ref.Src(e, style), posName, errText(err))}
			}
			id := ""
			if hasOperator(e) {
				id = files[0].Text + fmt.Sprint(cd.Data)
			}
			isRandomInt := false
			if c, ok := e.(*ref.Call); ok && c.Fn == "randomInt" && posName == "print-implicit" {
				if n, ok := d["x"]; ok && n.K == ref.KInt && n.I > 0 {
					isRandomInt = true
				}
			}
			if st == ref.OOD && !isRandomInt {
				// not judged (and not executed: totality on ill-typed programs is C06's business)
				ctx.Obs("out_of_domain", 1)
				ctx.Obs("out_of_domain_but_compiled", 1)
				return fw.Result{Verdict: fw.Skip}
			}
			got, rerr := render(tofu, prog.Entry, d, &c01IJ, nil)
			ctx.Eval(id)
			// randomInt has no single defined value: check its range
			if c, ok := e.(*ref.Call); ok && c.Fn == "randomInt" && posName == "print-implicit" {
				if n, ok := d["x"]; ok && n.K == ref.KInt && n.I > 0 {
					r, perr := strconv.ParseInt(got, 10, 64)
					ctx.Cell(cell)
					if rerr != nil || perr != nil || r < 0 || r >= n.I {
						return fw.Result{Verdict: fw.Violated, Key: "randomInt-range", Case: cd, Msg: fmt.Sprintf("randomInt(%d) printed %q err=%v", n.I, got, rerr)}
					}
					return fw.Result{Verdict: fw.Held}
				}
			}
			ctx.Cell(cell)
			if len(prog.B.Globals) > 0 && rerr == nil && i%3 == 0 {
				// the same sources compiled again with other values for the globals: each bundle prints its own values,
				// and the first one keeps printing what it printed
				g2 := map[string]ref.Value{}
				for k, v := range prog.B.Globals {
					switch v.K {
					case ref.KInt:
						v = ref.Int(v.I + 1)
					case ref.KStr:
						v = ref.Str(v.S + "~")
					case ref.KBool:
						v = ref.Bool(!v.B)
					}
					g2[k] = v
				}
				if tofu2, err2 := compile(files, g2); err2 == nil {
					_, _ = render(tofu2, prog.Entry, d, &c01IJ, nil)
					again, aerr := render(tofu, prog.Entry, d, &c01IJ, nil)
					ctx.Obs("recompiled_with_other_globals", 1)
					if aerr != nil || again != got {
						return fw.Result{Verdict: fw.Violated, Key: "bundle-affected-by-another-compilation", Case: cd,
							Msg: fmt.Sprintf("expression %q: the bundle printed %q; after the same sources were compiled again with other values for the globals it prints %q (err %v)", ref.Src(e, style), got, again, aerr)}
					}
				}
			}
			if i%3001 == 0 {
				ctx.Sample(map[string]interface{}{"expr": ref.Src(e, style), "position": posName, "data": cd.Data, "output": got, "err": errText(rerr), "reference": ref.Text(segs), "reference_errors": st == ref.Err})
			}
			if r := compareRender(ctx, segs, st, got, rerr, cd); r != nil {
				r.Key += "@" + posName
				if i < sys {
					r.Msg = "cell " + cell + ": " + r.Msg
				}
				r.Msg = fmt.Sprintf("expression %q in position %s: %s", ref.Src(e, style), posName, r.Msg)
				return *r
			}
			return fw.Result{Verdict: fw.Held}
		},
		Floors: func(obs map[string]int64, cells map[string]bool, tier string) []string {
			var why []string
			for _, p := range c01Positions {
				if !cells["pos:"+p.name] {
					why = append(why, "position never exercised: "+p.name)
				}
			}
			for _, op := range ref.BinaryOps {
				seen := false
				for c := range cells {
					if strings.HasPrefix(c, "bin:"+op+":") {
						seen = true
					}
				}
				if !seen {
					why = append(why, "operator never judged: "+op)
				}
			}
			if obs["renders_err"] == 0 {
				why = append(why, "no case in which the reference demands an error")
			}
			if obs["renders_ok"] == 0 {
				why = append(why, "no successful render compared")
			}
			return why
		},
		Assumptions: []string{
			"reference evaluator in /verif/harness/ref written from the language definition (official precedence table, int/float arithmetic, strict equality, truthiness table)",
			"out of domain (not judged): ill-typed operands, ints beyond 2^53, zero divisors, float text outside the dyadic zone, list/map identity of literals, order of map keys, negative half-way rounding",
		},
	})
}
