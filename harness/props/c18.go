package props

import (
	"fmt"
	"regexp"
	"runtime"
	"strings"
	"sync/atomic"
	"time"

	"github.com/robfig/soy"
	"github.com/robfig/soy/parse"

	"verif/fw"
)

var c18BaseGoroutines int
var c18KnownBlocked int64

// scannerCensus returns the goroutines that have a frame of the parse package's
// scanner, with their scheduler state, from a full goroutine dump.
func scannerCensus() (n int, states []string) {
	buf := make([]byte, 1<<20)
	for {
		m := runtime.Stack(buf, true)
		if m < len(buf) {
			buf = buf[:m]
			break
		}
		buf = make([]byte, 2*len(buf))
	}
	for _, g := range strings.Split(string(buf), "\n\n") {
		if !strings.Contains(g, "github.com/robfig/soy/parse.(*lexer).run") {
			continue
		}
		n++
		hdr := g
		if i := strings.IndexByte(g, '\n'); i > 0 {
			hdr = g[:i]
		}
		site := "?"
		for _, l := range strings.Split(g, "\n")[1:] {
			if strings.HasPrefix(l, "\t") || !strings.Contains(l, "github.com/robfig/soy/parse.") {
				continue
			}
			helper := false
			for _, h := range helperFrames {
				if strings.Contains(l, h) {
					helper = true
				}
			}
			if !helper {
				site = fw.ShortFunc(l)
				if k := strings.LastIndex(site, "("); k > 0 {
					site = site[:k]
				}
				break
			}
		}
		st := regexp.MustCompile(`\[([a-z ]+)`).FindStringSubmatch(hdr)
		state := "?"
		if st != nil {
			state = strings.TrimSpace(st[1])
		}
		states = append(states, state+"@"+site)
	}
	return
}

func gcd(a, b uint64) uint64 {
	for b != 0 {
		a, b = b, a%b
	}
	return a
}

func init() {
	fw.Register(&fw.Prop{
		ID:    "C18",
		Level: "exploration",
		Rule: "cases = the C05 input families (prefixes, tag sequences, token edits, random bytes, expressions with trailing tokens, globals files), each shard parsed as one long " +
			"sequence in one process through parse.SoyFile / Bundle.Compile / parse.Expr / soy.ParseGlobals; after every return the live-scanner gauge (hook) must be back to its " +
			"value before the call; a goroutine census showing a scanner blocked in chan send after the return is the refuting observation; distinct = distinct input bytes per entry; non-trivial = length >= 2",
		N:          func(tier string) int { return famCount(families(tier)) },
		Sequential: true,
		Setup: func(tier string, seed uint64, config string) string {
			parse.VerifOverBudget = func(kind string, steps int64) {
				in, _ := curInput.Load().(parseInput)
				fw.AbortWith(fw.Inconclusive, 97, "parse-did-not-return", "parse exceeded its step budget (that is C05's subject); C18 cannot judge this input", in)
			}
			c18BaseGoroutines = runtime.NumGoroutine()
			return ""
		},
		Run: func(ctx *fw.Ctx, i int) fw.Result {
			// each shard parses a contiguous stretch of the list as one long sequence; the list is walked in a fixed
			// scrambled order, so that every stretch holds inputs of every family (and the few huge ones are spread out)
			fams := families(ctx.Tier)
			total := uint64(famCount(fams))
			stride := uint64(1000003)
			for total%stride == 0 || gcd(total, stride) != 1 {
				stride += 2
			}
			in := famAt(fams, int(uint64(i)*stride%total), ctx.Rng)
			entry := in.Entry
			before := atomic.LoadInt64(&parse.VerifLexLive)
			started0 := atomic.LoadInt64(&parse.VerifLexStarted)
			if in.Entry == "file" && i%4 == 1 {
				entry = "compile"
				curInput.Store(in)
				atomic.StoreInt64(&parse.VerifLexSteps, 0)
				atomic.StoreInt64(&parse.VerifParseSteps, 0)
				atomic.StoreInt64(&parse.VerifStepLimit, int64(64*(len(in.Text)+64)))
				// a bundle of several files with the hostile one first, in the middle or last (and one bundle in eight
				// defining a template twice): whatever Compile starts for the other files must be gone when it returns
				bnd := soy.NewBundle()
				const okA, okB = "{namespace c18a}\n/** */\n{template .t}a{call .u /}{/template}\n/** */\n{template .u}u{/template}\n", "{namespace c18b}\n/** */\n{template .t}b{/template}\n"
				switch (i / 4) % 8 {
				case 0, 1:
					bnd.AddTemplateString("in.soy", in.Text).AddTemplateString("a.soy", okA).AddTemplateString("b.soy", okB)
				case 2, 3:
					bnd.AddTemplateString("a.soy", okA).AddTemplateString("in.soy", in.Text).AddTemplateString("b.soy", okB)
				case 4:
					bnd.AddTemplateString("a.soy", okA).AddTemplateString("b.soy", okB).AddTemplateString("in.soy", in.Text)
				case 5:
					bnd.AddTemplateString("a.soy", okA).AddTemplateString("a2.soy", okA).AddTemplateString("in.soy", in.Text).AddTemplateString("b.soy", okB)
				default:
					bnd.AddTemplateString("in.soy", in.Text)
				}
				bnd.Compile()
				atomic.StoreInt64(&parse.VerifStepLimit, 0)
			} else {
				callParser(in)
			}
			// The scanner's exit is asynchronous. The verdict does not depend on time or load: the call
			// is judged only when the gauge is back (held) or when the goroutine census shows a scanner
			// blocked in a channel send that nothing can ever receive (violated). While a scanner is
			// still runnable we keep yielding; a generous watchdog turns that into inconclusive.
			rounds := 0
			t0 := time.Now()
			for atomic.LoadInt64(&parse.VerifLexLive) > before {
				runtime.Gosched()
				rounds++
				if rounds%500 == 0 {
					_, states := scannerCensus()
					blocked := 0
					for _, st := range states {
						if strings.HasPrefix(st, "chan send") {
							blocked++
						}
					}
					if int64(blocked) > c18KnownBlocked {
						c18KnownBlocked = int64(blocked)
						break
					}
					time.Sleep(200 * time.Microsecond)
					if time.Since(t0) > 30*time.Second {
						return fw.Result{Verdict: fw.Inconclusive, Key: "scanner-neither-exited-nor-blocked", Case: in,
							Msg: fmt.Sprintf("after 30 s the scanner is still runnable: %v", states)}
					}
				}
			}
			after := atomic.LoadInt64(&parse.VerifLexLive)
			started := atomic.LoadInt64(&parse.VerifLexStarted) - started0
			id := ""
			if len(in.Text) >= 2 {
				id = entry + "\x00" + in.Text
			}
			ctx.Eval(id)
			ctx.Obs("scanners_started", started)
			ctx.Obs("scanners_finished", started-(after-before))
			ctx.Max("max_settle_rounds", float64(rounds))
			ctx.Cell("entry:" + entry)
			ctx.Cell("family:" + in.Family)
			if i%20011 == 0 {
				ctx.Sample(map[string]interface{}{"entry": entry, "family": in.Family, "text": fw.Trim(in.Text, 200), "scanners_started": started, "gauge_after": after})
			}
			if i%256 == 0 {
				// cross-check the gauge against the goroutine census: every scanner the census shows
				// blocked in a channel send must be counted by the gauge (a scanner that is just
				// starting or just returning is in the census but legitimately not in the gauge)
				_, states := scannerCensus()
				ctx.Obs("census_taken", 1)
				blocked := int64(0)
				for _, st := range states {
					if strings.HasPrefix(st, "chan send") {
						blocked++
					}
				}
				if blocked > after {
					return fw.Result{Verdict: fw.Violated, Key: "census-disagrees-with-gauge", Case: in,
						Msg: fmt.Sprintf("census shows %d scanner goroutines blocked in chan send, gauge says %d live: %v", blocked, after, states)}
				}
			}
			if after > before {
				_, states := scannerCensus()
				return fw.Result{Verdict: fw.Violated, Key: "scanner-left-behind:" + entry, Case: in,
					Msg: fmt.Sprintf("after %s returned, %d scanner goroutine(s) started by it are blocked in a channel send that nothing will receive; census: %v", entry, after-before, states)}
			}
			return fw.Result{Verdict: fw.Held}
		},
		Finish: func(ctx *fw.Ctx) *fw.Result {
			for t0 := time.Now(); runtime.NumGoroutine() > c18BaseGoroutines && time.Since(t0) < 5*time.Second; {
				runtime.Gosched()
				if n, _ := scannerCensus(); n == 0 {
					time.Sleep(time.Millisecond)
				} else {
					break
				}
			}
			ctx.Obs("goroutines_at_end", int64(runtime.NumGoroutine()))
			ctx.Obs("goroutines_baseline", int64(c18BaseGoroutines))
			ctx.Obs("sequences", 1)
			if n := runtime.NumGoroutine(); n > c18BaseGoroutines {
				_, states := scannerCensus()
				return &fw.Result{Verdict: fw.Violated, Key: "goroutine-count-grew",
					Msg: fmt.Sprintf("goroutines at end of sequence: %d, baseline %d; scanner census: %v", n, c18BaseGoroutines, states)}
			}
			return nil
		},
		Floors: func(obs map[string]int64, cells map[string]bool, tier string) []string {
			var why []string
			if obs["scanners_started"] == 0 || obs["scanners_finished"] == 0 {
				why = append(why, "the live-scanner gauge never moved (hook not linked?)")
			}
			if obs["census_taken"] == 0 {
				why = append(why, "no goroutine census was taken")
			}
			for _, e := range []string{"entry:file", "entry:expr", "entry:globals", "entry:compile"} {
				if !cells[e] {
					why = append(why, "entry point not exercised: "+e)
				}
			}
			return why
		},
		Assumptions: []string{
			"a scanner goroutine in state chan send after its parse call returned can never be woken (the only receiver has returned); a still-runnable scanner is waited for, never judged",
			"inputs on which the parse itself does not return are C05's subject and are reported as inconclusive here",
		},
	})
}
