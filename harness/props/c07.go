package props

import (
	"fmt"
	"sort"
	"strings"
	"sync"

	"github.com/robfig/soy/soyhtml"

	"verif/fw"
	"verif/gen"
	"verif/ref"
)

// ---- tree access for injections

type blockRef struct {
	body   *[]ref.Node
	parent *[]ref.Node // the block containing the node that owns body (nil for template bodies)
	idx    int         // index of the owning node in parent
	tmpl   *ref.Template
}

func collectBlocks(b *ref.Bundle) []blockRef {
	var out []blockRef
	var walk func(body *[]ref.Node, t *ref.Template)
	walk = func(body *[]ref.Node, t *ref.Template) {
		for i, n := range *body {
			add := func(sub *[]ref.Node) {
				out = append(out, blockRef{sub, body, i, t})
				walk(sub, t)
			}
			switch n := n.(type) {
			case *ref.If:
				for k := range n.Bodies {
					add(&n.Bodies[k])
				}
				if n.HasElse {
					add(&n.Else)
				}
			case *ref.Switch:
				for k := range n.Cases {
					add(&n.Cases[k].Body)
				}
				if n.HasDef {
					add(&n.Default)
				}
			case *ref.Foreach:
				add(&n.Body)
				if n.HasEmpty {
					add(&n.IfEmpty)
				}
			case *ref.LetContent:
				add(&n.Body)
			case *ref.CallT:
				for k := range n.Params {
					if n.Params[k].IsContent {
						add(&n.Params[k].Content)
					}
				}
			case *ref.Log:
				add(&n.Body)
			}
		}
	}
	for _, f := range b.Files {
		for _, t := range f.Templates {
			out = append(out, blockRef{&t.Body, nil, 0, t})
			walk(&t.Body, t)
		}
	}
	return out
}

func collectRefs(b *ref.Bundle) []*ref.DataRef {
	var out []*ref.DataRef
	var ex func(e ref.Expr)
	ex = func(e ref.Expr) {
		switch e := e.(type) {
		case *ref.Paren:
			ex(e.X)
		case *ref.DataRef:
			if e.Name != "ij" {
				out = append(out, e)
			}
			for _, a := range e.Acc {
				if a.Kind == 2 {
					ex(a.Arg)
				}
			}
		case *ref.Unary:
			ex(e.X)
		case *ref.Binary:
			ex(e.L)
			ex(e.R)
		case *ref.Tern:
			ex(e.C)
			ex(e.A)
			ex(e.B)
		case *ref.Call:
			if e.Fn == "index" || e.Fn == "isFirst" || e.Fn == "isLast" {
				return // the argument of a loop function is not an ordinary reference
			}
			for _, a := range e.Args {
				ex(a)
			}
		case *ref.ListLit:
			for _, a := range e.Items {
				ex(a)
			}
		case *ref.MapLit:
			for _, a := range e.Vals {
				ex(a)
			}
		}
	}
	var nodes func(ns []ref.Node)
	nodes = func(ns []ref.Node) {
		for _, n := range ns {
			switch n := n.(type) {
			case *ref.Print:
				ex(n.E)
				for _, d := range n.Dirs {
					for _, a := range d.Args {
						ex(a)
					}
				}
			case *ref.If:
				for k, c := range n.Conds {
					ex(c)
					nodes(n.Bodies[k])
				}
				nodes(n.Else)
			case *ref.Switch:
				ex(n.E)
				for _, c := range n.Cases {
					for _, v := range c.Vals {
						ex(v)
					}
					nodes(c.Body)
				}
				nodes(n.Default)
			case *ref.Foreach:
				ex(n.List)
				nodes(n.Body)
				nodes(n.IfEmpty)
			case *ref.LetVal:
				ex(n.E)
			case *ref.LetContent:
				nodes(n.Body)
			case *ref.CallT:
				if n.Data != nil {
					ex(n.Data)
				}
				for _, p := range n.Params {
					if p.IsContent {
						nodes(p.Content)
					} else {
						ex(p.E)
					}
				}
			case *ref.Css:
				if n.E != nil {
					ex(n.E)
				}
			case *ref.Log:
				nodes(n.Body)
			case *ref.Msg:
				for _, c := range n.Body {
					if pl, ok := c.(*ref.Plural); ok {
						ex(pl.E)
						for _, pc := range pl.Cases {
							nodes(pc.Body)
						}
						nodes(pl.Default)
					} else {
						nodes([]ref.Node{c})
					}
				}
			}
		}
	}
	for _, f := range b.Files {
		for _, t := range f.Templates {
			nodes(t.Body)
		}
	}
	return out
}

func collectCalls(b *ref.Bundle) []*ref.CallT {
	var out []*ref.CallT
	for _, blk := range collectBlocks(b) {
		for _, n := range *blk.body {
			if c, ok := n.(*ref.CallT); ok {
				out = append(out, c)
			}
			if m, ok := n.(*ref.Msg); ok {
				for _, c := range m.Body {
					if cc, ok := c.(*ref.CallT); ok {
						out = append(out, cc)
					}
				}
			}
		}
	}
	return out
}

func insertAt(body *[]ref.Node, i int, n ref.Node) {
	b := *body
	b = append(b, nil)
	copy(b[i+1:], b[i:])
	b[i] = n
	*body = b
}

func useNode(name string) ref.Node { return &ref.Print{E: &ref.DataRef{Name: name}} }

var c07Kinds = []string{"undeclared-name", "use-after-block", "use-before-def", "self-reference", "loop-var-after-loop", "loop-var-in-ifempty", "loop-var-in-collection",
	"unused-param", "unused-let", "let-named-ij", "undeclared-call-param", "missing-required-param", "unknown-callee", "both-param-styles", "alias-of-another-file", "let-named-like-callee-param", "loop-function-on-non-loop-variable"}

// inject applies the site-th injection of the kind to the bundle in place; ok=false when there is no such site.
func inject(b *ref.Bundle, kind string, site int) (ok bool, what string) {
	blocks := collectBlocks(b)
	switch kind {
	case "undeclared-name":
		refs := collectRefs(b)
		if site >= len(refs) {
			return false, ""
		}
		refs[site].Name = "zz9"
		return true, "reference renamed to $zz9"
	case "use-after-block", "use-before-def", "self-reference":
		k := 0
		for _, blk := range blocks {
			for j, n := range *blk.body {
				name := ""
				switch n := n.(type) {
				case *ref.LetVal:
					name = n.Name
				case *ref.LetContent:
					name = n.Name
				}
				if name == "" {
					continue
				}
				if kind == "use-after-block" && blk.parent == nil {
					continue
				}
				if kind == "self-reference" {
					if _, isVal := n.(*ref.LetVal); !isVal {
						continue
					}
				}
				if k == site {
					switch kind {
					case "use-after-block":
						insertAt(blk.parent, blk.idx+1, useNode(name))
						return true, "use of $" + name + " after the block that declares it"
					case "use-before-def":
						insertAt(blk.body, j, useNode(name))
						return true, "use of $" + name + " before its let"
					default:
						lv := n.(*ref.LetVal)
						lv.E = &ref.Binary{Op: "?:", L: &ref.DataRef{Name: name}, R: lv.E}
						return true, "let $" + name + " refers to itself in its own value"
					}
				}
				k++
			}
		}
		return false, ""
	case "loop-var-after-loop", "loop-var-in-ifempty", "loop-var-in-collection":
		k := 0
		for _, blk := range blocks {
			for j, n := range *blk.body {
				f, isFor := n.(*ref.Foreach)
				if !isFor {
					continue
				}
				if k == site {
					switch kind {
					case "loop-var-after-loop":
						insertAt(blk.body, j+1, useNode(f.Var))
					case "loop-var-in-ifempty":
						f.HasEmpty = true
						f.IfEmpty = append([]ref.Node{useNode(f.Var)}, f.IfEmpty...)
					default:
						f.List = &ref.ListLit{Items: []ref.Expr{&ref.DataRef{Name: f.Var}}}
						f.Keyword = "foreach"
					}
					return true, kind + " $" + f.Var
				}
				k++
			}
		}
		return false, ""
	case "loop-function-on-non-loop-variable":
		// index / isFirst / isLast read the state of a loop: applied to a param, to a let, or to a let that hides the loop
		// variable, there is no such state (the renderer would look up a name nothing binds)
		fn := []string{"index", "isFirst", "isLast"}[site%3]
		k := 0
		for _, f := range b.Files {
			for _, t := range f.Templates {
				if len(t.Params) == 0 {
					continue
				}
				if k == site/3 {
					body := &t.Body
					insertAt(body, 0, &ref.Print{E: &ref.Tern{C: &ref.Call{Fn: fn, Args: []ref.Expr{&ref.DataRef{Name: t.Params[0].Name}}}, A: &ref.Lit{V: ref.Int(1)}, B: &ref.Lit{V: ref.Int(0)}}})
					return true, fn + "() applied to the param $" + t.Params[0].Name
				}
				k++
			}
		}
		for _, blk := range blocks {
			for _, n := range *blk.body {
				fe, isFor := n.(*ref.Foreach)
				if !isFor {
					continue
				}
				if k == site/3 {
					fe.Body = append([]ref.Node{&ref.LetVal{Name: fe.Var, E: &ref.Lit{V: ref.Int(1)}}, useNode(fe.Var),
						&ref.Print{E: &ref.Tern{C: &ref.Call{Fn: fn, Args: []ref.Expr{&ref.DataRef{Name: fe.Var}}}, A: &ref.Lit{V: ref.Int(1)}, B: &ref.Lit{V: ref.Int(0)}}}}, fe.Body...)
					return true, fn + "() applied to a let that hides the loop variable $" + fe.Var
				}
				k++
			}
		}
		return false, ""
	case "unused-param", "both-param-styles":
		k := 0
		for _, f := range b.Files {
			for _, t := range f.Templates {
				if kind == "both-param-styles" && !(t.HeaderStyle && len(t.Params) > 0) {
					continue
				}
				if k == site {
					if kind == "unused-param" {
						t.Params = append(t.Params, ref.ParamDecl{Name: "zq9", Optional: site%2 == 0})
						t.NoDoc = false
						return true, "param zq9 declared in " + t.Name + " and never used"
					}
					t.SoydocExtra = []ref.ParamDecl{t.Params[0]}
					return true, "template " + t.Name + " declares params in soydoc and in the header"
				}
				k++
			}
		}
		return false, ""
	case "unused-let", "let-named-ij":
		if site >= len(blocks)*2 {
			return false, ""
		}
		blk := blocks[site/2]
		pos := 0
		if site%2 == 1 {
			pos = len(*blk.body)
		}
		if kind == "unused-let" {
			insertAt(blk.body, pos, &ref.LetVal{Name: "zq8", E: &ref.Lit{V: ref.Int(1)}})
			return true, "let $zq8 never used"
		}
		insertAt(blk.body, pos, useNode("ij"))
		insertAt(blk.body, pos, &ref.LetVal{Name: "ij", E: &ref.MapLit{}})
		return true, "let named ij"
	case "undeclared-call-param", "unknown-callee":
		calls := collectCalls(b)
		if site >= len(calls) {
			return false, ""
		}
		c := calls[site]
		if kind == "unknown-callee" {
			c.Target += "x"
			c.NameSrc += "x"
			return true, "call to a template that does not exist"
		}
		c.Params = append(c.Params, ref.Param{Name: "zq7", E: &ref.Lit{V: ref.Int(1)}})
		c.SelfClose = false
		return true, "call passes param zq7 the callee does not declare"
	case "let-named-like-callee-param":
		// {let $p: 1 /} right before {call X data="all" /} where X declares a param p the caller does not have: data="all"
		// hands over the caller's data, never its local variables, so the let is used by nothing
		k := 0
		for _, blk := range blocks {
			for idx, n := range *blk.body {
				c, ok := n.(*ref.CallT)
				if !ok || !c.DataAll {
					continue
				}
				var callee *ref.Template
				for _, f := range b.Files {
					for _, t := range f.Templates {
						if f.FQ(t) == c.Target {
							callee = t
						}
					}
				}
				if callee == nil || blk.tmpl == nil {
					continue
				}
				for _, p := range callee.Params {
					has := false
					for _, q := range blk.tmpl.Params {
						if q.Name == p.Name {
							has = true
						}
					}
					for _, q := range c.Params {
						if q.Name == p.Name {
							has = true
						}
					}
					if has {
						continue
					}
					if k == site {
						insertAt(blk.body, idx, &ref.LetVal{Name: p.Name, E: &ref.Lit{V: ref.Int(1)}})
						return true, "let $" + p.Name + " is used by nothing (the callee of the data=\"all\" call after it has a param of that name)"
					}
					k++
				}
			}
		}
		return false, ""
	case "alias-of-another-file":
		// {call c.t} where {alias a.b.c} stands in another file of the bundle, not in this one: an unknown callee
		k := 0
		for _, f1 := range b.Files {
			for _, a := range f1.Aliases {
				dot := strings.LastIndex(a, ".")
				for _, f2 := range b.Files {
					skip := f2 == f1 || f2.Namespace == a || len(f2.Templates) == 0
					for _, a2 := range f2.Aliases {
						if a2[strings.LastIndex(a2, ".")+1:] == a[dot+1:] {
							skip = true
						}
					}
					if skip {
						continue
					}
					for _, f3 := range b.Files {
						if f3.Namespace != a || len(f3.Templates) == 0 {
							continue
						}
						if k == site {
							name := a[dot+1:] + "." + f3.Templates[0].Name
							t := f2.Templates[0]
							t.Body = append(t.Body, &ref.CallT{Target: name, NameSrc: name, DataAll: true, SelfClose: true})
							return true, "call through the alias " + a + " that only " + f1.Name + " declares, from " + f2.Name
						}
						k++
					}
				}
			}
		}
		return false, ""
	case "missing-required-param":
		calls := collectCalls(b)
		k := 0
		for _, c := range calls {
			for pi := range c.Params {
				if k == site {
					name := c.Params[pi].Name
					c.Params = append(c.Params[:pi:pi], c.Params[pi+1:]...)
					if len(c.Params) == 0 {
						c.SelfClose = true
					}
					return true, "explicit param " + name + " removed from a call"
				}
				k++
			}
		}
		return false, ""
	}
	panic("inject: " + kind)
}

var (
	c07Mu     sync.Mutex
	c07Missed []string
)

// Bundles of many templates (more than any batch or table is likely to hold), with one rule broken in a template near
// the end, in the middle, or at a boundary: every template is checked, however many there are.
var c07BigSizes = []int{63, 64, 65, 100, 127, 128, 129, 200, 257, 600}
var c07BigFaults = []string{"none", "undeclared-name", "unused-param", "unused-let", "unknown-callee", "undeclared-call-param", "missing-required-param", "loop-function-on-param", "use-after-block"}

func c07BigBundle(ctx *fw.Ctx, k int) fw.Result {
	n := c07BigSizes[k%len(c07BigSizes)]
	fault := c07BigFaults[(k/len(c07BigSizes))%len(c07BigFaults)]
	where := []int{n - 1, n - 1, n - 2, n / 2, 64 % n, 0}[ctx.Rng.Intn(6)] // the template that breaks the rule
	nfiles := 1 + ctx.Rng.Intn(3)
	var srcs []strings.Builder = make([]strings.Builder, nfiles)
	for f := range srcs {
		fmt.Fprintf(&srcs[f], "{namespace big.f%d}\n", f)
	}
	name := func(t int) string { return fmt.Sprintf("big.f%d.t%d", t%nfiles, t) }
	for t := 0; t < n; t++ {
		w := &srcs[t%nfiles]
		decl, body := " * @param p\n * @param? o\n", "{$p}{$o ?: ''}{let $v: $p /}{if $p}{$v}{/if}"
		if t+1 < n {
			body += "{call " + name(t+1) + "}{param p: $p /}{/call}"
		}
		if t == where {
			switch fault {
			case "undeclared-name":
				body += "{$nowhere}"
			case "unused-param":
				decl += " * @param never\n"
			case "unused-let":
				body += "{let $idle: 1 /}"
			case "unknown-callee":
				body += "{call big.f0.nosuch /}"
			case "undeclared-call-param":
				body += "{call " + name(0) + "}{param p: 1 /}{param extra: 2 /}{/call}"
			case "missing-required-param":
				body += "{call " + name(0) + " /}"
			case "loop-function-on-param":
				body += "{isLast($p) ? 1 : 0}"
			case "use-after-block":
				body += "{if $p}{let $inner: 1 /}{$inner}{/if}{$inner}"
			}
		}
		fmt.Fprintf(w, "/**\n%s */\n{template .t%d}\n%s\n{/template}\n", decl, t, body)
	}
	var files []srcFile
	for f := range srcs {
		files = append(files, srcFile{fmt.Sprintf("big%d.soy", f), srcs[f].String()})
	}
	ctx.Cell("big-bundle")
	ctx.Eval(fmt.Sprintf("big:%d:%s:%d:%d", n, fault, where, nfiles))
	_, err := compile(files, nil)
	if fault == "none" {
		ctx.Obs("valid_bundles", 1)
		if err != nil {
			return fw.Result{Verdict: fw.Violated, Key: "rejects-valid:big-bundle", Case: fmt.Sprintf("%d templates in %d files", n, nfiles),
				Msg: fmt.Sprintf("a bundle of %d small valid templates is rejected: %v", n, errText(err))}
		}
		return fw.Result{Verdict: fw.Held}
	}
	ctx.Obs("injections", 1)
	if err == nil {
		return fw.Result{Verdict: fw.Violated, Key: "accepts-invalid:" + fault + ":big-bundle", Case: map[string]interface{}{"templates": n, "files": nfiles, "fault": fault, "in_template": where, "source_of_that_file": fw.Trim(files[where%nfiles].Text, 3000)},
			Msg: fmt.Sprintf("a bundle of %d templates in %d files compiles although template %d breaks a rule (%s)", n, nfiles, where, fault)}
	}
	return fw.Result{Verdict: fw.Held}
}

func init() {
	fw.Register(&fw.Prop{
		ID:    "C07",
		Level: "exploration",
		Rule: "cases = seeded valid bundles (C02 generator). Each must compile; rendered with every declared param supplied, the scope-miss hook must only ever report names that are declared " +
			"(optional) params somewhere in the bundle. Then, for each of 14 violation kinds, EVERY applicable site of the bundle gets that single violation injected (undeclared name, use after " +
			"the block, use before the let, self-reference in the let's value, loop variable after the loop / in ifempty / in its own collection, unused param, unused let, let named ij, " +
			"undeclared call param, removed required param, unknown callee, soydoc+header params); when the reference rules (ref.Check) call the result invalid the compiler must reject it. " +
			"distinct = distinct (sources after injection); non-trivial = an injected bundle the reference rules reject, or a valid bundle with a call or a let",
		N: func(tier string) int {
			if tier == "thorough" {
				return 80000 + len(c07BigSizes)*len(c07BigFaults)*4
			}
			return 4000 + len(c07BigSizes)*len(c07BigFaults)
		},
		Setup: func(tier string, seed uint64, config string) string {
			soyhtml.VerifUnbound = func(k string) {
				c07Mu.Lock()
				c07Missed = append(c07Missed, k)
				c07Mu.Unlock()
			}
			return ""
		},
		Run: func(ctx *fw.Ctx, i int) fw.Result {
			if base := map[string]int{"thorough": 80000}[ctx.Tier] + map[string]int{"quick": 4000}[ctx.Tier]; i >= base {
				return c07BigBundle(ctx, i-base)
			}
			seed := ctx.Rng.U64()
			mk := func() *gen.Program {
				r := fw.NewRand(seed)
				g := &gen.G{R: r}
				g.O = c02Opts(r, ctx.Tier)
				g.O.ErrPlants = false
				return g.Bundle(1+r.Intn(3), 2+r.Intn(4))
			}
			prog := mk()
			if bad := ref.Check(prog.B); len(bad) > 0 {
				return fw.Result{Verdict: fw.Inconclusive, Key: "generator-invalid", Msg: strings.Join(bad, "; ")}
			}
			files := bundleSources(prog.B, ref.Layout{Multiline: i%2 == 0, CRLF: i%5 == 2, Attrs: i%3 == 1})
			tofu, err := compile(files, prog.B.Globals)
			kinds, _ := shapeOf(prog.B)
			id := ""
			if kinds["LetVal"] || kinds["LetContent"] || kinds["call-all"] || kinds["call-none"] || kinds["call-data"] {
				id = "valid:" + files[0].Text
			}
			ctx.Eval(id)
			ctx.Obs("valid_bundles", 1)
			if err != nil {
				return fw.Result{Verdict: fw.Violated, Key: "rejects-valid", Case: dump(files, prog, prog.Data),
					Msg: "the compiler rejects a bundle that satisfies every data-reference rule: " + errText(err)}
			}
			// render with every declared param supplied; watch the scope-miss hook
			_, et := prog.B.Find(prog.Entry)
			d := map[string]ref.Value{}
			for k, v := range prog.Data {
				d[k] = v
			}
			g2 := &gen.G{R: ctx.Rng}
			nid := 5000
			for _, p := range et.Params {
				if _, ok := d[p.Name]; !ok {
					for _, pp := range gen.ParamPool {
						if pp.Name == p.Name {
							d[p.Name] = g2.Data(pp.Ty, &nid)
						}
					}
				}
			}
			declared := map[string]bool{}
			for _, f := range prog.B.Files {
				for _, t := range f.Templates {
					for _, p := range t.Params {
						declared[p.Name] = true
					}
				}
			}
			c07Mu.Lock()
			c07Missed = nil
			c07Mu.Unlock()
			_, rerr := render(tofu, prog.Entry, d, prog.IJ, nil)
			c07Mu.Lock()
			missed := append([]string{}, c07Missed...)
			c07Mu.Unlock()
			ctx.Obs("renders_watched", 1)
			ctx.Obs("scope_miss_events", int64(len(missed)))
			for _, k := range missed {
				if !declared[k] {
					return fw.Result{Verdict: fw.Violated, Key: "unbound-lookup-in-accepted-template", Case: dump(files, prog, d),
						Msg: fmt.Sprintf("rendering an accepted bundle with all declared params supplied looked up %q, which nothing binds (render err: %v)", k, errText(rerr))}
				}
			}
			// every applicable site of every violation kind
			for _, kind := range c07Kinds {
				for site := 0; site < 60; site++ {
					p2 := mk()
					ok, what := inject(p2.B, kind, site)
					if !ok {
						break
					}
					bad := ref.Check(p2.B)
					if len(bad) == 0 {
						ctx.Obs("injections_still_valid", 1)
						continue // e.g. an outer binding of the same name exists: not a violation after all
					}
					f2 := bundleSources(p2.B, ref.Layout{Multiline: i%2 == 0, CRLF: i%5 == 2, Attrs: i%3 == 1})
					_, cerr := compile(f2, p2.B.Globals)
					src := ""
					for _, f := range f2 {
						src += f.Text
					}
					ctx.Eval("inj:" + kind + ":" + src)
					ctx.Cell("kind:" + kind)
					ctx.Obs("injections", 1)
					if cerr == nil {
						return fw.Result{Verdict: fw.Violated, Key: "accepts-invalid:" + kind, Case: dump(f2, p2, p2.Data),
							Msg: fmt.Sprintf("the compiler accepts a bundle that breaks one rule (%s; reference rules say: %s)", what, strings.Join(bad, "; "))}
					}
					if i%400 == 0 && site == 0 {
						ctx.Sample(map[string]interface{}{"injection": kind, "what": what, "compiler_error": errText(cerr), "files": f2})
					}
				}
			}
			return fw.Result{Verdict: fw.Held}
		},
		Floors: func(obs map[string]int64, cells map[string]bool, tier string) []string {
			var why []string
			var missing []string
			for _, k := range c07Kinds {
				if !cells["kind:"+k] {
					missing = append(missing, k)
				}
			}
			sort.Strings(missing)
			if len(missing) > 0 {
				why = append(why, "violation kinds never injected: "+strings.Join(missing, ","))
			}
			if obs["renders_watched"] == 0 {
				why = append(why, "no render was watched through the scope-miss hook")
			}
			if obs["scope_miss_events"] == 0 {
				why = append(why, "the scope-miss hook never fired (not linked?): optional params that are not passed must produce events")
			}
			return why
		},
		Assumptions: []string{
			"reference rules in ref/check.go (lexical resolution of every $name to the nearest enclosing binding)",
			"readings the statement leaves open are not generated: data=all callers always cover the callee's required params; loop functions only on loop variables in scope",
		},
	})
}
