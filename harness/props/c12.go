package props

import (
	"errors"
	"fmt"
	"github.com/robfig/soy/soyhtml"
	"github.com/robfig/soy/soymsg"
	"io"
	"os"
	"strings"

	"github.com/robfig/soy/data"

	"verif/fw"
	"verif/gen"
	"verif/ref"
)

var errInjected = errors.New("injected write fault")

// recWriter records every write call.
type recWriter struct {
	writes [][]byte
}

func (w *recWriter) Write(p []byte) (int, error) {
	w.writes = append(w.writes, append([]byte{}, p...))
	return len(p), nil
}

// faultWriter fails at write-call index failAt (sticky), or once capacity bytes were accepted.
type faultWriter struct {
	failAt   int // -1: none
	capacity int // -1: unlimited
	partial  bool
	calls    int
	accepted []byte
	failed   bool
	// once: only the write call failAt fails; the writer takes what comes afterwards (a transient error). accepted
	// keeps what was taken before the failure, later holds what was taken after it.
	once  bool
	later []byte
	// fullCount: the failing call reports all its bytes as written and still returns the error (as a quota or tee
	// writer may)
	fullCount bool
}

func (w *faultWriter) Write(p []byte) (int, error) {
	idx := w.calls
	w.calls++
	if w.failed {
		if w.once {
			w.later = append(w.later, p...)
			return len(p), nil
		}
		return 0, errInjected
	}
	if w.failAt >= 0 && idx == w.failAt {
		w.failed = true
		n := 0
		if w.fullCount {
			w.accepted = append(w.accepted, p...)
			return len(p), errInjected
		}
		if w.partial {
			n = len(p) / 2
			w.accepted = append(w.accepted, p[:n]...)
		}
		return n, errInjected
	}
	if w.capacity >= 0 && len(w.accepted)+len(p) > w.capacity {
		n := w.capacity - len(w.accepted)
		w.accepted = append(w.accepted, p[:n]...)
		w.failed = true
		return n, errInjected
	}
	w.accepted = append(w.accepted, p...)
	return len(p), nil
}

// nodeAt maps a byte offset of the expected output to the node kind that writes it.
func nodeAt(segs []ref.Seg, off int) string {
	pos := 0
	for _, s := range segs {
		if off < pos+len(s.Text) {
			return s.Node + "/" + s.Prov
		}
		pos += len(s.Text)
	}
	return "end"
}

// plainWriter implements Write and nothing else.
type plainWriter struct{ n int }

func (p *plainWriter) Write(b []byte) (int, error) { p.n += len(b); return len(b), nil }

func init() {
	fw.Register(&fw.Prop{
		ID:    "C12",
		Level: "fault_enumeration",
		Rule: "for each seeded valid bundle (the C02 generator, all write sites: raw text, escaped and unescaped prints, css, msg text and html-tag placeholders, special chars, literal, callee output) " +
			"whose fault-free render succeeds: record the write calls W0..Wn-1 and output O; then a sticky failing writer at EVERY call index k<n (accepting nothing, and accepting half), and short-capacity " +
			"a writer failing that one call only; writers at capacity 0, 1, every write boundary +-1 and |O|-1; demand err != nil and accepted bytes a prefix of O; capacity |O| must give nil. " +
			"distinct = distinct (sources, data, fault); non-trivial = the fault hits a write that carries bytes",
		N: func(tier string) int {
			if tier == "thorough" {
				return 200000
			}
			return 8000
		},
		Exhaustive: func(tier string) bool { return false },
		Run: func(ctx *fw.Ctx, i int) fw.Result {
			g := &gen.G{R: ctx.Rng}
			g.O = c02Opts(ctx.Rng, ctx.Tier)
			g.O.ErrPlants = false
			g.O.Big = false // (every write of every render is failed in turn, at the cost of a render each: large sizes come from the long-loop and long-value cases below, whose cost is known)
			prog := g.Bundle(1+ctx.Rng.Intn(2), 2+ctx.Rng.Intn(3))
			if i%10 == 0 {
				// a tag-heavy message as the very last command of a one-template file: the pieces a message body is
				// cut into are the write sites closest to the end of the source
				prog = g.Bundle(1, 1)
				t := prog.B.Files[0].Templates[0]
				text := []string{"aaa <b>bbb</b> ccc <i>ddd</i> eee <br/> fff", "<a href=\"/x\">link</a> and <b>more</b> text <i>here</i>", "x<b>y</b>"}[ctx.Rng.Intn(3)]
				t.Body = append(t.Body, &ref.Msg{Desc: "d", Body: []ref.Node{&ref.Raw{Text: text}}})
				ctx.Cell("msg-at-end-of-file")
			}
			if i%10 == 1 {
				// a long value (several KB) written by the last command, on every kind of write site that takes data:
				// writers that only implement Write see whatever chunking the renderer does
				prog = g.Bundle(1, 1)
				t := prog.B.Files[0].Templates[0]
				long := strings.Repeat("0123456789abcdef<&>\"'", 100+ctx.Rng.Intn(200))
				v := &ref.Lit{V: ref.Str(long)}
				var tail ref.Node
				switch ctx.Rng.Intn(6) {
				case 0:
					tail = &ref.Print{E: v, Dirs: []ref.Dir{{Name: "noAutoescape"}}}
				case 1:
					tail = &ref.Print{E: v, Dirs: []ref.Dir{{Name: "id"}}}
				case 2:
					tail = &ref.Print{E: v}
				case 3:
					tail = &ref.Css{E: v, Suffix: "sfx"}
				case 4:
					tail = &ref.Print{E: v, Dirs: []ref.Dir{{Name: "escapeHtml"}}}
				default:
					tail = &ref.Msg{Desc: "d", Body: []ref.Node{&ref.Raw{Text: "m:"}, &ref.Print{E: v, Dirs: []ref.Dir{{Name: "noAutoescape"}}}}}
				}
				t.Body = append(t.Body, tail)
				ctx.Cell("long-value-last")
			}
			if i%83 == 2 {
				// a loop of hundreds of iterations (around the sizes buffers are made of), last or followed by text, over
				// a list or a range, at top level or inside a block: a renderer that collects the output of long loops
				// still owes the writer's error to the caller
				prog = g.Bundle(1, 1)
				t := prog.B.Files[0].Templates[0]
				n := []int{255, 256, 257, 300, 513}[ctx.Rng.Intn(5)]
				var loop ref.Node
				body := []ref.Node{&ref.Raw{Text: "<li>"}, &ref.Print{E: &ref.DataRef{Name: "it"}}, &ref.Raw{Text: "</li>"}}
				if ctx.Rng.Bool() {
					items := make([]ref.Expr, n)
					for k := range items {
						items[k] = &ref.Lit{V: ref.Int(int64(k))}
					}
					loop = &ref.Foreach{Var: "it", List: &ref.ListLit{Items: items}, Body: body, Keyword: "foreach"}
				} else {
					loop = &ref.Foreach{Var: "it", List: &ref.Call{Fn: "range", Args: []ref.Expr{&ref.Lit{V: ref.Int(int64(n))}}}, Body: body, Keyword: "for"}
				}
				if ctx.Rng.P(1, 3) {
					loop = &ref.If{Conds: []ref.Expr{&ref.Lit{V: ref.Bool(true)}}, Bodies: [][]ref.Node{{loop}}}
				}
				t.Body = append(t.Body, &ref.Raw{Text: "<ul>"}, loop)
				if ctx.Rng.Bool() {
					t.Body = append(t.Body, &ref.Raw{Text: "</ul>"})
				}
				ctx.Cell("long-loop")
			}
			files := bundleSources(prog.B, ref.Layout{Multiline: i%4 == 1, CRLF: i%6 == 3})
			segs, st := ref.Render(prog.B, prog.Entry, prog.Data, ref.RenderOpts{IJ: prog.IJ})
			if st != ref.OK {
				return fw.Result{Verdict: fw.Skip}
			}
			tofu, err := compile(files, prog.B.Globals)
			if err != nil {
				return fw.Result{Verdict: fw.Skip} // C02's subject
			}
			var curMsgs soymsg.Bundle
			run := func(w interface {
				Write([]byte) (int, error)
			}) error {
				armRenderBudget()
				r := tofu.NewRenderer(prog.Entry)
				if prog.IJ != nil {
					r.Inject(toData(*prog.IJ).(data.Map))
				}
				if curMsgs != nil {
					r.WithMessages(curMsgs)
				}
				if i%3 == 1 {
					// a Renderer that has already been executed once, into a healthy writer of the plainest kind: what it
					// owes the next writer is the same
					if err := r.Execute(&plainWriter{}, toDataMap(prog.Data)); err != nil {
						return err
					}
					armRenderBudget()
				}
				return r.Execute(w, toDataMap(prog.Data))
			}
			kinds12, _ := shapeOf(prog.B)
			if kinds12["Msg"] && i%2 == 0 {
				// the whole enumeration once more under a catalogue that translates every message: the pieces of a
				// translated message are write sites of their own
				if reg, rerr := compileRegistry(files, prog.B.Globals); rerr == nil {
					curMsgs = translationsWithPlurals(reg)
					tofu = soyhtml.NewTofu(reg)
					ctx.Cell("under-catalogue")
				}
			}
			rec := &recWriter{}
			if err := run(rec); err != nil {
				return fw.Result{Verdict: fw.Skip} // C02's subject
			}
			var out []byte
			var bounds []int
			for _, w := range rec.writes {
				out = append(out, w...)
				bounds = append(bounds, len(out))
			}
			O := string(out)
			if len(O) > 1<<20 {
				// (an output of megabytes: every fault costs a render of it, and a case of minutes looks like one that
				// does not end; what large sizes are there for is served by outputs of hundreds of kilobytes)
				ctx.Obs("outputs_too_large_for_enumeration", 1)
				return fw.Result{Verdict: fw.Skip}
			}
			cd := dump(files, prog, prog.Data)
			cd.Want = O
			if want := ref.NormalizeRefs(ref.Text(segs)); curMsgs == nil && ref.NormalizeRefs(O) != want {
				// "a render returns nil only if every byte of the output was accepted": the writer never failed, the
				// render returned nil, and the writer does not hold the output
				cd.Want, cd.Got = diffWindow(want, O), diffWindow(O, want)
				return fw.Result{Verdict: fw.Violated, Key: "nil-but-output-not-delivered", Case: cd,
					Msg: fmt.Sprintf("the render returned nil into a writer that never failed, but the writer holds %d bytes where the output has %d", len(O), len(want))}
			}
			srcID := files[0].Text
			ctx.Obs("templates", 1)
			ctx.Max("max_write_calls", float64(len(rec.writes)))
			check := func(fwr *faultWriter, what string, mustFail bool, off int) *fw.Result {
				err := run(fwr)
				id := ""
				if mustFail {
					id = srcID + what
				}
				ctx.Eval(id)
				ctx.Obs("faults_injected", 1)
				node := nodeAt(segs, off)
				if curMsgs != nil {
					node = "under-catalogue" // the reference segments describe the untranslated output
				}
				ctx.Cell("site:" + node)
				if mustFail && err == nil {
					cd.Got = string(fwr.accepted)
					return &fw.Result{Verdict: fw.Violated, Key: "nil-on-failed-write:" + node, Case: cd,
						Msg: fmt.Sprintf("%s: the writer returned an error but the render returned nil (accepted %d of %d bytes; failing write belongs to %s)", what, len(fwr.accepted), len(O), node)}
				}
				if err == nil && string(fwr.accepted) != O {
					cd.Got = diffWindow(string(fwr.accepted), O)
					return &fw.Result{Verdict: fw.Violated, Key: "nil-but-output-not-delivered:" + node, Case: cd,
						Msg: fmt.Sprintf("%s: the render returned nil but the writer accepted %d of %d bytes", what, len(fwr.accepted), len(O))}
				}
				if !mustFail && err != nil {
					return &fw.Result{Verdict: fw.Violated, Key: "error-without-fault", Case: cd, Msg: fmt.Sprintf("%s: no write failed but the render returned %v", what, err)}
				}
				if !strings.HasPrefix(O, string(fwr.accepted)) {
					cd.Got = string(fwr.accepted)
					return &fw.Result{Verdict: fw.Violated, Key: "accepted-not-a-prefix:" + node, Case: cd,
						Msg: fmt.Sprintf("%s: accepted bytes %q are not a prefix of the fault-free output %q", what, fwr.accepted, O)}
				}
				if !mustFail && string(fwr.accepted) != O {
					return &fw.Result{Verdict: fw.Violated, Key: "nil-but-output-incomplete", Case: cd, Msg: fmt.Sprintf("%s: render returned nil but only %q of %q was accepted", what, fwr.accepted, O)}
				}
				return nil
			}
			// every write-call index; for the rare template with more than 2000 write calls (each fault costs a whole
			// render: the enumeration is quadratic) the first 500, the last 500 and 500 drawn in between
			ks := make([]int, 0, len(rec.writes))
			// (... and a template whose output is large - hundreds of iterations over strings of kilobytes - is enumerated
			// in part too: the work is the number of faults times the size of the output, and a case of minutes would be
			// taken for one that does not end)
			maxFaults := 2000
			if byWork := (6 << 20) / (len(O) + 1); byWork < maxFaults {
				maxFaults = byWork // (each fault index costs about eight renders, sixteen where the Renderer is executed once before)
			}
			if maxFaults < 6 {
				maxFaults = 6
			}
			if W := len(rec.writes); W <= maxFaults {
				for k := 0; k < W; k++ {
					ks = append(ks, k)
				}
			} else {
				third := maxFaults / 3
				for k := 0; k < third; k++ {
					ks = append(ks, k)
				}
				for j := 0; j < third; j++ {
					ks = append(ks, third+ctx.Rng.Intn(W-2*third))
				}
				for k := W - third; k < W; k++ {
					ks = append(ks, k)
				}
				ctx.Obs("templates_enumerated_in_part", 1)
			}
			inKs := map[int]bool{}
			for _, k := range ks {
				inKs[k] = true
			}
			for _, k := range ks {
				off := 0
				if k > 0 {
					off = bounds[k-1]
				}
				for _, partial := range []bool{false, true} {
					if r := check(&faultWriter{failAt: k, capacity: -1, partial: partial}, fmt.Sprintf("fail at write call %d/%d (partial=%v)", k, len(rec.writes), partial), true, off); r != nil {
						return *r
					}
				}
				// a writer that reports the full count together with its error, for good or for this call only
				for _, once := range []bool{false, true} {
					if r := check(&faultWriter{failAt: k, capacity: -1, fullCount: true, once: once}, fmt.Sprintf("write call %d/%d returns (len, err) (one call only: %v)", k, len(rec.writes), once), true, off); r != nil {
						return *r
					}
				}
				// a writer that fails this one call only
				if r := check(&faultWriter{failAt: k, capacity: -1, once: true}, fmt.Sprintf("write call %d/%d fails, later calls succeed", k, len(rec.writes)), true, off); r != nil {
					return *r
				}
			}
			// byte capacities
			caps := map[int]bool{0: true, 1: true, len(O) - 1: true}
			for k, b := range bounds {
				if inKs[k] {
					caps[b-1], caps[b], caps[b+1] = true, true, true
				}
			}
			for c := range caps {
				if c < 0 || c >= len(O) {
					continue
				}
				if r := check(&faultWriter{failAt: -1, capacity: c}, fmt.Sprintf("writer capacity %d of %d bytes", c, len(O)), true, c); r != nil {
					return *r
				}
			}
			if r := check(&faultWriter{failAt: -1, capacity: len(O)}, "writer capacity = output length", false, len(O)); r != nil {
				return *r
			}
			// real files as writers, and the other entry point (Tofu.Render takes plain Go data and cannot inject):
			// /dev/full fails every write with ENOSPC, a closed file fails every write, a fresh file takes everything
			if len(O) > 0 && i%3 == 0 {
				viaTofu := func(w io.Writer) error {
					armRenderBudget()
					return tofu.Render(w, prog.Entry, goData(prog.Data))
				}
				entries := []struct {
					name string
					f    func(io.Writer) error
				}{{"Renderer.Execute", func(w io.Writer) error { return run(w) }}}
				if prog.IJ == nil && curMsgs == nil { // (Tofu.Render takes neither injected data nor a catalogue)
					entries = append(entries, struct {
						name string
						f    func(io.Writer) error
					}{"Tofu.Render", viaTofu})
				}
				for _, en := range entries {
					if full, err := os.OpenFile("/dev/full", os.O_WRONLY, 0); err == nil {
						rerr := en.f(full)
						full.Close()
						ctx.Obs("renders_into_dev_full", 1)
						if rerr == nil {
							return fw.Result{Verdict: fw.Violated, Key: "nil-on-failed-write:os.File", Case: cd,
								Msg: fmt.Sprintf("%s into /dev/full (every write fails with ENOSPC) returned nil for an output of %d bytes", en.name, len(O))}
						}
					}
					tmp, err := os.CreateTemp("", "c12out")
					if err != nil {
						continue
					}
					rerr := en.f(tmp)
					tmp.Close()
					got, _ := os.ReadFile(tmp.Name())
					ctx.Obs("renders_into_files", 1)
					if rerr != nil || string(got) != O {
						os.Remove(tmp.Name())
						return fw.Result{Verdict: fw.Violated, Key: "file-output-differs", Case: cd,
							Msg: fmt.Sprintf("%s into a fresh file: err %v, file holds %d bytes, the output has %d", en.name, rerr, len(got), len(O))}
					}
					closed, _ := os.OpenFile(tmp.Name(), os.O_WRONLY, 0)
					closed.Close()
					rerr = en.f(closed)
					os.Remove(tmp.Name())
					if rerr == nil {
						return fw.Result{Verdict: fw.Violated, Key: "nil-on-failed-write:closed-file", Case: cd,
							Msg: fmt.Sprintf("%s into a closed file returned nil for an output of %d bytes", en.name, len(O))}
					}
					// and one injected fault through this entry point
					k := ctx.Rng.Intn(len(rec.writes))
					fwr := &faultWriter{failAt: k, capacity: -1}
					if rerr := en.f(fwr); rerr == nil || !strings.HasPrefix(O, string(fwr.accepted)) {
						cd.Got = string(fwr.accepted)
						return fw.Result{Verdict: fw.Violated, Key: "nil-on-failed-write:" + en.name, Case: cd,
							Msg: fmt.Sprintf("%s with the write call %d failing: err %v, accepted %d bytes (prefix of the output: %v)", en.name, k, rerr, len(fwr.accepted), strings.HasPrefix(O, string(fwr.accepted)))}
					}
				}
			}
			if i%200 == 0 {
				ctx.Sample(map[string]interface{}{"files": files, "data": cd.Data, "write_calls": len(rec.writes), "output_bytes": len(O)})
			}
			return fw.Result{Verdict: fw.Held}
		},
		Floors: func(obs map[string]int64, cells map[string]bool, tier string) []string {
			var why []string
			for _, s := range []string{"RawText/text", "Print/escaped", "Print/unescaped", "Css/css", "MsgText/msgtext", "MsgHtmlTag/msgtag", "Special/special", "Literal/literal"} {
				if !cells["site:"+s] {
					why = append(why, "write site never failed: "+s)
				}
			}
			if !cells["under-catalogue"] {
				why = append(why, "no enumeration under a message catalogue")
			}
			if !cells["long-value-last"] {
				why = append(why, "no long value written by the last command")
			}
			if !cells["msg-at-end-of-file"] {
				why = append(why, "no message at the end of a file")
			}
			if obs["renders_into_dev_full"] == 0 || obs["renders_into_files"] == 0 {
				why = append(why, "no render into a real file (healthy, closed, /dev/full)")
			}
			if obs["faults_injected"] == 0 {
				why = append(why, "no fault injected")
			}
			return why
		},
		Assumptions: []string{"the fault-free run defines the write list; faults are injected at the io.Writer the caller supplies (renders make no other I/O)", "content blocks and {log} buffer internally and are not write sites"},
	})
}
