package props

import (
	"fmt"
	"github.com/robfig/soy/soyhtml"
	"reflect"
	"strings"

	"verif/fw"
	"verif/gen"
	"verif/ref"
)

// shapeOf summarises a bundle: the set of command kinds and the number of bindings.
func shapeOf(b *ref.Bundle) (kinds map[string]bool, bindings int) {
	kinds = map[string]bool{}
	var walk func(ns []ref.Node)
	walk = func(ns []ref.Node) {
		for _, n := range ns {
			k := strings.TrimPrefix(reflect.TypeOf(n).String(), "*ref.")
			kinds[k] = true
			switch n := n.(type) {
			case *ref.If:
				for _, b := range n.Bodies {
					walk(b)
				}
				walk(n.Else)
			case *ref.Switch:
				for _, c := range n.Cases {
					walk(c.Body)
				}
				walk(n.Default)
			case *ref.Foreach:
				bindings++
				walk(n.Body)
				walk(n.IfEmpty)
				if n.HasEmpty {
					kinds["ifempty"] = true
				}
			case *ref.LetVal:
				bindings++
			case *ref.LetContent:
				bindings++
				walk(n.Body)
			case *ref.CallT:
				switch {
				case n.DataAll:
					kinds["call-all"] = true
				case n.Data != nil:
					kinds["call-data"] = true
				default:
					kinds["call-none"] = true
				}
				for _, p := range n.Params {
					if p.IsContent {
						kinds["param-content"] = true
						walk(p.Content)
					} else {
						kinds["param-value"] = true
					}
					if p.AttrSyntax {
						kinds["param-attr-syntax"] = true
					}
				}
			case *ref.Log:
				walk(n.Body)
			case *ref.Msg:
				for _, c := range n.Body {
					if pl, ok := c.(*ref.Plural); ok {
						kinds["Plural"] = true
						for _, pc := range pl.Cases {
							walk(pc.Body)
						}
						walk(pl.Default)
					} else {
						walk([]ref.Node{c})
					}
				}
			}
		}
	}
	for _, f := range b.Files {
		for _, t := range f.Templates {
			bindings += len(t.Params)
			walk(t.Body)
		}
	}
	return
}

// firstDiffNode finds the node kind of the expected segment at which got departs from want.
func firstDiffNode(segs []ref.Seg, got string) string {
	pos := 0
	for _, s := range segs {
		t := ref.NormalizeRefs(s.Text)
		if pos+len(t) > len(got) || got[pos:pos+len(t)] != t {
			return s.Node
		}
		pos += len(t)
	}
	return "after-end"
}

// compareRender judges one render against the reference. It returns a
// violation result or nil.
func compareRender(ctx *fw.Ctx, segs []ref.Seg, st ref.Status, got string, err error, cd *caseDump) *fw.Result {
	want := ref.NormalizeRefs(ref.Text(segs))
	got = ref.NormalizeRefs(got)
	cd.Want, cd.Got, cd.Err = diffWindow(want, got), diffWindow(got, want), errText(err)
	switch st {
	case ref.OK:
		ctx.Obs("renders_ok", 1)
		if err != nil {
			return &fw.Result{Verdict: fw.Violated, Key: "unexpected-error", Case: cd,
				Msg: fmt.Sprintf("the language gives this render the value %q but Render returned an error: %v", want, errText(err))}
		}
		if got != want {
			return &fw.Result{Verdict: fw.Violated, Key: "output-mismatch@" + firstDiffNode(segs, got), Case: cd,
				Msg: fmt.Sprintf("rendered output differs from the language definition\n want: %q\n got:  %q", want, got)}
		}
	case ref.Err:
		ctx.Obs("renders_err", 1)
		if err == nil {
			return &fw.Result{Verdict: fw.Violated, Key: "error-expected", Case: cd,
				Msg: fmt.Sprintf("an expression without a value is evaluated (after output %q) but Render returned nil and wrote %q", want, got)}
		}
		if got != want {
			return &fw.Result{Verdict: fw.Violated, Key: "error-output-mismatch@" + firstDiffNode(segs, got), Case: cd,
				Msg: fmt.Sprintf("render failed as it must, but the text written before the failure differs\n want prefix: %q\n got:         %q\n err: %v", want, got, errText(err))}
		}
	}
	return nil
}

// diffWindow is a for the dump: all of it when it is short, else the part around the first difference with b.
func diffWindow(a, b string) string {
	if len(a) <= 4000 {
		return a
	}
	i := 0
	for i < len(a) && i < len(b) && a[i] == b[i] {
		i++
	}
	lo, hi := i-1500, i+1500
	if lo < 0 {
		lo = 0
	}
	if hi > len(a) {
		hi = len(a)
	}
	return fmt.Sprintf("(%d bytes; bytes %d..%d:) %s", len(a), lo, hi, a[lo:hi])
}

func c02Opts(r *fw.Rand, tier string) gen.Opts {
	o := gen.Opts{MaxDepth: 2 + r.Intn(2), Msgs: r.P(1, 2), Directives: r.P(2, 3), Autoescape: r.P(1, 2), LetShadow: true,
		Globals: r.P(1, 3), IJ: r.P(1, 3), ErrPlants: r.P(1, 4), Recursion: r.P(1, 3)}
	if tier == "thorough" {
		o.MaxDepth = 2 + r.Intn(4)
	}
	o.Big = r.P(1, 12)
	if o.Big {
		// (a value of kilobytes that a recursive template hands down through content params is escaped again at every
		// level and grows by half each time: the language says so, and the render ends, but not within any budget)
		o.Recursion = false
		if o.MaxDepth > 3 {
			o.MaxDepth = 3
		}
	}
	return o
}

func init() {
	fw.Register(&fw.Prop{
		ID:    "C02",
		Level: "exploration",
		Rule: "cases = seeded valid bundles from the command grammar (1-3 files, 2-6 templates calling later ones; soydoc or header params, optional params, aliases; " +
			"raw text, special chars, literal, if/elseif/else, switch, foreach/ifempty, for-range, let value/content, calls with no data / data=all / data=$expr and value/content params " +
			"in both syntaxes, css, log, debugger, msg/plural; shadowing lets) rendered with 3 (thorough 5) data maps and compared byte-for-byte (modulo character-reference spelling) " +
			"with the reference renderer; distinct = distinct (sources, data); non-trivial = >= 2 command kinds and >= 1 binding",
		N: func(tier string) int {
			if tier == "thorough" {
				return 3000000
			}
			return 100000
		},
		Run: func(ctx *fw.Ctx, i int) fw.Result {
			g := &gen.G{R: ctx.Rng}
			g.O = c02Opts(ctx.Rng, ctx.Tier)
			prog := g.Bundle(1+ctx.Rng.Intn(3), 2+ctx.Rng.Intn(4))
			if bad := ref.Check(prog.B); len(bad) > 0 {
				return fw.Result{Verdict: fw.Inconclusive, Key: "generator-invalid", Msg: strings.Join(bad, "; ")}
			}
			lay := ref.Layout{Multiline: ctx.Rng.Bool(), CRLF: ctx.Rng.P(1, 5), Attrs: ctx.Rng.P(1, 3)}
			files := bundleSources(prog.B, lay)
			ctx.Cell(fmt.Sprintf("layout:multiline=%v,crlf=%v", lay.Multiline, lay.CRLF))
			kinds, bindings := shapeOf(prog.B)
			for k := range kinds {
				ctx.Cell("cmd:" + k)
			}
			tofu, err := compile(files, prog.B.Globals)
			if err != nil {
				return fw.Result{Verdict: fw.Violated, Key: "compile-rejects-valid", Case: dump(files, prog, prog.Data),
					Msg: "the compiler rejects a bundle that satisfies the language rules: " + errText(err)}
			}
			nd := 3
			if ctx.Tier == "thorough" {
				nd = 5
			}
			srcID := ""
			for _, f := range files {
				srcID += f.Text
			}
			for k := 0; k < nd; k++ {
				d := prog.Data
				if k > 0 {
					d = g.NewData(prog)
				}
				segs, st := ref.Render(prog.B, prog.Entry, d, ref.RenderOpts{IJ: prog.IJ})
				if st == ref.OOD {
					ctx.Obs("renders_out_of_domain", 1)
					continue
				}
				if n := len(ref.Text(segs)); n > 2<<20 || len(segs) > 200000 {
					// (an output of megabytes - nested loops and content blocks multiply - is not judged: the work and the
					// memory of such a render are outside every budget the process monitors use)
					ctx.Obs("renders_too_large_not_judged", 1)
					continue
				}
				got, rerr := render(tofu, prog.Entry, d, prog.IJ, nil)
				id := ""
				if len(kinds) >= 2 && bindings >= 1 {
					id = srcID + fmt.Sprint(goData(d))
				}
				ctx.Eval(id)
				cd := dump(files, prog, d)
				if i%500 == 0 && k == 0 {
					ctx.Sample(map[string]interface{}{"files": files, "entry": prog.Entry, "data": cd.Data, "output": fw.Trim(got, 300)})
				}
				if r := compareRender(ctx, segs, st, got, rerr, cd); r != nil {
					return *r
				}
				// a message command means the same with and without a catalogue that holds its own text: rendering under a
				// catalogue built from the compiled messages themselves (plural messages are left to the source) changes nothing
				if k == 0 && kinds["Msg"] && rerr == nil && i%3 == 0 {
					if reg, cerr := compileRegistry(files, prog.B.Globals); cerr == nil {
						idb := identityCatalogue(reg)
						got2, rerr2 := render(soyhtml.NewTofu(reg), prog.Entry, d, prog.IJ, idb)
						ctx.Obs("identity_catalogue_renders", 1)
						if rerr2 != nil || got2 != got {
							cd.Got = got2
							return fw.Result{Verdict: fw.Violated, Key: "identity-catalogue-changes-output", Case: cd,
								Msg: fmt.Sprintf("without a catalogue %q, under a catalogue that maps every message to itself %q (err %v)", fw.Trim(got, 300), fw.Trim(got2, 300), rerr2)}
						}
					}
				}
			}
			return fw.Result{Verdict: fw.Held}
		},
		Floors: func(obs map[string]int64, cells map[string]bool, tier string) []string {
			var why []string
			for _, c := range []string{"Raw", "Special", "Literal", "Print", "If", "Switch", "Foreach", "ifempty", "LetVal", "LetContent", "call-all", "call-data", "call-none",
				"param-content", "param-value", "param-attr-syntax", "Css", "Log", "Debugger", "Msg", "Plural"} {
				if !cells["cmd:"+c] {
					why = append(why, "command kind never generated: "+c)
				}
			}
			if obs["renders_ok"] == 0 {
				why = append(why, "no successful render compared")
			}
			return why
		},
		Assumptions: []string{
			"reference renderer in /verif/harness/ref (lexical block scoping; callee sees passed data + explicit params only)",
			"character-reference spelling is not part of the semantics (outputs compared after normalising the spellings of the five specials)",
			"cases whose value the language does not pin down (float text outside the dyadic zone, map iteration order, ill-typed operands) are dropped, not judged",
		},
	})
}
