package props

import (
	"fmt"
	"reflect"
	"strings"
	"sync"

	"github.com/robfig/soy/ast"
	"github.com/robfig/soy/parse"

	"verif/fw"
	"verif/gen"
	"verif/ref"
)

// astEqual compares two trees of the code under test structurally, ignoring
// positions and the source spelling of string literals.
func astEqual(a, b interface{}) (bool, string) {
	return deepEq(reflect.ValueOf(a), reflect.ValueOf(b), "")
}

var posType = reflect.TypeOf(ast.Pos(0))

func deepEq(a, b reflect.Value, path string) (bool, string) {
	if a.IsValid() != b.IsValid() {
		return false, path + ": one side missing"
	}
	if !a.IsValid() {
		return true, ""
	}
	if a.Type() != b.Type() {
		return false, fmt.Sprintf("%s: %v vs %v", path, a.Type(), b.Type())
	}
	if a.Type() == posType {
		return true, ""
	}
	switch a.Kind() {
	case reflect.Ptr, reflect.Interface:
		if a.IsNil() != b.IsNil() {
			return false, path + ": nil vs non-nil"
		}
		if a.IsNil() {
			return true, ""
		}
		return deepEq(a.Elem(), b.Elem(), path)
	case reflect.Struct:
		for i := 0; i < a.NumField(); i++ {
			f := a.Type().Field(i)
			if f.Name == "Quoted" && a.Type().Name() == "StringNode" {
				continue
			}
			if ok, why := deepEq(a.Field(i), b.Field(i), path+"."+f.Name); !ok {
				return false, why
			}
		}
		return true, ""
	case reflect.Slice:
		if a.Len() != b.Len() {
			return false, fmt.Sprintf("%s: len %d vs %d", path, a.Len(), b.Len())
		}
		for i := 0; i < a.Len(); i++ {
			if ok, why := deepEq(a.Index(i), b.Index(i), fmt.Sprintf("%s[%d]", path, i)); !ok {
				return false, why
			}
		}
		return true, ""
	case reflect.Map:
		if a.Len() != b.Len() {
			return false, fmt.Sprintf("%s: map len %d vs %d", path, a.Len(), b.Len())
		}
		for _, k := range a.MapKeys() {
			bv := b.MapIndex(k)
			if !bv.IsValid() {
				return false, fmt.Sprintf("%s: key %v missing", path, k)
			}
			if ok, why := deepEq(a.MapIndex(k), bv, fmt.Sprintf("%s[%v]", path, k)); !ok {
				return false, why
			}
		}
		return true, ""
	case reflect.String:
		if a.String() != b.String() {
			return false, fmt.Sprintf("%s: %q vs %q", path, a.String(), b.String())
		}
		return true, ""
	case reflect.Bool:
		return a.Bool() == b.Bool(), path
	case reflect.Int, reflect.Int64, reflect.Int32:
		if a.Int() != b.Int() {
			return false, fmt.Sprintf("%s: %d vs %d", path, a.Int(), b.Int())
		}
		return true, ""
	case reflect.Float64:
		if a.Float() != b.Float() {
			return false, fmt.Sprintf("%s: %v vs %v", path, a.Float(), b.Float())
		}
		return true, ""
	case reflect.Uint8, reflect.Uint64:
		return a.Uint() == b.Uint(), path
	}
	return false, path + ": unsupported kind " + a.Kind().String()
}

// canonical tree text that, unlike String(), is unambiguous: used to detect two
// different trees sharing one printed form.
func treeSig(n interface{}) string {
	var b strings.Builder
	sigOf(reflect.ValueOf(n), &b)
	return b.String()
}

func sigOf(v reflect.Value, b *strings.Builder) {
	if !v.IsValid() {
		b.WriteString("<nil>")
		return
	}
	if v.Type() == posType {
		return
	}
	switch v.Kind() {
	case reflect.Ptr, reflect.Interface:
		if v.IsNil() {
			b.WriteString("<nil>")
			return
		}
		sigOf(v.Elem(), b)
	case reflect.Struct:
		b.WriteString(v.Type().Name() + "{")
		for i := 0; i < v.NumField(); i++ {
			if v.Type().Field(i).Name == "Quoted" {
				continue
			}
			sigOf(v.Field(i), b)
			b.WriteString(";")
		}
		b.WriteString("}")
	case reflect.Slice:
		b.WriteString("[")
		for i := 0; i < v.Len(); i++ {
			sigOf(v.Index(i), b)
			b.WriteString(",")
		}
		b.WriteString("]")
	case reflect.Map:
		keys := v.MapKeys()
		ks := make([]string, len(keys))
		for i, k := range keys {
			ks[i] = k.String()
		}
		sortStrings(ks)
		b.WriteString("map[")
		for _, k := range ks {
			fmt.Fprintf(b, "%q:", k)
			sigOf(v.MapIndex(reflect.ValueOf(k)), b)
			b.WriteString(",")
		}
		b.WriteString("]")
	default:
		fmt.Fprintf(b, "%#v", v.Interface())
	}
}

var (
	c17Once sync.Once
	c17Sys  []ref.Expr
	// printed form -> tree signature, per process: two different trees must not share a printed form
	c17Seen   = map[string]string{}
	c17SeenMu sync.Mutex
)

func c17Systematic() []ref.Expr {
	c17Once.Do(func() {
		x, y, z := &ref.DataRef{Name: "x"}, &ref.DataRef{Name: "y"}, &ref.DataRef{Name: "z"}
		one, two := &ref.Lit{V: ref.Int(1)}, &ref.Lit{V: ref.Int(2)}
		ops := append([]string{}, ref.BinaryOps...)
		ops = append(ops, "neg", "not", "tern")
		build := func(op string, l, r, c ref.Expr) ref.Expr {
			switch op {
			case "neg":
				return &ref.Unary{Op: "-", X: l}
			case "not":
				return &ref.Unary{Op: "not", X: l}
			case "tern":
				return &ref.Tern{C: l, A: r, B: c}
			}
			return &ref.Binary{Op: op, L: l, R: r}
		}
		// every operator as parent x every operator as child, in every operand slot
		for _, p := range ops {
			for _, c := range ops {
				child := build(c, x, y, z)
				c17Sys = append(c17Sys, build(p, child, one, two), build(p, one, child, two), build(p, one, two, child))
				childLit := build(c, one, two, &ref.Lit{V: ref.Float(1500), Src: "1.5e3"})
				c17Sys = append(c17Sys, build(p, childLit, x, y), build(p, x, childLit, y))
			}
		}
		extra := []ref.Expr{
			&ref.Tern{C: x, A: &ref.ListLit{Items: []ref.Expr{one}}, B: two},
			&ref.Tern{C: x, A: &ref.Lit{V: ref.Float(0.5)}, B: two},
			&ref.Tern{C: &ref.DataRef{Name: "x", Acc: []ref.Acc{{Kind: 0, Key: "a"}}}, A: &ref.ListLit{}, B: &ref.MapLit{}},
			&ref.Binary{Op: "-", L: one, R: &ref.Lit{V: ref.Int(-1)}},
			&ref.Binary{Op: "-", L: &ref.Lit{V: ref.Int(-1)}, R: &ref.Unary{Op: "-", X: x}},
			&ref.Unary{Op: "-", X: &ref.Paren{X: one}},
			&ref.Unary{Op: "-", X: &ref.Paren{X: &ref.Lit{V: ref.Float(2.5)}}},
			&ref.Unary{Op: "-", X: &ref.Unary{Op: "-", X: x}},
			&ref.Unary{Op: "-", X: &ref.Lit{V: ref.Int(-5)}},
			&ref.Lit{V: ref.Float(1500), Src: "1.5e3"}, &ref.Lit{V: ref.Float(1e21), Src: "1e21"}, &ref.Lit{V: ref.Float(1e-7), Src: "1e-7"}, &ref.Lit{V: ref.Float(2)},
			&ref.Lit{V: ref.Float(-3)}, &ref.Lit{V: ref.Float(6.02e23), Src: "6.02e23"}, &ref.Lit{V: ref.Int(31), Src: "0x1F"},
			&ref.Lit{V: ref.Str("a'b\\c\nd\re\tf\bg\fh\"i")}, &ref.Lit{V: ref.Str("é"), Src: `'é'`}, &ref.Lit{V: ref.Str("😀")},
			&ref.Lit{V: ref.Str("\\u0041")}, &ref.Lit{V: ref.Str("\\n")}, &ref.Lit{V: ref.Str("a\\u2028b")}, &ref.Lit{V: ref.Str("\\\\u00e9")}, &ref.MapLit{Keys: []string{"\\u0041", "\\t"}, Vals: []ref.Expr{one, two}},
			&ref.Lit{V: ref.Str("}")}, &ref.Lit{V: ref.Str("{")}, &ref.Lit{V: ref.Str("a{b}c")}, &ref.Lit{V: ref.Str("{{x}}")}, &ref.Lit{V: ref.Str("/}")}, &ref.Lit{V: ref.Str("{/msg}")},
			&ref.MapLit{Keys: []string{"}", "{k}"}, Vals: []ref.Expr{one, &ref.Lit{V: ref.Str("}")}}},
			&ref.Lit{V: ref.Str("\u00e9\tb")}, &ref.Lit{V: ref.Str("caf\u00e9\n")}, &ref.Lit{V: ref.Str("\u4e2d\n\u6587")}, &ref.Lit{V: ref.Str("\U0001F600\\x")}, &ref.Lit{V: ref.Str("\u00fc'\u00e9\n\u00ff\u0100")},
			&ref.MapLit{Keys: []string{"caf\u00e9\n", "\u4e2d\t", "\u00ff\\"}, Vals: []ref.Expr{one, two, x}},
			&ref.MapLit{Keys: []string{"a'b", "c\\d", "e\nf", "g\"h", "zz", "aa"}, Vals: []ref.Expr{one, two, x, y, z, &ref.ListLit{}}},
			&ref.MapLit{Keys: []string{"k"}, Vals: []ref.Expr{&ref.Tern{C: x, A: one, B: two}}},
			&ref.Call{Fn: "f", Args: []ref.Expr{&ref.Tern{C: x, A: one, B: two}, &ref.Binary{Op: "?:", L: y, R: z}}},
			&ref.Call{Fn: "g"}, &ref.Global{Name: "a.b.c"},
			&ref.DataRef{Name: "x", Acc: []ref.Acc{{Kind: 0, Key: "a", NullSafe: true}, {Kind: 1, Index: 0, NullSafe: true}, {Kind: 2, Arg: &ref.Tern{C: y, A: one, B: two}, NullSafe: true}, {Kind: 2, Arg: one}, {Kind: 1, Index: 12}}},
			&ref.DataRef{Name: "ij", Acc: []ref.Acc{{Kind: 0, Key: "foo"}}},
			// keys spelled like keywords and function names, after a dot and after ?.
			&ref.DataRef{Name: "row", Acc: []ref.Acc{{Kind: 0, Key: "null"}}}, &ref.DataRef{Name: "flags", Acc: []ref.Acc{{Kind: 0, Key: "not"}}}, &ref.DataRef{Name: "a", Acc: []ref.Acc{{Kind: 0, Key: "and"}, {Kind: 0, Key: "b"}}},
			&ref.DataRef{Name: "a", Acc: []ref.Acc{{Kind: 0, Key: "true", NullSafe: true}, {Kind: 0, Key: "false"}}}, &ref.DataRef{Name: "a", Acc: []ref.Acc{{Kind: 0, Key: "or"}}}, &ref.DataRef{Name: "a", Acc: []ref.Acc{{Kind: 0, Key: "length"}, {Kind: 0, Key: "range"}}},
			&ref.DataRef{Name: "a", Acc: []ref.Acc{{Kind: 0, Key: "ij"}}}, &ref.DataRef{Name: "a", Acc: []ref.Acc{{Kind: 0, Key: "x_1"}, {Kind: 0, Key: "_y"}, {Kind: 0, Key: "Z9"}}},
			&ref.Binary{Op: "and", L: &ref.DataRef{Name: "a", Acc: []ref.Acc{{Kind: 0, Key: "not"}}}, R: &ref.Unary{Op: "not", X: &ref.DataRef{Name: "a", Acc: []ref.Acc{{Kind: 0, Key: "and"}}}}},
			&ref.ListLit{Items: []ref.Expr{&ref.Tern{C: x, A: one, B: two}, &ref.Binary{Op: "?:", L: y, R: z}, &ref.Unary{Op: "-", X: one}}},
		}
		c17Sys = append(c17Sys, extra...)
		// containers inside containers: an inner map or list of every small size at every position of an outer
		// map or list of every small size (a printer that borrows scratch storage per level goes wrong only for
		// some size/position pairs), and the same one level deeper
		mk := func(isMap bool, n int, at int, inner ref.Expr) ref.Expr {
			keys := []string{"a", "b", "c", "d"}
			if isMap {
				m := &ref.MapLit{}
				for i := 0; i < n; i++ {
					m.Keys = append(m.Keys, keys[i])
					if i == at {
						m.Vals = append(m.Vals, inner)
					} else {
						m.Vals = append(m.Vals, &ref.Lit{V: ref.Int(int64(i + 3))})
					}
				}
				return m
			}
			l := &ref.ListLit{}
			for i := 0; i < n; i++ {
				if i == at {
					l.Items = append(l.Items, inner)
				} else {
					l.Items = append(l.Items, &ref.Lit{V: ref.Int(int64(i + 3))})
				}
			}
			return l
		}
		for _, outerMap := range []bool{true, false} {
			for n := 1; n <= 4; n++ {
				for at := 0; at < n; at++ {
					for _, innerMap := range []bool{true, false} {
						for m := 0; m <= 4; m++ {
							inner := mk(innerMap, m, -1, nil)
							c17Sys = append(c17Sys, mk(outerMap, n, at, inner))
							if m > 0 && n <= 3 {
								c17Sys = append(c17Sys, mk(outerMap, n, at, mk(innerMap, m, m-1, mk(true, 3, 0, mk(true, 2, -1, nil)))))
							}
						}
					}
				}
			}
		}
		// two inner maps side by side, keys out of order in the source
		c17Sys = append(c17Sys,
			&ref.MapLit{Keys: []string{"z", "a", "m"}, Vals: []ref.Expr{mk(true, 3, -1, nil), mk(true, 2, -1, nil), mk(true, 4, -1, nil)}},
			&ref.MapLit{Keys: []string{"b", "a"}, Vals: []ref.Expr{&ref.MapLit{Keys: []string{"y", "x"}, Vals: []ref.Expr{one, two}}, &ref.MapLit{Keys: []string{"q", "p", "o"}, Vals: []ref.Expr{x, y, z}}}})
		// float literals across the whole range: every decade (where integer conversions, exponent forms and
		// denormals change the printer's path) with several mantissas, and the powers of two around 2^53 and 2^63
		for _, f := range gen.FloatLadder() {
			c17Sys = append(c17Sys, f, &ref.Unary{Op: "-", X: f}, &ref.Binary{Op: "*", L: f, R: x})
		}
	})
	return c17Sys
}

func depthOf(e ref.Expr) int {
	switch e := e.(type) {
	case *ref.Paren:
		return depthOf(e.X)
	case *ref.Unary:
		return 1 + depthOf(e.X)
	case *ref.Binary:
		return 1 + maxInt(depthOf(e.L), depthOf(e.R))
	case *ref.Tern:
		return 1 + maxInt(depthOf(e.C), maxInt(depthOf(e.A), depthOf(e.B)))
	case *ref.Call:
		d := 0
		for _, a := range e.Args {
			d = maxInt(d, depthOf(a))
		}
		return 1 + d
	case *ref.ListLit:
		d := 0
		for _, a := range e.Items {
			d = maxInt(d, depthOf(a))
		}
		return 1 + d
	case *ref.MapLit:
		d := 0
		for _, a := range e.Vals {
			d = maxInt(d, depthOf(a))
		}
		return 1 + d
	case *ref.DataRef:
		d := 0
		for _, a := range e.Acc {
			if a.Kind == 2 {
				d = maxInt(d, 1+depthOf(a.Arg))
			}
		}
		return d
	}
	return 0
}

func maxInt(a, b int) int {
	if a > b {
		return a
	}
	return b
}

func init() {
	fw.Register(&fw.Prop{
		ID:    "C17",
		Level: "exploration",
		Rule: "deep: 35 bracketing constructs nested 24, 200 and 3000 deep are round-tripped, and printing at depth 24 may make at most 64 times the heap allocations of depth 12; " +
			"systematic: every operator (14 binary, 2 unary, ternary) as parent x every operator as child in every operand slot, ternaries whose branches start with '[' or a digit, " +
			"negative literals after minus, exponent and integral floats, hex ints, strings needing every escape, map literals with hostile keys, all access forms; random: seeded typed " +
			"and untyped trees of depth <= 5/7; each printed (minimal/redundant parentheses, tight/wide spacing), parsed by parse.Expr, printed by String(), parsed again, trees compared " +
			"ignoring positions; also as a print command with directives inside a template; and no two different trees seen in a process may share a printed form. " +
			"distinct = distinct source text; non-trivial = nesting depth >= 2",
		N: func(tier string) int {
			if tier == "thorough" {
				return len(c17Deep)*3 + len(c17Chains)*len(c17ChainLens) + len(c17Systematic())*3 + 10000000
			}
			return len(c17Deep)*3 + len(c17Chains)*len(c17ChainLens) + len(c17Systematic())*3 + 500000
		},
		Run: func(ctx *fw.Ctx, i int) fw.Result {
			if i < len(c17Deep)*3 {
				return c17DeepCase(ctx, c17Deep[i/3], []int{24, 200, 3000}[i%3])
			}
			i -= len(c17Deep) * 3
			if i < len(c17Chains)*len(c17ChainLens) {
				return c17ChainCase(ctx, c17Chains[i%len(c17Chains)], c17ChainLens[i/len(c17Chains)])
			}
			i -= len(c17Chains) * len(c17ChainLens)
			sys := c17Systematic()
			var e ref.Expr
			if i < len(sys)*3 {
				e = sys[i%len(sys)]
			} else {
				g := &gen.G{R: ctx.Rng, O: gen.Opts{Globals: true, IJ: true, Astral: true, WideFloats: true}}
				g.IJTy = []gen.Field{{Name: "user", Ty: gen.TStr}, {Name: "count", Ty: gen.TInt}}
				for _, p := range gen.ParamPool {
					g.Bind(p.Name, p.Ty)
				}
				depth := 2 + ctx.Rng.Intn(4)
				if ctx.Tier == "thorough" {
					depth = 2 + ctx.Rng.Intn(6)
				}
				ty := []gen.Ty{gen.TInt, gen.TStr, gen.TBool, gen.TFloat, gen.TList(gen.TInt), gen.TMapAS}[ctx.Rng.Intn(6)]
				e = g.Expr(ty, depth)
				// shuffle in ill-typed shapes: the round trip is about syntax, not types
				if ctx.Rng.P(1, 3) {
					op := ref.BinaryOps[ctx.Rng.Intn(len(ref.BinaryOps))]
					e = &ref.Binary{Op: op, L: e, R: g.Expr(gen.TBool, depth-1)}
				}
				if ctx.Rng.P(1, 5) {
					e = &ref.Unary{Op: []string{"-", "not"}[ctx.Rng.Intn(2)], X: e}
				}
			}
			style := ref.PrintStyle{Tight: i%3 == 1, Wide: i%3 == 2}
			s0 := ref.Src(e, style)
			id := ""
			if depthOf(e) >= 2 {
				id = s0
			}
			ctx.Eval(id)
			if i%2003 == 0 {
				ctx.Sample(map[string]string{"source": s0})
			}
			t0, err := parse.Expr(s0)
			if err != nil || t0 == nil {
				return fw.Result{Verdict: fw.Violated, Key: "generated-source-rejected", Case: s0, Msg: fmt.Sprintf("parse.Expr(%q): %v (C01's subject, but nothing can be round-tripped)", s0, err)}
			}
			s1 := t0.String()
			t1, err := parse.Expr(s1)
			if err != nil || t1 == nil {
				return fw.Result{Verdict: fw.Violated, Key: "printed-form-does-not-parse", Case: map[string]string{"source": s0, "printed": s1},
					Msg: fmt.Sprintf("%q parses, prints as %q, which does not parse: %v", s0, s1, err)}
			}
			if ok, why := astEqual(t0, t1); !ok {
				return fw.Result{Verdict: fw.Violated, Key: "printed-form-parses-to-different-tree", Case: map[string]string{"source": s0, "printed": s1, "reprinted": t1.String()},
					Msg: fmt.Sprintf("%q prints as %q, which parses to a different tree (%s)", s0, s1, why)}
			}
			ctx.Obs("expr_roundtrips", 1)
			// two different expressions must not print the same
			sig := treeSig(t0)
			c17SeenMu.Lock()
			prev, seen := c17Seen[s1]
			if !seen {
				if len(c17Seen) < 400000 {
					c17Seen[s1] = sig
				}
			}
			c17SeenMu.Unlock()
			if seen && prev != sig {
				return fw.Result{Verdict: fw.Violated, Key: "two-trees-one-printed-form", Case: map[string]string{"printed": s1, "source": s0},
					Msg: fmt.Sprintf("two structurally different expressions both print as %q", s1)}
			}
			// the same through a print command with directives
			if i%4 == 0 {
				dirs := []string{"", "|noAutoescape", "|truncate:5", "|truncate:" + s0 + ",true|escapeHtml", "|insertWordBreaks:" + s0}
				d := dirs[ctx.Rng.Intn(len(dirs))]
				file := "{namespace n}\n{template .t}\n{print " + s0 + d + "}\n{/template}\n"
				f0, err := parse.SoyFile("f", file)
				if err != nil {
					return fw.Result{Verdict: fw.Violated, Key: "generated-source-rejected:print", Case: file, Msg: fmt.Sprint(err)}
				}
				pn := findPrint(f0)
				if pn == nil {
					return fw.Result{Verdict: fw.Inconclusive, Key: "no-print-node", Case: file}
				}
				ps := pn.String()
				file1 := "{namespace n}\n{template .t}\n" + ps + "\n{/template}\n"
				f1, err := parse.SoyFile("f", file1)
				if err != nil {
					return fw.Result{Verdict: fw.Violated, Key: "printed-print-does-not-parse", Case: map[string]string{"source": file, "printed": ps},
						Msg: fmt.Sprintf("print command prints as %q, which does not parse: %v", ps, err)}
				}
				if ok, why := astEqual(pn, findPrint(f1)); !ok {
					return fw.Result{Verdict: fw.Violated, Key: "printed-print-parses-to-different-tree", Case: map[string]string{"source": file, "printed": ps},
						Msg: fmt.Sprintf("print command prints as %q, which parses to a different tree (%s)", ps, why)}
				}
				ctx.Obs("print_roundtrips", 1)
			}
			return fw.Result{Verdict: fw.Held}
		},
		Floors: func(obs map[string]int64, cells map[string]bool, tier string) []string {
			var why []string
			if obs["deep_roundtrips"] == 0 || obs["print_work_pairs"] == 0 {
				why = append(why, "no deeply nested expression was round-tripped")
			}
			if obs["expr_roundtrips"] == 0 || obs["print_roundtrips"] == 0 {
				why = append(why, "no round trip completed")
			}
			return why
		},
		Assumptions: []string{"the oracle is the real parser itself, used twice; tree comparison by reflection ignores ast.Pos and StringNode.Quoted"},
	})
}

// c17Chains: operators written n times in a row without parentheses (a flat chain to the writer, a tree as deep as it is
// long to the library), over operands that are all different.
var c17Chains = [][]string{{" + "}, {" - "}, {" * "}, {" / "}, {" % "}, {" and "}, {" or "}, {" ?: "}, {" == "}, {" != "}, {" < "}, {" <= "}, {" + ", " - "}, {" * ", " / ", " % "}, {" and ", " or "}, {" + ", " * "}, {" ? 1 : "}, {" ?: ", " ? 2 : "},
	{", "}, {"|id|"}}
var c17ChainLens = []int{2, 7, 8, 9, 15, 16, 17, 31, 32, 33, 63, 64, 65, 66, 127, 128, 129, 255, 256, 257, 1000, 4097, 5001, 9000}

func c17ChainCase(ctx *fw.Ctx, ops []string, n int) fw.Result {
	var b strings.Builder
	switch ops[0] {
	case ", ":
		b.WriteString("[")
	case "|id|":
		b.WriteString("$a0")
	}
	for k := 0; k <= n; k++ {
		switch ops[0] {
		case "|id|":
			fmt.Fprintf(&b, "|truncate:%d", k)
			continue
		}
		if k > 0 {
			b.WriteString(ops[k%len(ops)])
		}
		fmt.Fprintf(&b, "$a%d", k)
	}
	if ops[0] == ", " {
		b.WriteString("]")
	}
	s0 := b.String()
	ctx.Eval(s0)
	ctx.Cell("chain")
	var t0 ast.Node
	var err error
	if ops[0] == "|id|" {
		var f *ast.SoyFileNode
		f, err = parse.SoyFile("", "{"+s0+"}")
		if f != nil && len(f.Body) > 0 {
			t0 = f.Body[0]
		}
	} else {
		t0, err = parse.Expr(s0)
	}
	if err != nil || t0 == nil {
		return fw.Result{Verdict: fw.Violated, Key: "generated-source-rejected", Case: fw.Trim(s0, 400), Msg: fmt.Sprintf("a chain of %d %q: %v", n, ops, err)}
	}
	s1 := t0.String()
	var t1 ast.Node
	if ops[0] == "|id|" {
		var f *ast.SoyFileNode
		f, err = parse.SoyFile("", s1)
		if f != nil && len(f.Body) > 0 {
			t1 = f.Body[0]
		}
	} else {
		t1, err = parse.Expr(s1)
	}
	if err != nil || t1 == nil {
		return fw.Result{Verdict: fw.Violated, Key: "printed-form-does-not-parse", Case: map[string]string{"source": fw.Trim(s0, 400), "printed": fw.Trim(s1, 400)},
			Msg: fmt.Sprintf("a chain of %d %q prints as something that does not parse: %v", n, ops, err)}
	}
	if ok, why := astEqual(t0, t1); !ok {
		return fw.Result{Verdict: fw.Violated, Key: "printed-form-parses-to-different-tree", Case: map[string]string{"source": fw.Trim(s0, 400), "printed": fw.Trim(s1, 400)},
			Msg: fmt.Sprintf("a chain of %d %q prints as something that parses to a different tree (%s)", n, ops, why)}
	}
	ctx.Obs("chain_roundtrips", 1)
	return fw.Result{Verdict: fw.Held}
}

// c17Deep: every bracketing construct, nested.
var c17Deep = [][2]string{{"[", "]"}, {"(", ")"}, {"round(", ")"}, {"['k': ", "]"}, {"$a ? 1 : [", "]"}, {"$a ? [", "] : 2"}, {"[", "] ? 1 : 2"}, {"not ", ""}, {"-", ""},
	{"$a ?: (", ")"}, {"$a[", "]"}, {"$a?[", "]"}, {"-(", ")"}, {"$a ? 1 : ", ""}, {"1 + (", ")"}, {"(", ") + 1"}, {"$a and (", ")"}, {"[1, ", "]"}, {"f(1, ", ")"},
	{"$a.b[", "].c"}, {"$a ?: [", "]"}, {"$a ? 1 : -", ""}, {"['k': f(", ")]"}, {"(not [", "])"}, {"$a ? f([", "]) : 1"}, {"1 < ", ""}, {"$a == (", ")"},
	{"$a ? 1 : ($b ?: ", ")"}, {"$a ? ($b ? 1 : ", ") : 3"}, {"($a ? 1 : ", ") ? 2 : 3"}, {"1 - (2 - ", ")"}, {"(1 - ", ") - 2"}, {"$a ?: ($b ? 1 : ", ")"}, {"not (not $a or ", ")"}, {"-(-1 * ", ")"}}

// c17DeepCase round-trips a construct nested d deep; at depth 24 the printer's work (heap allocations) is compared with depth 12.
func c17DeepCase(ctx *fw.Ctx, p [2]string, d int) fw.Result {
	mk := func(d int) string { return strings.Repeat(p[0], d) + "$x" + strings.Repeat(p[1], d) }
	s0 := mk(d)
	ctx.Eval(s0)
	ctx.Cell("deep")
	t0, err := parse.Expr(s0)
	if err != nil || t0 == nil {
		return fw.Result{Verdict: fw.Violated, Key: "generated-source-rejected", Case: s0, Msg: fmt.Sprintf("parse.Expr of %q nested %d deep: %v", p[0]+"$x"+p[1], d, err)}
	}
	var s1 string
	mFull := mallocsOf(func() { s1 = t0.String() })
	t1, err := parse.Expr(s1)
	if err != nil || t1 == nil {
		return fw.Result{Verdict: fw.Violated, Key: "printed-form-does-not-parse", Case: map[string]string{"source": s0, "printed": fw.Trim(s1, 2000)},
			Msg: fmt.Sprintf("%q nested %d deep prints as something that does not parse: %v", p[0]+"$x"+p[1], d, err)}
	}
	if ok, why := astEqual(t0, t1); !ok {
		return fw.Result{Verdict: fw.Violated, Key: "printed-form-parses-to-different-tree", Case: map[string]string{"source": s0, "printed": fw.Trim(s1, 2000)},
			Msg: fmt.Sprintf("%q nested %d deep prints as something that parses to a different tree (%s)", p[0]+"$x"+p[1], d, why)}
	}
	ctx.Obs("deep_roundtrips", 1)
	if d == 24 {
		th, err := parse.Expr(mk(12))
		if err != nil {
			return fw.Result{Verdict: fw.Inconclusive, Key: "half-depth-rejected", Case: mk(12)}
		}
		mHalf := mallocsOf(func() { _ = th.String() })
		ctx.Obs("print_work_pairs", 1)
		ctx.Max("max_print_alloc_ratio_depth24_vs_12", float64(mFull)/float64(mHalf+1))
		if mFull > 64*mHalf+2000 {
			return fw.Result{Verdict: fw.Violated, Key: "print-work-explodes-with-depth", Case: map[string]string{"source": s0},
				Msg: fmt.Sprintf("printing %q nested 12 deep makes %d heap allocations, nested 24 deep %d: error messages and the message extractor print expressions", p[0]+"$x"+p[1], mHalf, mFull)}
		}
	}
	return fw.Result{Verdict: fw.Held}
}

func findPrint(f *ast.SoyFileNode) *ast.PrintNode {
	for _, n := range f.Body {
		if t, ok := n.(*ast.TemplateNode); ok {
			for _, c := range t.Body.Nodes {
				if p, ok := c.(*ast.PrintNode); ok {
					return p
				}
			}
		}
	}
	return nil
}
