package props

import (
	"bytes"
	"encoding/json"
	"fmt"
	"github.com/robfig/soy/ast"
	"github.com/robfig/soy/soymsg"
	"strconv"
	"strings"
	"sync"
	"sync/atomic"
	"unicode/utf8"

	"github.com/robfig/soy/data"
	"github.com/robfig/soy/soyhtml"
	"github.com/robfig/soy/soyjs"
	"github.com/robfig/soy/template"

	"verif/fw"
	"verif/gen"
	"verif/jsx"
	"verif/ref"
)

var (
	jsOnce   sync.Once
	jsEngine jsx.Engine
	jsErr    error
)

func engine() (jsx.Engine, error) {
	jsOnce.Do(func() { jsEngine, jsErr = jsx.New() })
	return jsEngine, jsErr
}

var (
	genJSCalls, genJSFailedFirst int64
	jsFailOnce                   sync.Once
	jsFailReg                    *template.Registry
)

const jsFailSrc = "{namespace jsf}\n/** @param? a */\n{template .t}\nsome 'text' \"first\" {$a}\n{call .u}{param x: ($a ?: 1) + 7 * verifHtmlOnly($a) /}{/call}" +
	"{call .u data=\"['x': verifHtmlOnly(2)]\" /}{let $l: [1, 2] /}{$l[verifHtmlOnly(0)]}\n{/template}\n/** @param? x */\n{template .u}{$x ?: ''}{/template}\n"

// genJS generates the JavaScript of every file of the registry.
func genJS(reg *template.Registry, o soyjs.Options) (map[string]string, error) {
	// every third generation comes after one that failed part-way (a function only the HTML backend knows, met in the
	// middle of a file): what a failed generation leaves behind must not reach the next one
	if atomic.AddInt64(&genJSCalls, 1)%3 == 0 {
		jsFailOnce.Do(func() {
			soyhtml.Funcs["verifHtmlOnly"] = soyhtml.Func{Apply: func(a []data.Value) data.Value { return data.Int(0) }, ValidArgLengths: []int{1}}
			jsFailReg, _ = compileRegistry([]srcFile{{"jsfail.soy", jsFailSrc}}, nil)
		})
		if jsFailReg != nil {
			var sink bytes.Buffer
			if err := soyjs.Write(&sink, jsFailReg.SoyFiles[0], o); err != nil {
				atomic.AddInt64(&genJSFailedFirst, 1)
			}
		}
	}
	out := map[string]string{}
	for _, sf := range reg.SoyFiles {
		var buf bytes.Buffer
		if err := soyjs.Write(&buf, sf, o); err != nil {
			return nil, fmt.Errorf("%s: %v", sf.Name, err)
		}
		out[sf.Name] = buf.String()
	}
	return out, nil
}

// c14ReorderedTags: a message full of HTML tags under a translation that moves the tag placeholders around (putting
// some side by side): both backends must produce the translation with every placeholder replaced by the characters of
// its tag, on the first generation and on the second one from the same compiled bundle.
func c14ReorderedTags(ctx *fw.Ctx, e jsx.Engine) *fw.Result {
	r := ctx.Rng
	tags := [][2]string{{"<b>", "</b>"}, {"<i>", "</i>"}, {"<a href=\"/x?a=1&amp;b=2\">", "</a>"}, {"<span class=\"k\">", "</span>"}, {"<em>", "</em>"}, {"<u>", "</u>"}}
	r.Shuffle(len(tags), func(a, b int) { tags[a], tags[b] = tags[b], tags[a] })
	n := 2 + r.Intn(3)
	var body strings.Builder
	for k := 0; k < n; k++ {
		fmt.Fprintf(&body, "%sw%d%s", tags[k][0], k, tags[k][1])
		if r.Bool() {
			fmt.Fprintf(&body, " t%d ", k)
		}
	}
	// ... and one printed value, which the translation wraps in literal braces
	body.WriteString(" {lb}{1 + 1}{rb}")
	src := "{namespace mt}\n/** */\n{template .t}\n{msg desc=\"d\"}" + strings.TrimSpace(body.String()) + "{/msg}\n{/template}\n"
	files := []srcFile{{"mt.soy", src}}
	reg, err := compileRegistry(files, nil)
	if err != nil {
		return &fw.Result{Verdict: fw.Inconclusive, Key: "tag-message-does-not-compile", Msg: errText(err), Case: src}
	}
	var msg *ast.MsgNode
	tagOf := map[string]string{}
	for _, t := range reg.Templates {
		walkAst(t.Node, func(nd ast.Node) {
			switch nd := nd.(type) {
			case *ast.MsgNode:
				msg = nd
			case *ast.MsgPlaceholderNode:
				if h, ok := nd.Body.(*ast.MsgHtmlTagNode); ok {
					tagOf[nd.Name] = string(h.Text)
				}
			}
		})
	}
	if msg == nil || len(tagOf) < 2 {
		return &fw.Result{Verdict: fw.Inconclusive, Key: "tag-message-has-no-tag-placeholders", Case: src}
	}
	var names []string
	for _, p := range ref.ParseParts(soymsg.PlaceholderString(msg)) { // (the harness's own reading of the placeholder string)
		if p.Ph != "" {
			names = append(names, p.Ph)
		}
	}
	r.Shuffle(len(names), func(a, b int) { names[a], names[b] = names[b], names[a] })
	var tr, want strings.Builder
	for k, nm := range names {
		if _, isTag := tagOf[nm]; !isTag {
			tr.WriteString("{{" + nm + "}}x{ID_{" + nm + "}}")
			want.WriteString("{2}x{ID_2}")
			continue
		}
		tr.WriteString("{" + nm + "}")
		want.WriteString(tagOf[nm])
		if k%2 == 1 && r.Bool() {
			tr.WriteString("z" + fmt.Sprint(k))
			want.WriteString("z" + fmt.Sprint(k))
		}
	}
	bundle := &fakeBundle{msgs: map[uint64]*soymsg.Message{msg.ID: soymsg.NewMessage(msg.ID, tr.String())}, locale: "xx"}
	cd := map[string]interface{}{"source": src, "translation": tr.String(), "expected": want.String()}
	goOut, gerr := render(soyhtml.NewTofu(reg), "mt.t", nil, nil, bundle)
	ctx.Obs("reordered_tag_messages", 1)
	if gerr != nil || goOut != want.String() {
		return &fw.Result{Verdict: fw.Violated, Key: "literal-not-preserved:go:reordered-tags", Case: cd, Msg: fmt.Sprintf("Go renderer under the reordering translation: %q (err %v), expected %q", goOut, gerr, want.String())}
	}
	for round := 1; round <= 2; round++ {
		js, err := genJS(reg, soyjs.Options{Messages: bundle})
		if err != nil {
			return &fw.Result{Verdict: fw.Violated, Key: "js-generation-fails:reordered-tags", Case: cd, Msg: errText(err)}
		}
		if _, err := loadBundleJS(e, reg, js); err != nil {
			if _, isEng := err.(jsx.EngineError); isEng {
				return &fw.Result{Verdict: fw.Inconclusive, Key: "engine-failure", Msg: err.Error()}
			}
			cd["js"] = js["mt.soy"]
			return &fw.Result{Verdict: fw.Violated, Key: "js-does-not-load:reordered-tags", Case: cd, Msg: fmt.Sprintf("generation %d: %v", round, fw.Trim(err.Error(), 300))}
		}
		out, typ, jerr := e.Eval("mt.t({}, null, {})")
		if jerr != nil || typ != "string" || out != want.String() {
			if _, isEng := jerr.(jsx.EngineError); isEng {
				return &fw.Result{Verdict: fw.Inconclusive, Key: "engine-failure", Msg: jerr.Error()}
			}
			cd["js"] = js["mt.soy"]
			return &fw.Result{Verdict: fw.Violated, Key: "literal-not-preserved:js:reordered-tags", Case: cd,
				Msg: fmt.Sprintf("generation %d of the JavaScript under the reordering translation returns %q (err %v), expected %q", round, out, jerr, want.String())}
		}
	}
	return nil
}

func jsonArg(v interface{}) string {
	b, _ := json.Marshal(v)
	return string(b)
}

// loadBundleJS resets the engine and loads all files in registry order.
func loadBundleJS(e jsx.Engine, reg *template.Registry, js map[string]string) (string, error) {
	if err := e.Reset(); err != nil {
		return "", jsx.EngineError{}
	}
	for _, sf := range reg.SoyFiles {
		if err := e.Load(js[sf.Name]); err != nil {
			return sf.Name, err
		}
	}
	return "", nil
}

// Ill-typed but compilable programs: every operator, function and reference form over every operand class - literals
// above all (5.length is not JavaScript) - 150 expressions to a file. The compiler accepts them, so the generated
// script has to be a script; what it does when called is not this property's business.
const c14IllBatch = 150

func c14IllTypedBatches(tier string) int {
	n := len(c01Systematic())
	if tier == "thorough" {
		n *= 3
	}
	return (n+c14IllBatch-1)/c14IllBatch + c14ManyBindings
}

// c14ManyBindings files hold more variables than any counter of generated names is likely to be made for.
const c14ManyBindings = 3

func c14IllTyped(ctx *fw.Ctx, e jsx.Engine, b int) fw.Result {
	if first := c14IllTypedBatches(ctx.Tier) - c14ManyBindings; b >= first {
		// one file, thousands of lets, loops and content params
		nt, per := []int{60, 130, 1100}[b-first], []int{20, 85, 10}[b-first]
		var src strings.Builder
		src.WriteString("{namespace many}\n/** @param? p */\n{template .show}[{$p ?: ''}]{/template}\n")
		for t := 0; t < nt; t++ {
			fmt.Fprintf(&src, "/** */\n{template .t%d}\n", t)
			for k := 0; k < per; k++ {
				switch k % 5 {
				case 0:
					fmt.Fprintf(&src, "{let $v%d: 'a%d.%d' /}{$v%d}", k, t, k, k)
				case 1:
					fmt.Fprintf(&src, "{let $w%d}b{$v%d}{/let}{$w%d}", k, k-1, k)
				case 2:
					fmt.Fprintf(&src, "{foreach $x in [1, 2]}{$x}{isLast($x) ? '.' : ','}{/foreach}")
				case 3:
					fmt.Fprintf(&src, "{for $i in range(2)}{$i}{/for}")
				default:
					fmt.Fprintf(&src, "{call .show}{param p}c%d{/param}{/call}", k)
				}
			}
			src.WriteString("\n{/template}\n")
		}
		files := []srcFile{{"many.soy", src.String()}}
		reg, err := compileRegistry(files, nil)
		if err != nil {
			return fw.Result{Verdict: fw.Skip}
		}
		ctx.Cell("many-bindings")
		ctx.Eval(fmt.Sprintf("many:%d:%d", nt, per))
		js, err := genJS(reg, soyjs.Options{})
		if err != nil {
			return fw.Result{Verdict: fw.Violated, Key: "js-generation-fails:many-bindings", Case: fmt.Sprintf("%d templates of %d bindings", nt, per), Msg: errText(err)}
		}
		if file, err := loadBundleJS(e, reg, js); err != nil {
			if _, isEng := err.(jsx.EngineError); isEng {
				return fw.Result{Verdict: fw.Inconclusive, Key: "engine-failure", Msg: err.Error()}
			}
			return fw.Result{Verdict: fw.Violated, Key: "js-does-not-load:many-bindings", Case: fmt.Sprintf("%d templates of %d bindings in one file", nt, per),
				Msg: fmt.Sprintf("the JavaScript generated for %s (%d templates, %d bindings each) does not load: %v", file, nt, per, fw.Trim(err.Error(), 300))}
		}
		for _, t := range []int{0, nt / 2, nt - 1} {
			if v, _, err := e.Eval(fmt.Sprintf("typeof many.t%d", t)); err != nil || v != "function" {
				return fw.Result{Verdict: fw.Violated, Key: "js-function-missing", Case: fmt.Sprintf("%d templates of %d bindings", nt, per), Msg: fmt.Sprintf("typeof many.t%d = %q (%v)", t, v, err)}
			}
			// ... and each still prints its own values
			got, _, err := e.Eval(fmt.Sprintf("many.t%d({})", t))
			want := ""
			for k := 0; k < per; k++ {
				switch k % 5 {
				case 0:
					want += fmt.Sprintf("a%d.%d", t, k)
				case 1:
					want += fmt.Sprintf("ba%d.%d", t, k-1)
				case 2:
					want += "1,2."
				case 3:
					want += "01"
				default:
					want += fmt.Sprintf("[c%d]", k)
				}
			}
			if err != nil || got != want {
				return fw.Result{Verdict: fw.Violated, Key: "literal-not-preserved:many-bindings", Case: fmt.Sprintf("%d templates of %d bindings", nt, per),
					Msg: fmt.Sprintf("many.t%d() returned %q (err %v), want %q", t, fw.Trim(fmt.Sprint(got), 200), err, fw.Trim(want, 200))}
			}
		}
		ctx.Obs("bindings_in_one_file", int64(nt*per))
		return fw.Result{Verdict: fw.Held}
	}
	all := c01Systematic()
	f := &ref.File{Name: "ill.soy", Namespace: "ill"}
	for k := b * c14IllBatch; k < (b+1)*c14IllBatch; k++ {
		c := all[k%len(all)]
		pos := []int{0, 2, 4}[(k/len(all))%3] // print, if, let
		if c.Pos >= 0 {
			continue
		}
		ev, st := ref.Eval(c.E, ref.NewEnv(c.Data, &c01IJ, c01Globals))
		body := c01Positions[pos].mk(c.E, ev, st)
		if body == nil {
			continue
		}
		vars := map[string]bool{}
		exprVars(c.E, vars)
		t := &ref.Template{Name: fmt.Sprintf("t%d", k), Body: body}
		var names []string
		for n := range vars {
			names = append(names, n)
		}
		sortStrings(names)
		for _, n := range names {
			if n != "it" && n != "v" {
				t.Params = append(t.Params, ref.ParamDecl{Name: n, Optional: true})
			}
		}
		f.Templates = append(f.Templates, t)
	}
	if len(f.Templates) == 0 {
		return fw.Result{Verdict: fw.Skip}
	}
	bnd := &ref.Bundle{Files: []*ref.File{f}, Globals: c01Globals}
	files := bundleSources(bnd, ref.Layout{})
	ctx.Cell("ill-typed-expressions")
	reg, err := compileRegistry(files, bnd.Globals)
	if err != nil {
		// one expression the compiler rejects takes the batch with it: keep those it accepts alone
		var good []*ref.Template
		for _, t := range f.Templates {
			one := &ref.Bundle{Files: []*ref.File{{Name: f.Name, Namespace: f.Namespace, Templates: []*ref.Template{t}}}, Globals: c01Globals}
			if _, err := compileRegistry(bundleSources(one, ref.Layout{}), one.Globals); err == nil {
				good = append(good, t)
			} else {
				ctx.Obs("illtyped_expressions_rejected_by_the_compiler", 1)
			}
		}
		f.Templates = good
		files = bundleSources(bnd, ref.Layout{})
		if reg, err = compileRegistry(files, bnd.Globals); err != nil || len(good) == 0 {
			return fw.Result{Verdict: fw.Skip}
		}
	}
	ctx.Eval("ill:" + files[0].Text)
	js, err := genJS(reg, soyjs.Options{})
	if err != nil {
		ctx.Obs("illtyped_generation_errors", 1)
		return fw.Result{Verdict: fw.Held} // (an error value is an answer; C13/C08 look at those)
	}
	if file, err := loadBundleJS(e, reg, js); err != nil {
		if _, isEng := err.(jsx.EngineError); isEng {
			return fw.Result{Verdict: fw.Inconclusive, Key: "engine-failure", Msg: err.Error()}
		}
		return fw.Result{Verdict: fw.Violated, Key: "js-does-not-load:ill-typed", Case: map[string]interface{}{"files": files, "js": js[file]},
			Msg: fmt.Sprintf("the compiler accepts %s but the JavaScript generated for it does not load: %v", file, fw.Trim(err.Error(), 300))}
	}
	ctx.Obs("illtyped_expressions_loaded", int64(len(f.Templates)))
	return fw.Result{Verdict: fw.Held}
}

// literal sites: how a string that originates in the template reaches the output
var c14Sites = []string{"css-name-with-base", "literal-block", "string-literal", "string-literal-concat", "map-key", "map-value", "css-name", "msg-text", "msg-text-translated", "global-string", "global-list", "global-map", "param-value-literal", "let-content-text", "switch-case-literal", "directive-arg-literal", "msg-desc", "msg-meaning"}

// c14Case builds a one-file bundle in which literal s reaches the output through the site; ok=false if the site cannot carry s.
func c14Case(site, s string) (src string, globals map[string]ref.Value, want string, ok bool) {
	q := ref.QuoteSoy(s)
	hdr := "{namespace lit}\n{template .t autoescape=\"false\"}\n"
	ftr := "\n{/template}\n"
	soySafe := utf8.ValidString(s) // source files are text
	if !soySafe {
		return "", nil, "", false
	}
	switch site {
	case "literal-block":
		if strings.Contains(s, "{/literal}") || s == "" {
			return "", nil, "", false
		}
		return hdr + "{literal}" + s + "{/literal}" + ftr, nil, s, true
	case "string-literal":
		return hdr + "{" + q + "}" + ftr, nil, s, true
	case "string-literal-concat":
		return hdr + "{'[' + " + q + " + ']'}" + ftr, nil, "[" + s + "]", true
	case "map-key":
		if s == "" {
			return "", nil, "", false
		}
		return hdr + "{let $m: [" + q + ": 'found', 'other': 'x'] /}{$m[" + q + "]}{length(keys($m))}" + ftr, nil, "found2", true
	case "map-value":
		return hdr + "{let $m: ['k': " + q + "] /}{$m.k}" + ftr, nil, s, true
	case "css-name":
		if strings.ContainsAny(s, "}{,\n\r") || strings.TrimSpace(s) != s || s == "" || strings.Contains(s, "/*") || strings.Contains(s, "//") {
			return "", nil, "", false
		}
		return hdr + "{css " + s + "}" + ftr, nil, s, true
	case "css-name-with-base":
		if strings.ContainsAny(s, "}{,\n\r") || strings.TrimSpace(s) != s || s == "" || strings.Contains(s, "/*") || strings.Contains(s, "//") {
			return "", nil, "", false
		}
		return hdr + "{css 'base', " + s + "}" + ftr, nil, "base-" + s, true
	case "msg-text", "msg-text-translated":
		if strings.ContainsAny(s, "{}\n\r\t") || strings.TrimSpace(s) != s || s == "" || strings.Contains(s, "/*") || strings.Contains(s, "//") || strings.Contains(s, "  ") {
			return "", nil, "", false
		}
		w := s
		if site == "msg-text-translated" {
			w = "«" + s + "»"
		}
		return hdr + "{msg desc=\"d\"}" + s + "{/msg}" + ftr, nil, w, true
	case "msg-desc", "msg-meaning":
		// text for translators: it never reaches the output, and whatever a generator does with it (a comment, a
		// goog.getMsg description) must leave the script well-formed
		if strings.ContainsAny(s, "{}\"\\\n\r") || s == "" {
			return "", nil, "", false // (attribute values are quoted strings: only text that needs no escaping)
		}
		if _, err := strconv.Unquote("\"" + s + "\""); err != nil {
			return "", nil, "", false
		}
		attr := "desc=\"" + s + "\""
		if site == "msg-meaning" {
			attr = "meaning=\"" + s + "\" desc=\"d\""
		}
		return hdr + "{msg " + attr + "}hello{/msg}" + ftr, nil, "hello", true
	case "global-string":
		return hdr + "{G.str}" + ftr, map[string]ref.Value{"G.str": ref.Str(s)}, s, true
	case "global-list":
		return hdr + "{foreach $x in G.list}{$x}{/foreach}" + ftr, map[string]ref.Value{"G.list": ref.List(ref.Int(1), ref.Str(s))}, "1" + s, true
	case "global-map":
		if s == "" {
			return "", nil, "", false
		}
		if s == "k" {
			return "", nil, "", false
		}
		return hdr + "{let $g: G.map /}{$g[" + q + "]}{$g.k}" + ftr, map[string]ref.Value{"G.map": ref.MapOf(s, ref.Str("v1"), "k", ref.Str(s))}, "v1" + s, true
	case "param-value-literal":
		return "{namespace lit}\n{template .t autoescape=\"false\"}\n{call .u}{param p: " + q + " /}{/call}" + ftr + "/** @param p */\n{template .u autoescape=\"false\"}{$p}{/template}\n", nil, s, true
	case "let-content-text":
		if strings.Contains(s, "{/literal}") || s == "" {
			return "", nil, "", false
		}
		return hdr + "{let $c}{literal}" + s + "{/literal}{/let}{$c}" + ftr, nil, s, true
	case "switch-case-literal":
		return hdr + "{switch " + q + "}{case 'nomatch'}no{case " + q + "}yes{default}dflt{/switch}" + ftr, nil, "yes", true
	case "directive-arg-literal":
		return hdr + "{" + q + "|truncate:100000}" + ftr, nil, s, true
	}
	return "", nil, "", false
}

var c14Reserved = []string{"class", "function", "var", "new", "delete", "typeof", "this", "null", "true", "default", "switch", "return", "in", "with", "opt_data", "output", "soy"}

func init() {
	nStr := len(gen.HostileStrings())
	fw.Register(&fw.Prop{
		ID:    "C14",
		Level: "exploration",
		Rule: "literal cases: every hostile string (all byte values that form valid text, quotes, backslashes, CR/LF, U+2028/2029, BOM, '</script>', '<!--', ']]>', printable and non-printable astral " +
			"code points, long strings) x 15 emission sites (literal block, string literal, concatenation, map key read back by lookup, map value, css name, msg text with and without translation " +
			"bundle, string/list/map globals, param value, content block, switch case, directive argument): the generated ES5 file must load, define the function, and the function must return exactly " +
			"the original characters; the ES6 output must parse as a module and export every template. well-formedness cases: generated bundles (C02 generator, plus JS reserved words as param/let/loop " +
			"names): every file under ES5 loads and leaves a function at each template's qualified name, under ES6 parses and exports it. distinct = distinct (site, literal) / bundle; non-trivial = literal contains a character that needs escaping",
		N: func(tier string) int {
			if tier == "thorough" {
				return nStr*len(c14Sites) + 300000 + 100000 + c14IllTypedBatches(tier)
			}
			return nStr*len(c14Sites) + 6000 + 4000 + c14IllTypedBatches(tier)
		},
		Setup: func(tier string, seed uint64, config string) string {
			if _, err := engine(); err != nil {
				return "no JavaScript engine: " + err.Error()
			}
			return ""
		},
		Run: func(ctx *fw.Ctx, i int) fw.Result {
			e, _ := engine()
			ctx.Cell("engine:" + e.Name())
			defer func() { ctx.Obs("generations_after_a_failed_one", atomic.SwapInt64(&genJSFailedFirst, 0)) }()
			nLit := nStr * len(c14Sites)
			nRandLit := 4000
			nBundles := 6000
			if ctx.Tier == "thorough" {
				nRandLit = 100000
				nBundles = 300000
			}
			if i >= nLit+nRandLit+nBundles {
				return c14IllTyped(ctx, e, i-(nLit+nRandLit+nBundles))
			}
			if i < nLit+nRandLit {
				var s, site string
				if i < nLit {
					s, site = gen.HostileStrings()[i%nStr], c14Sites[i/nStr]
				} else {
					s, site = gen.RandomString(ctx.Rng), c14Sites[ctx.Rng.Intn(len(c14Sites))]
				}
				src, globals, want, ok := c14Case(site, s)
				if !ok {
					return fw.Result{Verdict: fw.Skip}
				}
				reg, err := compileRegistry([]srcFile{{"lit.soy", src}}, globals)
				if err != nil {
					return fw.Result{Verdict: fw.Skip} // acceptance of sources is C01/C02's subject
				}
				opts := soyjs.Options{}
				if site == "msg-text-translated" {
					opts.Messages = translationsFor(reg)
				}
				js, err := genJS(reg, opts)
				if err != nil {
					return fw.Result{Verdict: fw.Violated, Key: "js-generation-fails:" + site, Case: src, Msg: errText(err)}
				}
				id := ""
				if strings.ContainsAny(s, "'\"\\\n\r<>&=  ") || strings.IndexFunc(s, func(r rune) bool { return r > 0x7e || r < 0x20 }) >= 0 {
					id = site + "\x00" + s
				}
				ctx.Eval(id)
				ctx.Cell("site:" + site)
				cd := map[string]interface{}{"site": site, "literal": s, "source": src, "js": js["lit.soy"]}
				if file, err := loadBundleJS(e, reg, js); err != nil {
					if _, isEng := err.(jsx.EngineError); isEng {
						return fw.Result{Verdict: fw.Inconclusive, Key: "engine-failure", Msg: err.Error()}
					}
					return fw.Result{Verdict: fw.Violated, Key: "js-does-not-load:" + site, Case: cd,
						Msg: fmt.Sprintf("literal %q at site %s: the generated JavaScript for %s does not load: %v", fw.Trim(s, 60), site, file, fw.Trim(err.Error(), 300))}
				}
				got, typ, err := e.Eval("lit.t({}, null, {})")
				if err != nil || typ != "string" {
					return fw.Result{Verdict: fw.Violated, Key: "js-call-fails:" + site, Case: cd, Msg: fmt.Sprintf("literal %q at site %s: calling the generated function: %v (typeof %s)", fw.Trim(s, 60), site, err, typ)}
				}
				if got != want {
					return fw.Result{Verdict: fw.Violated, Key: "literal-not-preserved:" + site, Case: cd,
						Msg: fmt.Sprintf("literal %q at site %s denotes %q in the generated JavaScript (want %q)", fw.Trim(s, 80), site, fw.Trim(got, 80), fw.Trim(want, 80))}
				}
				ctx.Obs("literals_preserved", 1)
				// ES6: parses as a module and exports the template
				js6, err := genJS(reg, soyjs.Options{Formatter: &soyjs.ES6Formatter{}, Messages: opts.Messages})
				if err != nil {
					return fw.Result{Verdict: fw.Violated, Key: "js-generation-fails:es6:" + site, Case: src, Msg: errText(err)}
				}
				if err := e.ParseModule(js6["lit.soy"]); err != nil {
					return fw.Result{Verdict: fw.Violated, Key: "es6-does-not-parse:" + site, Case: map[string]interface{}{"source": src, "js": js6["lit.soy"]}, Msg: fw.Trim(err.Error(), 300)}
				}
				if !strings.Contains(js6["lit.soy"], "export function lit__t(") {
					return fw.Result{Verdict: fw.Violated, Key: "es6-export-missing", Case: js6["lit.soy"], Msg: "no 'export function lit__t('"}
				}
				if i%997 == 0 {
					ctx.Sample(map[string]interface{}{"site": site, "literal": fw.Trim(s, 80), "js_returned": fw.Trim(got, 80)})
				}
				return fw.Result{Verdict: fw.Held}
			}
			// well-formedness of whole bundles
			g := &gen.G{R: ctx.Rng}
			g.O = c02Opts(ctx.Rng, ctx.Tier)
			g.O.Msgs, g.O.Astral = true, true
			prog := g.Bundle(1+ctx.Rng.Intn(3), 2+ctx.Rng.Intn(4))
			files := bundleSources(prog.B, ref.Layout{Multiline: i%4 == 1, CRLF: i%5 == 3})
			if ctx.Rng.P(1, 3) {
				// JS reserved words as variable names
				w := c14Reserved[ctx.Rng.Intn(len(c14Reserved))]
				w2 := c14Reserved[ctx.Rng.Intn(len(c14Reserved))]
				files = append(files, srcFile{"reserved.soy", "{namespace res.erved}\n/** @param " + w + " */\n{template .t}\n{$" + w + "}{let $" + w2 + ": 1 /}{$" + w2 + "}{foreach $" + w2 + " in [1,2]}{$" + w2 + "}{index($" + w2 + ")}{/foreach}" +
					"{let $" + w2 + "}c{/let}{$" + w2 + "}{call .u}{param " + w + ": $" + w + " /}{/call}\n{/template}\n/** @param? " + w + " */\n{template .u}{$" + w + " ?: ''}{/template}\n"})
				ctx.Cell("reserved-word-names")
			}
			if i%4 == 2 {
				if r := c14ReorderedTags(ctx, e); r != nil {
					return *r
				}
			}
			if i%7 == 4 {
				// a file name is a label given by the caller; whatever it holds, it must not get out of the comment that
				// quotes it at the top of the generated file
				files[len(files)-1].Name = []string{"views/a b.soy", "x\nalert(1)//.soy", "line\u2028sep.soy", "cr\rname.soy", "*/ star.soy", "</script>.soy", "back\\slash.soy", "nl\n"}[ctx.Rng.Intn(8)]
				ctx.Cell("awkward-file-names")
			}
			if i%3 == 0 && len(files) >= 2 {
				// file names that are prefixes / suffixes of one another, the longer one first: names identify files exactly
				files[0].Name = "admin_" + files[1].Name
				if len(files) >= 3 {
					files[2].Name = files[1].Name + ".soy"
				}
				ctx.Cell("overlapping-file-names")
			}
			reg, err := compileRegistry(files, prog.B.Globals)
			if err != nil {
				return fw.Result{Verdict: fw.Skip}
			}
			// the other entry point: Generator.WriteFile(name) is Write(that file) with default options
			gnr := soyjs.NewGenerator(reg)
			for _, sf := range reg.SoyFiles {
				var a, b bytes.Buffer
				errA := gnr.WriteFile(&a, sf.Name)
				errB := soyjs.Write(&b, sf, soyjs.Options{})
				ctx.Obs("generator_writefile_compared", 1)
				if (errA == nil) != (errB == nil) || a.String() != b.String() {
					return fw.Result{Verdict: fw.Violated, Key: "generator-writefile-differs-from-write", Case: files,
						Msg: fmt.Sprintf("Generator.WriteFile(%q) gives %d bytes (err %v), soyjs.Write of that file %d bytes (err %v)", sf.Name, a.Len(), errA, b.Len(), errB)}
				}
			}
			var nf bytes.Buffer
			if err := gnr.WriteFile(&nf, "no/such/file.soy"); err == nil || nf.Len() != 0 {
				return fw.Result{Verdict: fw.Violated, Key: "generator-writefile-unknown-name", Case: files, Msg: fmt.Sprintf("WriteFile of a name that is not in the bundle: err %v, %d bytes written", err, nf.Len())}
			}
			src := ""
			for _, f := range files {
				src += f.Text
			}
			ctx.Eval("bundle:" + src)
			for _, withMsgs := range []bool{false, true} {
				o := soyjs.Options{}
				if withMsgs {
					o.Messages = translationsFor(reg)
				}
				js, err := genJS(reg, o)
				if err != nil {
					return fw.Result{Verdict: fw.Violated, Key: "js-generation-fails:bundle", Case: files, Msg: errText(err)}
				}
				if file, err := loadBundleJS(e, reg, js); err != nil {
					if _, isEng := err.(jsx.EngineError); isEng {
						return fw.Result{Verdict: fw.Inconclusive, Key: "engine-failure", Msg: err.Error()}
					}
					return fw.Result{Verdict: fw.Violated, Key: "js-does-not-load:bundle", Case: map[string]interface{}{"files": files, "js": js[file]},
						Msg: fmt.Sprintf("the generated JavaScript for %s (messages=%v) does not load: %v", file, withMsgs, fw.Trim(err.Error(), 300))}
				}
				for _, t := range reg.Templates {
					v, _, err := e.Eval("typeof " + t.Node.Name)
					if err != nil || v != "function" {
						return fw.Result{Verdict: fw.Violated, Key: "js-function-missing", Case: files, Msg: fmt.Sprintf("typeof %s = %q (%v)", t.Node.Name, v, err)}
					}
					ctx.Obs("functions_defined", 1)
				}
				o.Formatter = &soyjs.ES6Formatter{}
				js6, err := genJS(reg, o)
				if err != nil {
					return fw.Result{Verdict: fw.Violated, Key: "js-generation-fails:es6:bundle", Case: files, Msg: errText(err)}
				}
				for name, code := range js6 {
					if err := e.ParseModule(code); err != nil {
						return fw.Result{Verdict: fw.Violated, Key: "es6-does-not-parse:bundle", Case: map[string]interface{}{"files": files, "js": code}, Msg: name + ": " + fw.Trim(err.Error(), 300)}
					}
				}
				for _, t := range reg.Templates {
					exp := "export function " + soyjs.ES6Identifier(t.Node.Name) + "("
					found := false
					for _, code := range js6 {
						if strings.Contains(code, exp) {
							found = true
						}
					}
					if !found {
						return fw.Result{Verdict: fw.Violated, Key: "es6-export-missing", Case: files, Msg: "no " + exp}
					}
				}
				ctx.Obs("bundles_wellformed", 1)
			}
			return fw.Result{Verdict: fw.Held}
		},
		Floors: func(obs map[string]int64, cells map[string]bool, tier string) []string {
			var why []string
			for _, s := range c14Sites {
				if !cells["site:"+s] {
					why = append(why, "emission site never hit: "+s)
				}
			}
			if obs["bundles_wellformed"] == 0 || obs["literals_preserved"] == 0 {
				why = append(why, "engine parsed nothing")
			}
			if !cells["reserved-word-names"] {
				why = append(why, "reserved-word names never generated")
			}
			return why
		},
		Assumptions: []string{"JavaScript semantics: node v20 (vm contexts, SourceTextModule for ES6 syntax) when installed, else otto with ES6 checked after stripping import/export keywords", "literals that are not valid UTF-8 cannot appear in source text and are skipped"},
	})
}
