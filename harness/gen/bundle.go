package gen

import (
	"fmt"
	"strings"

	"verif/ref"
)

func attrSafe(e ref.Expr) bool {
	s := ref.Src(e, ref.PrintStyle{})
	return !strings.ContainsAny(s, "\"\\\n\r")
}

// call generates a call to a template generated earlier (higher index).
func (g *G) call(depth int) ref.Node {
	return g.callOpt(depth, true)
}

// callOpt: content params are only generated when allowContent (not inside messages,
// where the parser refuses control flow even inside a param block).
func (g *G) callOpt(depth int, allowContent bool) ref.Node {
	cur := g.tmpls
	if len(cur) == 0 {
		return nil
	}
	callee := cur[g.R.Intn(len(cur))]
	n := &ref.CallT{Target: callee.fq}
	// how the name is written
	switch {
	case callee.file == g.curFile && g.R.P(3, 4):
		n.NameSrc = "." + callee.t.Name
	default:
		n.NameSrc = callee.fq
		ns := callee.file.Namespace
		if dot := strings.LastIndex(ns, "."); dot >= 0 && g.R.Bool() {
			// alias form: {alias a.b.c} ... {call c.name}
			has := false
			for _, a := range g.curFile.Aliases {
				if a == ns {
					has = true
				}
			}
			if !has {
				g.curFile.Aliases = append(g.curFile.Aliases, ns)
			}
			n.NameSrc = ns[dot+1:] + "." + callee.t.Name
		}
	}
	mode := g.R.Intn(4) // 0,1 none  2 all  3 expr
	viaAll := map[string]bool{}
	if mode == 2 {
		n.DataAll = true
		for _, b := range g.scope {
			if b.kind == "param" && !b.optional {
				for _, p := range callee.t.Params {
					if p.Name == b.name {
						viaAll[p.Name] = true
						b.used = true
					}
				}
			}
		}
		// optional caller params the callee declares are forwarded too (and count as used)
		for _, b := range g.scope {
			if b.kind == "param" && b.optional {
				for _, p := range callee.t.Params {
					if p.Name == b.name {
						b.used = true
					}
				}
			}
		}
	}
	viaData := map[string]bool{}
	forceOverride := false
	if mode == 3 {
		// when the callee needs nothing beyond what a visible map variable carries, pass (a view of) that variable:
		// data="$m", data="augmentMap($m, [:])", data="augmentMap([:], $m)", data="augmentMap($m, ['a': ...])"
		if ms := g.refsOf(TMapAS); len(ms) > 0 && g.R.P(1, 2) {
			fits := true
			for _, p := range callee.t.Params {
				if !p.Optional && p.Name != "a" && p.Name != "s" {
					fits = false
				}
			}
			if fits {
				mv := g.chooseRef(ms)
				var de ref.Expr = mv
				switch g.R.Intn(4) {
				case 1:
					de = &ref.Call{Fn: "augmentMap", Args: []ref.Expr{mv, &ref.MapLit{}}}
				case 2:
					de = &ref.Call{Fn: "augmentMap", Args: []ref.Expr{&ref.MapLit{}, mv}}
				case 3:
					de = &ref.Call{Fn: "augmentMap", Args: []ref.Expr{mv, &ref.MapLit{Keys: []string{"a"}, Vals: []ref.Expr{lit(ref.Int(int64(g.R.Intn(9))))}}}}
				}
				if attrSafe(de) {
					n.Data = de
					viaData = map[string]bool{"a": true, "s": true}
					forceOverride = g.R.Bool() // explicit params on top of passed data go into a frame of their own
				}
			}
		}
	}
	if mode == 3 && n.Data == nil {
		saved := make([]bool, len(g.scope))
		for i, b := range g.scope {
			saved[i] = b.used
		}
		m := &ref.MapLit{}
		for _, p := range callee.t.Params {
			if !p.Optional || g.R.Bool() {
				m.Keys = append(m.Keys, p.Name)
				m.Vals = append(m.Vals, g.Expr(poolTy(p.Name), 1))
				viaData[p.Name] = true
			}
		}
		if attrSafe(m) && len(m.Keys) > 0 {
			n.Data = m
		} else {
			// discarded: the uses made inside it are discarded too
			viaData = map[string]bool{}
			for i, b := range g.scope {
				b.used = saved[i]
			}
		}
	}
	for _, p := range callee.t.Params {
		need := !p.Optional && !viaAll[p.Name] && !viaData[p.Name]
		extra := g.R.P(1, 4) || (forceOverride && (p.Name == "a" || p.Name == "s")) // override / pass an optional one
		if !need && !extra {
			continue
		}
		t := poolTy(p.Name)
		pr := ref.Param{Name: p.Name}
		if t.K == "str" && g.R.P(1, 3) && allowContent {
			pr.IsContent = true
			pr.Content = g.Block(depth-1, 2)
			pr.AttrSyntax = g.R.P(1, 3)
		} else {
			pr.E = g.Expr(t, 1)
			pr.AttrSyntax = g.R.P(1, 4) && attrSafe(pr.E)
		}
		n.Params = append(n.Params, pr)
	}
	if len(n.Params) == 0 {
		n.SelfClose = g.R.P(3, 4)
	}
	return n
}

var msgTexts = []string{"Hello", "world", "You have", "items", "Click", "here", "!", ",", "and", "from"}
var msgTags = []string{"<b>", "</b>", "<br/>", "<a href=\"http://x/y\">", "</a>", "<i>", "</i>", "<span class=\"c\">", "</span>", "<my-button kind=\"ok\">", "</my-button>", "<o:p>", "</o:p>"}

func (g *G) msgParts(depth int, allowCall bool) []ref.Node {
	var out []ref.Node
	n := 1 + g.R.Intn(4)
	for i := 0; i < n; i++ {
		switch g.R.Intn(6) {
		case 0, 1:
			txt := g.pick(msgTexts)
			if !g.O.NoSpecials && g.R.P(1, 3) {
				txt += " " + g.pick(msgTags) + g.pick(msgTexts)
			}
			if i > 0 {
				txt = " " + txt
			}
			if i < n-1 {
				txt += " "
			}
			out = append(out, &ref.Raw{Text: txt})
		case 2, 3, 4:
			t := []Ty{TStr, TInt}[g.R.Intn(2)]
			refs := g.refsOf(t)
			if len(refs) == 0 {
				out = append(out, &ref.Raw{Text: g.pick(msgTexts)})
				continue
			}
			pr := &ref.Print{E: g.chooseRef(refs)}
			switch g.R.Intn(14) {
			case 0:
				// literal braces right around a placeholder
				out = append(out, &ref.Special{Name: "lb"}, pr, &ref.Special{Name: "rb"})
			case 1:
				out = append(out, &ref.Special{Name: "lb"}, &ref.Raw{Text: "ID_"}, pr, &ref.Special{Name: "rb"})
			default:
				out = append(out, pr)
			}
		case 5:
			if allowCall {
				if c := g.callOpt(depth, false); c != nil {
					out = append(out, c)
					continue
				}
			}
			out = append(out, &ref.Raw{Text: g.pick(msgTexts)})
		}
	}
	// adjacent raw nodes would merge in the real parser: merge them here too
	var merged []ref.Node
	for _, n := range out {
		if r, ok := n.(*ref.Raw); ok && len(merged) > 0 {
			if p, ok := merged[len(merged)-1].(*ref.Raw); ok {
				p.Text += r.Text
				continue
			}
		}
		merged = append(merged, n)
	}
	return merged
}

func (g *G) msg(depth int) ref.Node {
	m := &ref.Msg{Desc: g.pick([]string{"a description", "d", "Says hello"})}
	if g.R.P(1, 4) {
		m.Meaning = g.pick([]string{"verb", "noun"})
	}
	ints := g.refsOf(TInt)
	if g.R.P(1, 3) && len(ints) > 0 {
		p := &ref.Plural{E: g.chooseRef(ints)}
		used := map[int]bool{}
		for i := 0; i < 1+g.R.Intn(2); i++ {
			k := g.R.Intn(3)
			if used[k] {
				continue
			}
			used[k] = true
			p.Cases = append(p.Cases, ref.PluralCase{N: k, Body: g.msgParts(depth, false)})
		}
		p.Default = g.msgParts(depth, false)
		m.Body = []ref.Node{p}
		return m
	}
	m.Body = g.msgParts(depth, true)
	return m
}

// Program is a generated bundle with an entry point and matching data.
type Program struct {
	B     *ref.Bundle
	Entry string
	Data  map[string]ref.Value
	IJ    *ref.Value
}

// (some names repeat a segment, or hold a segment that is a prefix of another)
var namespaces = []string{"ns0", "pkg.ns1", "a.b.c2", "x.y3", "x.app.views.app", "a.b.a.b", "example.ex", "n"}

// Bundle generates a valid bundle: nFiles files, nTmpl templates in total;
// template i may call templates with a higher index. Entry is template 0.
func (g *G) Bundle(nFiles, nTmpl int) *Program {
	b := &ref.Bundle{Globals: map[string]ref.Value{}}
	g.bundle = b
	g.tmpls = nil
	nextID := 100
	if g.O.Globals {
		b.Globals["GLOBAL_INT"] = ref.Int(7)
		b.Globals["app.NAME"] = ref.Str("soy<app>")
		b.Globals["app.RATIO"] = ref.Float(0.5)
		b.Globals["FLAG"] = ref.Bool(true)
		b.GlobalOrder = []string{"GLOBAL_INT", "app.NAME", "app.RATIO", "FLAG"}
	}
	var ij *ref.Value
	if g.O.IJ {
		g.IJTy = []Field{{"user", TStr}, {"count", TInt}, {"nums", TList(TInt)}, {"names", TList(TStr)}}
		v := ref.Value{K: ref.KMap, ID: 99, M: map[string]ref.Value{}}
		v.Set("user", g.Data(TStr, &nextID))
		v.Set("count", g.Data(TInt, &nextID))
		nums := ref.Value{K: ref.KList, ID: 97}
		names := ref.Value{K: ref.KList, ID: 98}
		for k := 0; k < 4; k++ {
			nums.L = append(nums.L, ref.Int(int64(10*k+g.R.Intn(10))))
			names.L = append(names.L, ref.Str(fmt.Sprintf("n%d", k)))
		}
		v.Set("nums", nums)
		v.Set("names", names)
		ij = &v
	}
	nsPerm := g.R.Perm(len(namespaces))
	for i := 0; i < nFiles; i++ {
		f := &ref.File{Name: fmt.Sprintf("file%d.soy", i), Namespace: namespaces[nsPerm[i%len(namespaces)]]}
		if i > 0 && g.R.P(1, 4) {
			// two files of one namespace, each with its own namespace attributes
			f.Namespace = b.Files[i-1].Namespace
		}
		if g.O.Autoescape {
			f.Autoescape = g.pick([]string{"", "", "true", "false", "contextual", "deprecated-contextual"})
		}
		b.Files = append(b.Files, f)
	}
	// assign templates to files round-robin; generate from the last to the first
	type slot struct {
		f *ref.File
		t *ref.Template
	}
	slots := make([]slot, nTmpl)
	for i := 0; i < nTmpl; i++ {
		f := b.Files[i%nFiles]
		t := &ref.Template{Name: fmt.Sprintf("t%d", i)}
		f.Templates = append(f.Templates, t)
		slots[i] = slot{f, t}
	}
	g.recTarget = ""
	if g.O.Recursion {
		// {template .rec}: counts down, calls itself with n - 1 (two call forms), prints on the way down and up
		f := b.Files[len(b.Files)-1]
		rec := &ref.Template{Name: "rec", Params: []ref.ParamDecl{{Name: "n"}}}
		n := &ref.DataRef{Name: "n"}
		dec := &ref.Binary{Op: "-", L: n, R: lit(ref.Int(1))}
		inner := &ref.CallT{Target: f.Namespace + ".rec", NameSrc: ".rec", Params: []ref.Param{{Name: "n", E: dec}}}
		if g.R.Bool() {
			inner = &ref.CallT{Target: f.Namespace + ".rec", NameSrc: ".rec", Data: &ref.MapLit{Keys: []string{"n"}, Vals: []ref.Expr{dec}}, SelfClose: true}
		}
		// (the depth is bounded by the data AND by the template itself, so that hostile data cannot make it run away)
		rec.Body = []ref.Node{&ref.If{Conds: []ref.Expr{&ref.Binary{Op: "and", L: &ref.Binary{Op: ">", L: n, R: lit(ref.Int(0))}, R: &ref.Binary{Op: "<", L: n, R: lit(ref.Int(9))}}},
			Bodies:  [][]ref.Node{{&ref.Raw{Text: "("}, &ref.Print{E: n}, &ref.LetVal{Name: "up", E: &ref.Binary{Op: "*", L: n, R: lit(ref.Int(2))}}, inner, &ref.Print{E: &ref.DataRef{Name: "up"}}, &ref.Raw{Text: ")"}}},
			HasElse: true, Else: []ref.Node{&ref.Raw{Text: "."}}}}
		f.Templates = append(f.Templates, rec)
		g.recTarget = f.Namespace + ".rec"
	}
	for i := nTmpl - 1; i >= 0; i-- {
		f, t := slots[i].f, slots[i].t
		g.curFile = f
		g.scope, g.loops, g.marks, g.echo = nil, nil, nil, nil
		if g.O.Autoescape {
			t.Autoescape = g.pick([]string{"", "", "", "true", "false", "contextual", "deprecated-contextual"})
		}
		t.HeaderStyle = g.R.P(1, 3)
		t.Private = g.R.P(1, 8) && i > 0
		np := g.R.Intn(4)
		if i == 0 && np == 0 {
			np = 2
		}
		perm := g.R.Perm(len(ParamPool))
		if i > 0 && g.R.P(1, 4) {
			// a "record-like" callee: it takes (some of) the fields a map variable carries, so that callers can
			// pass data="$m" or a view of it
			idx := map[string]int{}
			for k, pp := range ParamPool {
				idx[pp.Name] = k
			}
			perm = []int{idx["a"], idx["s"]}
			if g.R.Bool() {
				perm = []int{idx["s"], idx["a"]}
			}
			np = 1 + g.R.Intn(2)
		}
		for k := 0; k < np; k++ {
			p := ParamPool[perm[k]]
			opt := (p.Ty.K == "int" || p.Ty.K == "str") && g.R.P(1, 4)
			pd := ref.ParamDecl{Name: p.Name, Optional: opt}
			if t.HeaderStyle && g.R.P(1, 2) {
				pd.TypeSrc = g.pick([]string{"any", "string", "int", "bool", "float", "list<string>", "map<string, int>", "[age: int, name: string]", "?"})
				if g.R.P(1, 2) {
					pd.DefaultSrc = g.pick([]string{"5", "'d'", "true", "[1, 2]", "null", "['k': 1]", "-1"})
				}
			}
			t.Params = append(t.Params, pd)
			g.push(&binding{name: p.Name, ty: p.Ty, kind: "param", optional: opt})
		}
		t.NoDoc = len(t.Params) == 0 && g.R.P(1, 3)
		nparams := len(g.scope)
		body := g.Block(g.O.MaxDepth, 4)
		// every declared param must be used
		g.scope = g.scope[:nparams]
		for _, bd := range g.scope {
			if !bd.used || bd.force {
				body = append(body, g.useOf(bd))
			}
		}
		t.Body = mergeRaw(body)
		g.tmpls = append(g.tmpls, &tmplInfo{file: f, t: t, fq: f.FQ(t), idx: i})
	}
	// Block() pops to its mark, which is after the params: reset
	g.scope = nil
	entry := slots[0]
	prog := &Program{B: b, Entry: entry.f.FQ(entry.t), Data: map[string]ref.Value{}, IJ: ij}
	for _, p := range entry.t.Params {
		if p.Optional && g.R.Bool() {
			continue
		}
		v := g.Data(poolTy(p.Name), &nextID)
		if p.Name == "e" && g.R.Bool() {
			v.L = nil
		}
		prog.Data[p.Name] = v
	}
	return prog
}

// mergeRaw merges adjacent raw text nodes (the real parser sees one text run).
func mergeRaw(ns []ref.Node) []ref.Node {
	var out []ref.Node
	for _, n := range ns {
		if r, ok := n.(*ref.Raw); ok && len(out) > 0 {
			if p, ok := out[len(out)-1].(*ref.Raw); ok {
				out[len(out)-1] = &ref.Raw{Text: p.Text + " " + r.Text}
				continue
			}
		}
		out = append(out, n)
	}
	return out
}

// NewData draws a fresh data map for the program's entry template.
func (g *G) NewData(p *Program) map[string]ref.Value {
	_, t := p.B.Find(p.Entry)
	nextID := 1000 + g.R.Intn(1000)
	out := map[string]ref.Value{}
	for _, pd := range t.Params {
		if pd.Optional && g.R.Bool() {
			continue
		}
		v := g.Data(poolTy(pd.Name), &nextID)
		if pd.Name == "e" && g.R.Bool() {
			v.L = nil
		}
		out[pd.Name] = v
	}
	return out
}
