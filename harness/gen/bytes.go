package gen

import (
	"os"
	"path/filepath"
	"sort"
	"strings"

	"verif/fw"
)

// RepoDir is the tree under test (for reading its testdata).
func RepoDir() string {
	if d := os.Getenv("VERIF_REPO"); d != "" {
		return d
	}
	return "/repo"
}

// Corpus returns the valid Soy files used as seeds: the repository's own
// testdata plus the harness's corpus.
func Corpus() []string {
	var out []string
	files, _ := filepath.Glob(filepath.Join(RepoDir(), "testdata", "*.soy"))
	sort.Strings(files)
	for _, f := range files {
		b, err := os.ReadFile(f)
		if err == nil {
			out = append(out, string(b))
		}
	}
	out = append(out, HandCorpus...)
	return out
}

// HandCorpus are small valid files exercising every command and expression form.
var HandCorpus = []string{
	`{namespace a.b}

/**
 * Doc.
 * @param x The x.
 * @param? y
 */
{template .t}
  {@param z: int}
  {let $a: $x + 1 /}{let $b}body{$a}{/let}
  {if $x > 1 and not $y}A{elseif $x == 'q'}B{else}C{/if}
  {switch $x}{case 1, 2}one{case 'a'}a{default}d{/switch}
  {foreach $i in $x.list}{$i}{if not isLast($i)},{/if}{ifempty}none{/foreach}
  {for $j in range(1, 10, 2)}{$j}{/for}
  {call .u data="all"}{param p: $b /}{param q}content{/param}{/call}
  {call a.b.u data="$x.m" /}
  {msg desc="d" meaning="m"}Hello <b>{$x}</b>{call .u data="all"/}{/msg}
  {msg desc="p"}{plural $x.n}{case 0}none{case 1}one{default}{$x.n} many{/plural}{/msg}
  {css base}{css $x, suffix}{literal}{ } {/literal}{sp}{nil}{\n}{\r}{\t}{lb}{rb}
  {log}logged {$x}{/log}{debugger}
  {print $x |escapeHtml|truncate:5,true}{$x?.a?[0]?.1 ?: 'd'}{$y ? 'a' : 'b'}
  {[1, 2.5, 'a', null, true, [:], ['k': 1e3, 'l': 0x1F]][0]}{-$x}{not $y}{$ij.foo}{GLOBAL.name}
  {{ $x }} {{call .u /}} // comment
  /* block */ text http://x.y/z
{/template}

/** */
{template .u autoescape="false" private="true"}
  {@param? p: string}
  {@param? q: ?}
  {$p}{$q}
{/template}
`,
	`{namespace ns autoescape="contextual"}
{alias a.b}
{alias x.y.zed}
/** @param l */
{template .main autoescape="true" kind="html"}
{foreach $x in $l}{index($x)}{isFirst($x)}{call b.u}{param key="p" value="$x"/}{param key="q" kind="text"}c{/param}{/call}{/foreach}
{let $k kind="text"}v{/let}{$k|noAutoescape}{'a\'b\\c\né' + "dq"}
{round(1.5)}{floor(2)}{ceiling(2.1)}{min(1,2)}{max(1,2)}{length($l)}{keys(['a':1])}{augmentMap(['a':1],['b':2]).a}{strContains('ab','a')}{randomInt(3)}{isNonnull($l)}{hasData()}
{/template}
`,
}

// Tags is the dictionary used to build hostile inputs: every command in a
// minimal valid form, truncated forms, closing tags, special characters,
// soydoc pieces, comments, double-brace forms.
var Tags = []string{
	"{namespace a.b}", "{namespace a autoescape=\"false\"}", "{namespace", "{namespace a.b",
	"{template .t}", "{template .t autoescape=\"contextual\" private=\"true\"}", "{template", "{template .t", "{/template}", "{/template",
	"/** */", "/**", "/** @param x */", "/** @param? y */", "/**\n * @param ", "/** @param", "/** @param?", "*/", " * @param z\n",
	"{@param x: int}", "{@param? y: list<string>}", "{@param x: map<int,string> = ['a': 1]}", "{@param", "{@param x", "{@param x:", "{@param x: ", "{@param x: int =", "{@param? ",
	"{$x}", "{$x", "{print $x}", "{print", "{print $x|", "{$x|truncate:", "{$x|truncate:5}", "{$x|id}", "{$x.a?.b[0]?[1].2}", "{$x[", "{$x?.", "{'s'}", "{'s", "{\"d\"}", "{1 + }", "{(1)}", "{-1}", "{not true}", "{f(", "{f(1,", "{f()}", "{[1,", "{['a':", "{[:]}", "{$x ? 1 :", "{$x ?: }", "{0x1F}", "{1e5}", "{1.}", "{GLOB.al}",
	"{if $x}", "{if", "{if $x", "{elseif $y}", "{elseif", "{else}", "{else", "{/if}", "{/if",
	"{switch $x}", "{switch", "{switch $x", "{case 1}", "{case 1, 'a'}", "{case", "{case 1,", "{default}", "{default", "{/switch}", "{/switch",
	"{foreach $i in $l}", "{foreach", "{foreach $i", "{foreach $i in", "{ifempty}", "{ifempty", "{/foreach}", "{/foreach",
	"{for $i in range(3)}", "{for $i in range(", "{for", "{/for}",
	"{let $a: 1/}", "{let $a: 1}", "{let $a}", "{let $a kind=\"text\"}", "{let", "{let $a", "{let $a:", "{/let}", "{/let",
	"{call .t/}", "{call .t}", "{call a.b.t data=\"all\"/}", "{call .t data=\"$x\"}", "{call name=\".t\"/}", "{call", "{call .t", "{call .t data=", "{call .t data=\"", "{/call}", "{/call",
	"{param a: 1/}", "{param a}", "{param key=\"a\" value=\"1\"/}", "{param key=\"a\"}", "{param", "{param a", "{param a:", "{/param}", "{/param",
	"{msg desc=\"d\"}", "{msg desc=\"d\" meaning=\"m\"}", "{msg}", "{msg", "{msg desc=", "{/msg}", "{/msg",
	"{plural $n}", "{plural", "{plural $n", "{/plural}", "{/plural",
	"{css a}", "{css $x, a}", "{css", "{css a", "{css $x,", "{{css a}}", "{{css a}",
	"{literal}", "{literal", "{literal }", "{/literal}", "{{literal}}", "{{/literal}}",
	"{log}", "{/log}", "{log", "{debugger}", "{debugger",
	"{sp}", "{nil}", "{\\n}", "{\\r}", "{\\t}", "{lb}", "{rb}", "{\\x}", "{sp",
	"{alias a.b}", "{alias", "{alias a.", "{delcall a}", "{deltemplate a}", "{delpackage a}", "{/xyz}", "{xyz}", "{/}",
	"{{", "}}", "{", "}", "{{$x}}", "{{$x}", "{{ '}' }}", "/}", "{}", "{ }",
	"// c\n", " // c", "//", "/* c */", "/*", "/* c", "http://x", "a//b",
	"text", " ", "\n", "\t", "<b>", "</b>", "<br/>", "\x00", "\xff\xfe", "é", "😀", "'", "\"", "|", ":", ",", "=", "@", "$", ".", "?", "\\",
}

// BlockContexts wrap a hostile fragment at file level, template level and
// inside each block kind. %s is replaced by the fragment.
var BlockContexts = []string{
	"%s",
	"{namespace n}\n%s",
	"{namespace n}\n/** @param x */\n{template .t}\n%s\n{/template}\n",
	"{namespace n}\n{template .t}\n%s",
	"{namespace n}\n{template .t}{if $x}%s{/if}{/template}",
	"{namespace n}\n{template .t}{if $x}a{else}%s{/if}{/template}",
	"{namespace n}\n{template .t}{switch $x}{case 1}%s{/switch}{/template}",
	"{namespace n}\n{template .t}{switch $x}%s{/switch}{/template}",
	"{namespace n}\n{template .t}{foreach $i in $x}%s{/foreach}{/template}",
	"{namespace n}\n{template .t}{foreach $i in $x}a{ifempty}%s{/foreach}{/template}",
	"{namespace n}\n{template .t}{for $i in range(3)}%s{/for}{/template}",
	"{namespace n}\n{template .t}{let $a}%s{/let}{/template}",
	"{namespace n}\n{template .t}{call .t}%s{/call}{/template}",
	"{namespace n}\n{template .t}{call .t}{param a}%s{/param}{/call}{/template}",
	"{namespace n}\n{template .t}{msg desc=\"d\"}%s{/msg}{/template}",
	"{namespace n}\n{template .t}{msg desc=\"d\"}{plural $x}{case 1}%s{default}d{/plural}{/msg}{/template}",
	"{namespace n}\n{template .t}{msg desc=\"d\"}{plural $x}%s{/plural}{/msg}{/template}",
	"{namespace n}\n{template .t}{log}%s{/log}{/template}",
	"{namespace n}\n{template .t}{literal}%s{/literal}{/template}",
	"{namespace n}\n/** %s */\n{template .t}{/template}",
	"{namespace n}\n{template .t}{call .t data=\"%s\"/}{/template}",
	"{namespace n}\n{template .t}{call .t}{param key=\"a\" value=\"%s\"/}{/call}{/template}",
	"{namespace n}\n{template .t}{css %s, x}{/template}",
}

// ExprTokens is the dictionary for hostile standalone expressions.
var ExprTokens = []string{
	"1", "0", "-1", "2.5", "1e3", "0x1F", "0x", "1.", "01", "'a'", "'", "'a\\'", "'\\u00e9'", "'\\u00", "'\\q'", "\"d\"", "\"",
	"null", "true", "false", "$a", "$ij.b", "$", ".b", "?.b", ".0", "?.0", "[", "]", "?[", "[:]", "[1,2]", "['a':1]",
	"+", "-", "*", "/", "%", "<", ">", "<=", ">=", "==", "!=", "and", "or", "not", "?", ":", "?:", "(", ")", ",", "|", "=", "!", "&", "=>",
	"f(", "f()", "f(1,2)", "length($a)", "G.x", "g", "}", "{", "/}", "@", "#", " ", "\n", "\x00", "\xff", "é", "😀", "in", "if",
	"\"\u3053\u308c\u306f\u4e8c\u91cd\u5f15\u7528\u7b26\u3067\u56f2\u307e\u308c\u305f\u6587\u5b57\u5217\u3067\u3059\"", "'\\q\u4e2d\u6587\u4e2d\u6587\u4e2d\u6587\u4e2d\u6587\u4e2d\u6587\u4e2d\u6587\u4e2d\u6587\u4e2d\u6587'", "'\U0001F600\U0001F600\U0001F600\U0001F600\U0001F600\U0001F600\U0001F600\U0001F600\U0001F600\U0001F600\U0001F600\\z'",
	"\uff15", "\u0663", "\u0967", "-\uff15", "+\uff15", "+5", "+", "-\u0663", "\u00b2", "x\uff11", "$\uff41", "\u212a",
	".", "..", "$a.", "$a..b", "$.", "$ij.", "$ij", "$a.b.", "?.", "$a.0.", "$a?.", "$a[", "$a.b.c.d.e.f",
}

// ExprCorpus are valid expressions (seeds for prefixes and token edits).
var ExprCorpus = []string{
	"1 + 2 * 3 - 4 / 5 % 6", "$a.b?.c[0]?[$d].1 ?: 'x'", "$a ? $b : $c ? 1 : 2", "not $a and $b or $c == 'q'",
	"['a': 1, 'b': [1, 2, [:]], 'c': f(1, $x)]", "-(1 + 2) * -$x", "'a\\'b\\\\c\\n\\r\\t\\b\\f\\u00e9' + \"dq\"",
	"round($a / 2.5e-3, 2) >= max(1, 0x1F)", "$ij.foo.bar != null", "(($a))", "a.b.c + d", "length($l) <= 3 ? 'short' : 'long'",
	"1 2 3", "$a $b", "'x' 1",
}

// SplitTokens cuts source text into coarse tokens: tags, words, whitespace runs, other runes.
func SplitTokens(s string) []string {
	var out []string
	i := 0
	for i < len(s) {
		c := s[i]
		j := i + 1
		switch {
		case c == '{':
			for j < len(s) && s[j] != '}' && s[j] != '{' {
				j++
			}
			if j < len(s) && s[j] == '}' {
				j++
			}
		case c == ' ' || c == '\n' || c == '\t' || c == '\r':
			for j < len(s) && (s[j] == ' ' || s[j] == '\n' || s[j] == '\t' || s[j] == '\r') {
				j++
			}
		case isWord(c):
			for j < len(s) && isWord(s[j]) {
				j++
			}
		}
		out = append(out, s[i:j])
		i = j
	}
	return out
}

// SplitExprTokens cuts inside tags as well.
func SplitExprTokens(s string) []string {
	var out []string
	i := 0
	for i < len(s) {
		c := s[i]
		j := i + 1
		switch {
		case c == '\'' || c == '"':
			for j < len(s) && s[j] != c {
				if s[j] == '\\' {
					j++
				}
				j++
			}
			if j < len(s) {
				j++
			}
			if j > len(s) {
				j = len(s)
			}
		case c == ' ' || c == '\n':
			for j < len(s) && (s[j] == ' ' || s[j] == '\n') {
				j++
			}
		case isWord(c) || c == '$':
			for j < len(s) && isWord(s[j]) {
				j++
			}
		}
		out = append(out, s[i:j])
		i = j
	}
	return out
}

func isWord(c byte) bool {
	return c == '_' || c >= '0' && c <= '9' || c >= 'a' && c <= 'z' || c >= 'A' && c <= 'Z' || c >= 0x80
}

// TokenEdit applies one random deletion, duplication or swap of tokens.
func TokenEdit(r *fw.Rand, toks []string) string {
	if len(toks) < 2 {
		return strings.Join(toks, "")
	}
	t := append([]string{}, toks...)
	nEdits := 1 + r.Intn(3)
	for e := 0; e < nEdits; e++ {
		i := r.Intn(len(t))
		switch r.Intn(4) {
		case 0: // delete
			t = append(t[:i], t[i+1:]...)
		case 1: // duplicate
			t = append(t[:i+1], t[i:]...)
		case 2: // swap with neighbour
			if i+1 < len(t) {
				t[i], t[i+1] = t[i+1], t[i]
			}
		case 3: // swap with a distant token
			j := r.Intn(len(t))
			t[i], t[j] = t[j], t[i]
		}
		if len(t) < 2 {
			break
		}
	}
	return strings.Join(t, "")
}

// RandomBytes yields hostile byte strings: random bytes incl. invalid UTF-8,
// NUL, lone braces, mixed with dictionary entries.
func RandomBytes(r *fw.Rand, maxLen int) string {
	n := r.Intn(maxLen + 1)
	var b strings.Builder
	for b.Len() < n {
		switch r.Intn(6) {
		case 0:
			b.WriteString(Tags[r.Intn(len(Tags))])
		case 1:
			b.WriteString(ExprTokens[r.Intn(len(ExprTokens))])
		case 2:
			const punct = "{}/*$.'\"\\|:,=@?[]()<>- \n\t"
			b.WriteByte(punct[r.Intn(len(punct))])
		default:
			b.WriteByte(byte(r.Intn(256)))
		}
	}
	return b.String()
}
