// Package gen holds the seeded generators: expressions, data, template bundles.
package gen

import (
	"fmt"
	"math"
	"math/big"
	"strconv"
	"strings"

	"verif/fw"
	"verif/ref"
)

// Ty is a generator-side type, used to build well-typed programs.
type Ty struct {
	K      string // int float str bool list map
	Elem   *Ty
	Fields []Field
}
type Field struct {
	Name string
	Ty   Ty
}

var (
	TInt   = Ty{K: "int"}
	TFloat = Ty{K: "float"}
	TStr   = Ty{K: "str"}
	TBool  = Ty{K: "bool"}
	TMapAS = Ty{K: "map", Fields: []Field{{"a", TInt}, {"s", TStr}}}
)

func TList(e Ty) Ty { return Ty{K: "list", Elem: &e} }

// ParamPool fixes a type per param name, so that data="all" forwards compatible values.
var ParamPool = []Field{
	{"a", TInt}, {"b", TInt}, {"n", TInt}, {"f", TFloat}, {"s", TStr}, {"t", TStr}, {"c", TBool},
	{"l", TList(TInt)}, {"ls", TList(TStr)}, {"m", TMapAS}, {"lm", TList(TMapAS)}, {"e", TList(TInt)}, // e may be empty
	// names a renderer might use for its own book-keeping of the loops over $i, $item, $k: they are ordinary names
	{"i__index", TInt}, {"item__lastIndex", TInt}, {"k__index", TStr}, {"j__index", TInt},
}

func poolTy(name string) Ty {
	for _, f := range ParamPool {
		if f.Name == name {
			return f.Ty
		}
	}
	panic("no pool type for " + name)
}

// Strings used for string data and literals.
var (
	PlainStrings   = []string{"foo", "bar", "Hello world", "x", "a b c", "42", "0", "", "snake_case", "CamelCase"}
	SpecialStrings = []string{"<b>", "a&b", "\"q\"", "it's", "<script>alert('x')</script>", "&amp;", "&lt;", "a<b>c&d\"e'f", ">", "&"}
	UnicodeStrings = []string{"héllo", "中文", "naïve café", "Ω≈ç", "日本語テキスト"}
	AstralStrings  = []string{"😀", "a😀b", "𝒳"}
	EscapeStrings  = []string{"a\nb", "tab\there", "back\\slash", "cr\rlf", "\b\f", "q'q",
		// characters outside ASCII before, between and after escapes (Latin-1, two-, three- and four-byte encodings)
		"\u00e9\tb", "caf\u00e9\n", "\n\u00e9", "\u4e2d\n\u6587", "\U0001F600\\x", "\u00fc'\u00e9\n", "\u00ff\t\u0100", "a\u00a0\nb",
		// a real backslash in front of text that looks like an escape (a decoder working in two passes decodes it twice)
		"\\u0041", "\\n", "a\\u2028b", "\\\\u00e9", "\\'", "\\t\\u0062", "\\x41"}
)

// Opts selects features of generated programs.
type Opts struct {
	MaxDepth     int
	Subset       bool // stay inside the Go/JS common subset (C04)
	NoSpecials   bool // template text free of & < > " '
	Msgs         bool
	Directives   bool // print directives (noAutoescape, id, escapeHtml, truncate)
	Autoescape   bool // vary autoescape attributes
	Astral       bool
	MarkupDirs   bool // also use changeNewlineToBr / insertWordBreaks
	NoWordBreaks bool // ... but not insertWordBreaks (which counts astral characters differently per backend)
	WideFloats   bool // float literals over the whole float64 range (printing only: C17)
	Recursion    bool // a recursive template bounded by a decreasing argument, called here and there
	ErrPlants    bool // plant erroring sub-expressions in positions short-circuit never evaluates
	LetShadow    bool
	Globals      bool
	IJ           bool
	AsciiData    bool
	Big          bool // sizes beyond what buffers, chunks, tables and counters are usually made for: text runs and strings of thousands of bytes, switches of a dozen cases (lists stay short: loops nest)
}

// bigUnits are repeated to make long text; none contains a line break, a brace or a comment opener.
var bigUnits = []string{"lorem ipsum ", "x", "добро пожаловать ", "中文 ", "é", "0123456789", "a<b>&c ", "word.word,word;word ", "😀 "}

func (g *G) bigText(special, astral bool) string {
	for {
		u := bigUnits[g.R.Intn(len(bigUnits))]
		if (!special && strings.ContainsAny(u, "<>&")) || (!astral && strings.Contains(u, "😀")) {
			continue
		}
		// lengths around the powers of two that buffers and chunks are made of, and in between
		n := []int{255, 256, 257, 1023, 1024, 1025, 2047, 2049, 4095, 4096, 4097, 5000, 8191, 8193, 12000}[g.R.Intn(15)] + g.R.Intn(3)
		var b strings.Builder
		b.WriteString([]string{"", "a", "ab", "abc"}[g.R.Intn(4)]) // (so that multi-byte characters sit at every alignment)
		for b.Len() < n {
			b.WriteString(u)
		}
		return b.String()
	}
}

type binding struct {
	name     string
	ty       Ty
	kind     string // param | let | loop
	optional bool
	used     bool
	force    bool // must get a use at its own block level (it is shadowed somewhere below)
}

// G is a generator instance.
type G struct {
	R         *fw.Rand
	O         Opts
	scope     []*binding
	loops     []string // loop variables in scope
	marks     []int    // scope length at the start of each open block
	echo      []echoExpr
	recTarget string
	nlet      int
	// for bundle generation
	bundle  *ref.Bundle
	tmpls   []*tmplInfo
	curFile *ref.File
	IJTy    []Field
}

type tmplInfo struct {
	file *ref.File
	t    *ref.Template
	fq   string
	idx  int
}

func (g *G) pick(ss []string) string { return ss[g.R.Intn(len(ss))] }

func (g *G) strPool() []string {
	p := append([]string{}, PlainStrings...)
	p = append(p, SpecialStrings...)
	if !g.O.AsciiData {
		p = append(p, UnicodeStrings...)
		if g.O.Astral {
			p = append(p, AstralStrings...)
		}
	}
	return p
}

// Data generates a value of the type.
func (g *G) Data(t Ty, nextID *int) ref.Value {
	switch t.K {
	case "int":
		switch g.R.Intn(12) {
		case 0:
			return ref.Int(ref.MaxSafe - 1)
		case 1:
			return ref.Int(-(ref.MaxSafe - 1))
		case 2:
			return ref.Int(0)
		}
		return ref.Int(int64(g.R.Intn(41) - 20))
	case "float":
		return ref.Float(float64(g.R.Intn(4001)-2000) / 8)
	case "str":
		if g.O.Big && g.R.P(1, 8) {
			return ref.Str(g.bigText(true, g.O.Astral && !g.O.AsciiData))
		}
		return ref.Str(g.pick(g.strPool()))
	case "bool":
		return ref.Bool(g.R.Bool())
	case "list":
		*nextID++
		v := ref.Value{K: ref.KList, ID: *nextID}
		n := 2 + g.R.Intn(3)
		// (no lists of hundreds of items here, not even under the Big option: loops nest, three loops over such a list
		// are tens of millions of steps, and the step budget would take the render for one that does not end. Long
		// loops have families of their own: C12 long-loop, C06 deep calls, C02's volume of text.)
		for i := 0; i < n; i++ {
			v.L = append(v.L, g.Data(*t.Elem, nextID))
		}
		return v
	case "map":
		*nextID++
		v := ref.Value{K: ref.KMap, ID: *nextID, M: map[string]ref.Value{}}
		for _, f := range t.Fields {
			v.Set(f.Name, g.Data(f.Ty, nextID))
		}
		return v
	}
	panic("Data: " + t.K)
}

// ---- scope helpers

func (g *G) push(b *binding) { g.scope = append(g.scope, b) }

// loopVars are the loop variables whose name still means the loop variable here (no let of that name hides it):
// index, isFirst and isLast apply to those only.
func (g *G) loopVars() []string {
	var out []string
	for _, l := range g.loops {
		for i := len(g.scope) - 1; i >= 0; i-- {
			if g.scope[i].name == l {
				if g.scope[i].kind == "loop" {
					out = append(out, l)
				}
				break
			}
		}
	}
	return out
}

func (g *G) visible() []*binding {
	seen := map[string]bool{}
	var out []*binding
	for i := len(g.scope) - 1; i >= 0; i-- {
		b := g.scope[i]
		if seen[b.name] {
			continue
		}
		seen[b.name] = true
		out = append(out, b)
	}
	return out
}

func sameTy(a, b Ty) bool {
	if a.K != b.K {
		return false
	}
	if a.K == "list" {
		return sameTy(*a.Elem, *b.Elem)
	}
	if a.K == "map" {
		if len(a.Fields) != len(b.Fields) {
			return false
		}
		for i := range a.Fields {
			if a.Fields[i].Name != b.Fields[i].Name || !sameTy(a.Fields[i].Ty, b.Fields[i].Ty) {
				return false
			}
		}
	}
	return true
}

// refsOf returns expressions over visible variables that have exactly type t
// (the variable itself, a field, an element). Optional params are excluded.
func (g *G) refsOf(t Ty) []ref.Expr {
	var out []ref.Expr
	for _, b := range g.visible() {
		if b.optional {
			continue
		}
		bb := b
		mark := func() { bb.used = true }
		_ = mark
		if sameTy(b.ty, t) {
			out = append(out, &usedRef{b, &ref.DataRef{Name: b.name}})
		}
		switch b.ty.K {
		case "map":
			for _, f := range b.ty.Fields {
				if sameTy(f.Ty, t) {
					out = append(out, &usedRef{b, &ref.DataRef{Name: b.name, Acc: []ref.Acc{g.keyAcc(f.Name)}}})
				}
			}
		case "list":
			if b.name != "e" && sameTy(*b.ty.Elem, t) {
				out = append(out, &usedRef{b, &ref.DataRef{Name: b.name, Acc: []ref.Acc{g.idxAcc(g.R.Intn(2))}}})
			}
			if b.name != "e" && b.ty.Elem.K == "map" {
				for _, f := range b.ty.Elem.Fields {
					if sameTy(f.Ty, t) {
						out = append(out, &usedRef{b, &ref.DataRef{Name: b.name, Acc: []ref.Acc{g.idxAcc(g.R.Intn(2)), g.keyAcc(f.Name)}}})
					}
				}
			}
		}
	}
	if g.O.IJ {
		for _, f := range g.IJTy {
			if sameTy(f.Ty, t) {
				out = append(out, &ref.DataRef{Name: "ij", Acc: []ref.Acc{g.keyAcc(f.Name)}})
			}
			// injected lists, indexed by a literal or - inside a loop - by an index that changes from one evaluation
			// of the same reference to the next
			if f.Ty.K == "list" && sameTy(*f.Ty.Elem, t) {
				acc := g.idxAcc(g.R.Intn(4))
				if lvs := g.loopVars(); len(lvs) > 0 && g.R.Bool() {
					lv := &ref.DataRef{Name: lvs[g.R.Intn(len(lvs))]}
					acc = ref.Acc{Kind: 2, Arg: &ref.Binary{Op: "%", L: &ref.Call{Fn: "index", Args: []ref.Expr{lv}}, R: lit(ref.Int(4))}}
				}
				out = append(out, &ref.DataRef{Name: "ij", Acc: []ref.Acc{g.keyAcc(f.Name), acc}})
			}
		}
	}
	return out
}

// usedRef defers marking a binding as used until the reference is actually chosen.
type usedRef struct {
	b *binding
	e *ref.DataRef
}

func (g *G) chooseRef(cands []ref.Expr) ref.Expr {
	c := cands[g.R.Intn(len(cands))]
	if u, ok := c.(*usedRef); ok {
		u.b.used = true
		return u.e
	}
	return c
}

func (g *G) keyAcc(k string) ref.Acc {
	switch g.R.Intn(6) {
	case 0:
		return ref.Acc{Kind: 2, Arg: &ref.Lit{V: ref.Str(k)}}
	case 1:
		return ref.Acc{Kind: 0, Key: k, NullSafe: true}
	}
	return ref.Acc{Kind: 0, Key: k}
}

func (g *G) idxAcc(i int) ref.Acc {
	switch g.R.Intn(6) {
	case 0:
		return ref.Acc{Kind: 1, Index: i}
	case 1:
		return ref.Acc{Kind: 2, Arg: &ref.Lit{V: ref.Int(int64(i))}, NullSafe: true}
	case 2:
		return ref.Acc{Kind: 1, Index: i, NullSafe: true}
	}
	return ref.Acc{Kind: 2, Arg: &ref.Lit{V: ref.Int(int64(i))}}
}

func lit(v ref.Value) ref.Expr { return &ref.Lit{V: v} }

func (g *G) maybeParen(e ref.Expr) ref.Expr {
	if g.R.P(1, 12) {
		return &ref.Paren{X: e}
	}
	return e
}

// Expr generates a well-typed expression of type t. Now and then it repeats an expression generated earlier
// in the same template (same source text, possibly a different scope: shadowing makes that interesting).
func (g *G) Expr(t Ty, depth int) ref.Expr {
	if len(g.echo) > 0 && g.R.P(1, 6) {
		c := g.echo[g.R.Intn(len(g.echo))]
		if sameTy(c.ty, t) && g.echoUsable(c) {
			for _, b := range g.visible() {
				if c.vars[b.name] {
					b.used = true
				}
			}
			return c.e
		}
	}
	e := g.maybeParen(g.expr(t, depth))
	if depth >= 1 && len(g.echo) < 40 {
		vars := map[string]bool{}
		exprVarsOf(e, vars)
		if len(vars) > 0 {
			tys := map[string]Ty{}
			ok := true
			for _, b := range g.visible() {
				if vars[b.name] {
					tys[b.name] = b.ty
					if b.optional {
						ok = false
					}
				}
			}
			if ok && len(tys) == len(vars) {
				g.echo = append(g.echo, echoExpr{e: e, ty: t, vars: vars, tys: tys, loops: append([]string{}, g.loops...)})
			}
		}
	}
	return e
}

type echoExpr struct {
	e     ref.Expr
	ty    Ty
	vars  map[string]bool
	tys   map[string]Ty
	loops []string
}

// echoUsable: every variable of the expression is visible here with the same type (and is not optional),
// and the loop functions it may contain refer to loops that are still open.
func (g *G) echoUsable(c echoExpr) bool {
	vis := map[string]*binding{}
	for _, b := range g.visible() {
		vis[b.name] = b
	}
	for name, ty := range c.tys {
		b, ok := vis[name]
		if !ok || b.optional || !sameTy(b.ty, ty) {
			return false
		}
	}
	if len(c.loops) > len(g.loops) {
		return false
	}
	open := map[string]bool{}
	for _, l := range g.loopVars() {
		open[l] = true
	}
	for i, l := range c.loops {
		if g.loops[i] != l || !open[l] {
			return false // (a let may hide a loop variable the expression applies a loop function to)
		}
	}
	return true
}

func exprVarsOf(e ref.Expr, into map[string]bool) {
	switch e := e.(type) {
	case *ref.Paren:
		exprVarsOf(e.X, into)
	case *ref.DataRef:
		if e.Name != "ij" {
			into[e.Name] = true
		}
		for _, a := range e.Acc {
			if a.Kind == 2 {
				exprVarsOf(a.Arg, into)
			}
		}
	case *ref.Unary:
		exprVarsOf(e.X, into)
	case *ref.Binary:
		exprVarsOf(e.L, into)
		exprVarsOf(e.R, into)
	case *ref.Tern:
		exprVarsOf(e.C, into)
		exprVarsOf(e.A, into)
		exprVarsOf(e.B, into)
	case *ref.Call:
		for _, a := range e.Args {
			exprVarsOf(a, into)
		}
	case *ref.ListLit:
		for _, a := range e.Items {
			exprVarsOf(a, into)
		}
	case *ref.MapLit:
		for _, a := range e.Vals {
			exprVarsOf(a, into)
		}
	}
}

func (g *G) expr(t Ty, depth int) ref.Expr {
	refs := g.refsOf(t)
	leaf := depth <= 0 || g.R.P(1, 4)
	if len(refs) > 0 && (leaf && g.R.P(2, 3) || g.R.P(1, 5)) {
		return g.chooseRef(refs)
	}
	switch t.K {
	case "int":
		if leaf {
			return g.intLit()
		}
		switch g.R.Intn(14) {
		case 0, 1:
			return &ref.Binary{Op: "+", L: g.Expr(TInt, depth-1), R: g.Expr(TInt, depth-1)}
		case 2:
			return &ref.Binary{Op: "-", L: g.Expr(TInt, depth-1), R: g.Expr(TInt, depth-1)}
		case 3:
			return &ref.Binary{Op: "*", L: g.Expr(TInt, depth-1), R: lit(ref.Int(int64(g.R.Intn(7) - 3)))}
		case 4:
			return &ref.Binary{Op: "%", L: g.Expr(TInt, depth-1), R: lit(ref.Int(int64(1 + g.R.Intn(7))))}
		case 5:
			return &ref.Unary{Op: "-", X: g.Expr(TInt, depth-1)}
		case 6:
			if ls := g.refsOf(TList(TInt)); len(ls) > 0 {
				return &ref.Call{Fn: "length", Args: []ref.Expr{g.chooseRef(ls)}}
			}
			return &ref.Call{Fn: "length", Args: []ref.Expr{g.Expr(TList(TInt), depth-1)}}
		case 7:
			fn := g.pick([]string{"floor", "ceiling", "round"})
			return &ref.Call{Fn: fn, Args: []ref.Expr{g.Expr(TFloat, depth-1)}}
		case 8:
			return &ref.Call{Fn: g.pick([]string{"min", "max"}), Args: []ref.Expr{g.Expr(TInt, depth-1), g.Expr(TInt, depth-1)}}
		case 9:
			if lvs := g.loopVars(); len(lvs) > 0 {
				return &ref.Call{Fn: "index", Args: []ref.Expr{&ref.DataRef{Name: lvs[g.R.Intn(len(lvs))]}}}
			}
			return g.intLit()
		case 10, 11:
			return &ref.Tern{C: g.Expr(TBool, depth-1), A: g.Expr(TInt, depth-1), B: g.Expr(TInt, depth-1)}
		case 12:
			if o := g.optionalOf(TInt); o != nil {
				return &ref.Binary{Op: "?:", L: o, R: g.Expr(TInt, depth-1)}
			}
			return &ref.Binary{Op: "?:", L: g.Expr(TInt, depth-1), R: g.intLit()}
		default:
			return g.intLit()
		}
	case "float":
		if leaf {
			return g.floatLit()
		}
		switch g.R.Intn(8) {
		case 0:
			return &ref.Binary{Op: "/", L: g.Expr(TInt, depth-1), R: lit(ref.Int([]int64{1, 2, 4, 8, -2}[g.R.Intn(5)]))}
		case 1:
			return &ref.Binary{Op: "+", L: g.Expr(TFloat, depth-1), R: g.Expr(TInt, depth-1)}
		case 2:
			return &ref.Binary{Op: "-", L: g.Expr(TInt, depth-1), R: g.Expr(TFloat, depth-1)}
		case 3:
			return &ref.Binary{Op: "*", L: g.Expr(TFloat, depth-1), R: lit(ref.Int(int64(g.R.Intn(5) - 2)))}
		case 4:
			return &ref.Unary{Op: "-", X: g.Expr(TFloat, depth-1)}
		case 5:
			return &ref.Tern{C: g.Expr(TBool, depth-1), A: g.Expr(TFloat, depth-1), B: g.Expr(TFloat, depth-1)}
		case 6:
			return &ref.Call{Fn: g.pick([]string{"min", "max"}), Args: []ref.Expr{g.Expr(TFloat, depth-1), g.Expr(TInt, depth-1)}}
		default:
			return g.floatLit()
		}
	case "str":
		if leaf {
			return g.strLit()
		}
		switch g.R.Intn(8) {
		case 0, 1:
			return &ref.Binary{Op: "+", L: g.Expr(TStr, depth-1), R: g.Expr(TStr, depth-1)}
		case 2:
			return &ref.Binary{Op: "+", L: g.Expr(TStr, depth-1), R: g.Expr(TInt, depth-1)}
		case 3:
			return &ref.Binary{Op: "+", L: g.Expr(TInt, depth-1), R: g.Expr(TStr, depth-1)}
		case 4, 5:
			return &ref.Tern{C: g.Expr(TBool, depth-1), A: g.Expr(TStr, depth-1), B: g.Expr(TStr, depth-1)}
		case 6:
			if o := g.optionalOf(TStr); o != nil {
				return &ref.Binary{Op: "?:", L: o, R: g.Expr(TStr, depth-1)}
			}
			return &ref.Binary{Op: "?:", L: lit(ref.Null), R: g.Expr(TStr, depth-1)}
		default:
			return g.strLit()
		}
	case "bool":
		if leaf {
			return lit(ref.Bool(g.R.Bool()))
		}
		switch g.R.Intn(16) {
		case 0, 1:
			return &ref.Binary{Op: g.pick([]string{"<", ">", "<=", ">="}), L: g.Expr(TInt, depth-1), R: g.Expr(TInt, depth-1)}
		case 2:
			return &ref.Binary{Op: g.pick([]string{"<", ">", "<=", ">="}), L: g.Expr(TFloat, depth-1), R: g.Expr(TInt, depth-1)}
		case 3:
			return &ref.Binary{Op: g.pick([]string{"==", "!="}), L: g.Expr(TInt, depth-1), R: g.Expr(TInt, depth-1)}
		case 4:
			return &ref.Binary{Op: g.pick([]string{"==", "!="}), L: g.Expr(TStr, depth-1), R: g.Expr(TStr, depth-1)}
		case 5:
			if g.O.Subset {
				return &ref.Binary{Op: "==", L: g.Expr(TBool, depth-1), R: g.Expr(TBool, depth-1)}
			}
			// mixed kinds compare unequal; int/float compare numerically
			return &ref.Binary{Op: g.pick([]string{"==", "!="}), L: g.Expr(TInt, depth-1), R: g.Expr(g.anyScalar(), depth-1)}
		case 6, 7:
			return &ref.Binary{Op: "and", L: g.boolOperand(depth - 1), R: g.boolOperand(depth - 1)}
		case 8, 9:
			return &ref.Binary{Op: "or", L: g.boolOperand(depth - 1), R: g.boolOperand(depth - 1)}
		case 10:
			return &ref.Unary{Op: "not", X: g.boolOperand(depth - 1)}
		case 11:
			if lvs := g.loopVars(); len(lvs) > 0 {
				return &ref.Call{Fn: g.pick([]string{"isFirst", "isLast"}), Args: []ref.Expr{&ref.DataRef{Name: lvs[g.R.Intn(len(lvs))]}}}
			}
			return &ref.Call{Fn: "hasData"}
		case 12:
			return &ref.Call{Fn: "strContains", Args: []ref.Expr{g.Expr(TStr, depth-1), g.Expr(TStr, depth-1)}}
		case 13:
			if o := g.optionalAny(); o != nil {
				return &ref.Call{Fn: "isNonnull", Args: []ref.Expr{o}}
			}
			return &ref.Call{Fn: "isNonnull", Args: []ref.Expr{g.Expr(g.anyScalar(), depth-1)}}
		case 14:
			if g.O.ErrPlants {
				// the right operand has no value; short-circuit evaluation must never touch it
				bad := &ref.Binary{Op: "<", L: lit(ref.Int(1)), R: lit(ref.Str("a"))}
				if g.R.Bool() {
					return &ref.Binary{Op: "or", L: &ref.Binary{Op: "<", L: lit(ref.Int(1)), R: lit(ref.Int(2))}, R: bad}
				}
				return &ref.Binary{Op: "and", L: &ref.Binary{Op: ">", L: lit(ref.Int(1)), R: lit(ref.Int(2))}, R: bad}
			}
			return &ref.Tern{C: g.Expr(TBool, depth-1), A: g.Expr(TBool, depth-1), B: g.Expr(TBool, depth-1)}
		default:
			return &ref.Tern{C: g.Expr(TBool, depth-1), A: g.Expr(TBool, depth-1), B: g.Expr(TBool, depth-1)}
		}
	case "list":
		if t.Elem.K == "int" && g.R.P(1, 2) {
			switch g.R.Intn(5) {
			case 0:
				return &ref.Call{Fn: "range", Args: []ref.Expr{lit(ref.Int(int64(2 + g.R.Intn(3))))}}
			case 1:
				return &ref.Call{Fn: "range", Args: []ref.Expr{lit(ref.Int(int64(g.R.Intn(3)))), lit(ref.Int(int64(4 + g.R.Intn(3))))}}
			case 2:
				return &ref.Call{Fn: "range", Args: []ref.Expr{lit(ref.Int(0)), lit(ref.Int(int64(6 + g.R.Intn(3)))), lit(ref.Int(int64(1 + g.R.Intn(3))))}}
			case 3:
				// bounds in any order and of any sign: empty when the limit is not above the start
				return &ref.Call{Fn: "range", Args: []ref.Expr{lit(ref.Int(int64(g.R.Intn(13) - 4))), lit(ref.Int(int64(g.R.Intn(13) - 4)))}}
			default:
				if g.R.Bool() {
					return &ref.Call{Fn: "range", Args: []ref.Expr{lit(ref.Int(int64(g.R.Intn(10) - 5)))}}
				}
				return &ref.Call{Fn: "range", Args: []ref.Expr{lit(ref.Int(int64(g.R.Intn(13) - 4))), lit(ref.Int(int64(g.R.Intn(13) - 4))), lit(ref.Int(int64(1 + g.R.Intn(4))))}}
			}
		}
		l := &ref.ListLit{}
		n := 2 + g.R.Intn(2)
		for i := 0; i < n; i++ {
			l.Items = append(l.Items, g.Expr(*t.Elem, depth-1))
		}
		return l
	case "map":
		m := &ref.MapLit{}
		for _, f := range t.Fields {
			m.Keys = append(m.Keys, f.Name)
			m.Vals = append(m.Vals, g.Expr(f.Ty, depth-1))
		}
		if g.R.P(1, 4) && len(t.Fields) > 1 {
			// split into augmentMap(first, rest)
			a := &ref.MapLit{Keys: m.Keys[:1], Vals: m.Vals[:1]}
			b := &ref.MapLit{Keys: m.Keys[1:], Vals: m.Vals[1:]}
			return &ref.Call{Fn: "augmentMap", Args: []ref.Expr{a, b}}
		}
		return m
	}
	panic("expr: " + t.K)
}

func (g *G) anyScalar() Ty {
	return []Ty{TInt, TFloat, TStr, TBool}[g.R.Intn(4)]
}

// boolOperand is an operand of and/or/not: a bool in the subset, any scalar otherwise (truthiness).
func (g *G) boolOperand(depth int) ref.Expr {
	if g.O.Subset || g.R.P(2, 3) {
		return g.Expr(TBool, depth)
	}
	return g.Expr(g.anyScalar(), depth)
}

func (g *G) optionalOf(t Ty) ref.Expr {
	for _, b := range g.visible() {
		if b.optional && sameTy(b.ty, t) {
			b.used = true
			return &ref.DataRef{Name: b.name}
		}
	}
	return nil
}

func (g *G) optionalAny() ref.Expr {
	for _, b := range g.visible() {
		if b.optional {
			b.used = true
			return &ref.DataRef{Name: b.name}
		}
	}
	return nil
}

func (g *G) intLit() ref.Expr {
	n := int64(g.R.Intn(41) - 20)
	if g.R.P(1, 20) {
		return &ref.Lit{V: ref.Int(31), Src: "0x1F"}
	}
	if g.R.P(1, 30) {
		n = ref.MaxSafe - 1
	}
	return lit(ref.Int(n))
}

var floatLadder []ref.Expr

// FloatLadder lists float literals over the whole range of float64 in source form.
func FloatLadder() []ref.Expr {
	if floatLadder != nil {
		return floatLadder
	}
	add := func(src string) {
		v, err := strconv.ParseFloat(src, 64)
		if err != nil || math.IsInf(v, 0) {
			return
		}
		floatLadder = append(floatLadder, &ref.Lit{V: ref.Float(v), Src: src})
	}
	var exps []int
	for e := -30; e <= 30; e++ {
		exps = append(exps, e)
	}
	exps = append(exps, -323, -310, -308, -300, -200, -100, 100, 200, 300, 307, 308)
	for _, e := range exps {
		for _, m := range []string{"1", "1.0", "1.5", "2.5", "9.3", "9.007199254740993", "1.7976931348623157", "4.9"} {
			add(fmt.Sprintf("%se%d", m, e))
		}
	}
	for _, k := range []uint{31, 32, 52, 53, 54, 62, 63, 64, 65, 69, 70, 100} {
		n := new(big.Int).Lsh(big.NewInt(1), k)
		add(n.String() + ".0")
		add(new(big.Int).Sub(n, big.NewInt(1)).String() + ".0")
		add(new(big.Int).Add(n, big.NewInt(1024)).String() + ".5")
	}
	return floatLadder
}

func (g *G) floatLit() ref.Expr {
	f := float64(g.R.Intn(801)-400) / 8
	if g.O.WideFloats && g.R.P(1, 6) {
		l := FloatLadder()
		return l[g.R.Intn(len(l))]
	}
	if g.R.P(1, 10) {
		return &ref.Lit{V: ref.Float(1500), Src: "1.5e3"}
	}
	if g.R.P(1, 10) {
		return &ref.Lit{V: ref.Float(0.25), Src: "25e-2"}
	}
	return lit(ref.Float(f))
}

func (g *G) strLit() ref.Expr {
	p := g.strPool()
	if g.R.P(1, 6) {
		p = EscapeStrings
	}
	s := g.pick(p)
	if !g.O.Astral {
		// (characters beyond U+FFFF count differently in the two backends under length-sensitive directives)
		for _, c := range s {
			if c > 0xFFFF {
				s = g.pick(EscapeStrings[:6])
				break
			}
		}
	}
	return lit(ref.Str(s))
}

// ---- template bodies

var rawWords = []string{"foo", "bar", "Hello", "x1", "-", ":", "ok.", "(", ")", "=", "42", "é", "%", "#", ";", "!", "\u00a0", "n\u3000"}
var rawSpecials = []string{"<b>", "</b>", "<br>", "&amp;", "<i class=\"k\">", "'", "\"", "a<b", "&"}

func (g *G) rawText() *ref.Raw {
	if g.O.Big && g.R.P(1, 6) {
		// (like every text run the generators write, it neither begins nor ends with a blank)
		return &ref.Raw{Text: strings.TrimSpace(g.bigText(!g.O.NoSpecials, g.O.Astral))}
	}
	n := 1 + g.R.Intn(3)
	var parts []string
	for i := 0; i < n; i++ {
		if !g.O.NoSpecials && g.R.P(1, 4) {
			parts = append(parts, g.pick(rawSpecials))
		} else {
			parts = append(parts, g.pick(rawWords))
		}
	}
	return &ref.Raw{Text: strings.Join(parts, " ")}
}

func (g *G) newLetName() string {
	g.nlet++
	return fmt.Sprintf("v%d", g.nlet)
}

// printOf prints a value of any type in a way that has a defined text.
func (g *G) printOf(e ref.Expr, t Ty) ref.Node {
	p := &ref.Print{E: e, Explicit: g.R.P(1, 4)}
	if g.O.Directives && (t.K == "str" || t.K == "int") {
		switch g.R.Intn(8) {
		case 0:
			p.Dirs = append(p.Dirs, ref.Dir{Name: "noAutoescape"})
		case 1:
			p.Dirs = append(p.Dirs, ref.Dir{Name: "id"})
		case 2:
			p.Dirs = append(p.Dirs, ref.Dir{Name: "escapeHtml"})
		case 3:
			p.Dirs = append(p.Dirs, ref.Dir{Name: "truncate", Args: []ref.Expr{lit(ref.Int(int64(g.R.Intn(9))))}})
		case 4:
			p.Dirs = append(p.Dirs, ref.Dir{Name: "truncate", Args: []ref.Expr{lit(ref.Int(int64(1 + g.R.Intn(9)))), lit(ref.Bool(g.R.Bool()))}})
		case 5:
			if g.O.MarkupDirs {
				p.Dirs = append(p.Dirs, ref.Dir{Name: "changeNewlineToBr"})
			}
		case 6:
			if g.O.MarkupDirs && !g.O.NoWordBreaks {
				p.Dirs = append(p.Dirs, ref.Dir{Name: "insertWordBreaks", Args: []ref.Expr{lit(ref.Int(int64(1 + g.R.Intn(6))))}})
			}
		}
		// chains: a second directive after (or before) the first one
		if len(p.Dirs) == 1 && g.R.P(1, 3) {
			var second ref.Dir
			switch g.R.Intn(4) {
			case 0:
				second = ref.Dir{Name: "id"}
			case 1:
				second = ref.Dir{Name: "noAutoescape"}
			case 2:
				second = ref.Dir{Name: "escapeHtml"}
			default:
				second = ref.Dir{Name: "truncate", Args: []ref.Expr{lit(ref.Int(int64(2 + g.R.Intn(9))))}}
			}
			if g.R.Bool() {
				p.Dirs = append(p.Dirs, second)
			} else {
				p.Dirs = []ref.Dir{second, p.Dirs[0]}
			}
		}
	}
	return p
}

// useOf returns a command that uses variable b (whatever its type).
func (g *G) useOf(b *binding) ref.Node {
	b.used = true
	d := &ref.DataRef{Name: b.name}
	if b.optional {
		return &ref.If{Conds: []ref.Expr{&ref.Call{Fn: "isNonnull", Args: []ref.Expr{d}}}, Bodies: [][]ref.Node{{&ref.Raw{Text: "+"}}}}
	}
	switch b.ty.K {
	case "list":
		return &ref.Print{E: &ref.Call{Fn: "length", Args: []ref.Expr{d}}}
	case "map":
		return &ref.Print{E: &ref.DataRef{Name: b.name, Acc: []ref.Acc{{Kind: 0, Key: b.ty.Fields[0].Name}}}}
	case "float":
		return &ref.Print{E: &ref.Call{Fn: "floor", Args: []ref.Expr{d}}}
	}
	return &ref.Print{E: d}
}

// blockOrEmpty is Block, or now and then a block with nothing in it ({case 1}{case 2}..., {if $x}{else}...).
func (g *G) blockOrEmpty(depth, n int) []ref.Node {
	if g.R.P(1, 8) {
		return []ref.Node{}
	}
	return g.Block(depth, n)
}

// closeBlock appends uses for lets declared since mark that nothing used, and pops them.
func (g *G) closeBlock(mark int, body []ref.Node) []ref.Node {
	for _, b := range g.scope[mark:] {
		if b.kind == "let" && (!b.used || b.force) {
			body = append(body, g.useOf(b))
		}
	}
	g.scope = g.scope[:mark]
	g.marks = g.marks[:len(g.marks)-1]
	return body
}

// Block generates a body in a fresh lexical block.
func (g *G) Block(depth, maxLen int, pre ...*binding) []ref.Node {
	mark := len(g.scope)
	for _, b := range pre {
		g.push(b)
	}
	g.marks = append(g.marks, len(g.scope))
	var body []ref.Node
	n := 1 + g.R.Intn(maxLen)
	for i := 0; i < n; i++ {
		body = append(body, g.command(depth)...)
	}
	return g.closeBlock(mark, body)
}

func (g *G) scalarTy() Ty { return []Ty{TInt, TInt, TStr, TStr, TBool, TFloat}[g.R.Intn(6)] }

func (g *G) command(depth int) []ref.Node {
	if depth <= 0 {
		switch g.R.Intn(4) {
		case 0:
			return []ref.Node{g.rawText()}
		default:
			t := g.scalarTy()
			return []ref.Node{g.printOf(g.Expr(t, 1), t)}
		}
	}
	switch g.R.Intn(22) {
	case 0, 1:
		return []ref.Node{g.rawText()}
	case 2, 3, 4:
		t := g.scalarTy()
		return []ref.Node{g.printOf(g.Expr(t, 2), t)}
	case 5:
		return []ref.Node{&ref.Special{Name: g.pick([]string{"sp", "nil", `\n`, `\r`, `\t`, "lb", "rb"})}}
	case 6:
		return []ref.Node{&ref.Literal{Text: g.pick([]string{"{x}", "a  b", "<{[ ]}>", "{$notavar}", "//not a comment", " lead and trail "})}}
	case 7, 8:
		n := &ref.If{}
		k := 1 + g.R.Intn(2)
		for i := 0; i < k; i++ {
			n.Conds = append(n.Conds, g.boolOperand(2))
			n.Bodies = append(n.Bodies, g.blockOrEmpty(depth-1, 2))
		}
		if g.R.Bool() {
			n.HasElse = true
			n.Else = g.blockOrEmpty(depth-1, 2)
		}
		return []ref.Node{n}
	case 9:
		t := []Ty{TInt, TStr}[g.R.Intn(2)]
		n := &ref.Switch{}
		if t.K == "int" && g.R.P(1, 2) {
			// a subject of known small value, so that cases are actually taken
			n.E = []ref.Expr{lit(ref.Int(int64(g.R.Intn(7) - 3))), &ref.Binary{Op: "-", L: lit(ref.Int(int64(g.R.Intn(4)))), R: lit(ref.Int(int64(g.R.Intn(4))))}}[g.R.Intn(2)]
		} else {
			n.E = g.Expr(t, 1)
		}
		if t.K == "int" && g.R.P(1, 3) {
			// a float that equals an integer: cases compare by value, 2.0 matches {case 2}
			n.E = &ref.Binary{Op: "/", L: &ref.Paren{X: n.E}, R: lit(ref.Int(1))}
		}
		k := 1 + g.R.Intn(2)
		if g.O.Big && g.R.P(1, 2) {
			k = 6 + g.R.Intn(8) // (a dozen cases, two dozen values)
		}
		for i := 0; i < k; i++ {
			c := ref.SwitchCase{}
			for j := 0; j < 1+g.R.Intn(2); j++ {
				if t.K == "int" {
					v := int64(g.R.Intn(7) - 3)
					switch g.R.Intn(6) {
					case 0:
						c.Vals = append(c.Vals, &ref.Lit{V: ref.Float(float64(v)), Src: fmt.Sprintf("%d.0", v)})
					case 1:
						c.Vals = append(c.Vals, &ref.Binary{Op: "+", L: lit(ref.Int(v - 1)), R: lit(ref.Int(1))})
					case 2:
						// a value computed from what is in scope (a case value is an expression like any other)
						c.Vals = append(c.Vals, g.Expr(t, 1))
					default:
						c.Vals = append(c.Vals, lit(ref.Int(v)))
					}
				} else if g.R.P(1, 4) {
					c.Vals = append(c.Vals, g.Expr(t, 1))
				} else {
					c.Vals = append(c.Vals, lit(ref.Str(g.pick(PlainStrings))))
				}
			}
			c.Body = g.blockOrEmpty(depth-1, 2)
			n.Cases = append(n.Cases, c)
		}
		if g.R.P(2, 3) {
			n.HasDef = true
			n.Default = g.blockOrEmpty(depth-1, 2)
		}
		return []ref.Node{n}
	case 10, 11:
		// foreach over a list
		var lt Ty
		switch g.R.Intn(4) {
		case 0:
			lt = TList(TStr)
		case 1:
			lt = TList(TMapAS)
		default:
			lt = TList(TInt)
		}
		var list ref.Expr
		if lt.Elem.K == "int" && g.R.P(1, 4) {
			if es := g.refsNamed("e"); es != nil {
				list = es
			}
		}
		if list == nil {
			list = g.Expr(lt, 1)
		}
		v := g.pick([]string{"i", "j", "k", "item"})
		n := &ref.Foreach{Var: v, List: list, Keyword: g.pick([]string{"foreach", "foreach", "for"})}
		if _, isRange := list.(*ref.Call); isRange && !g.O.Subset {
			n.Keyword = "for"
		}
		g.loops = append(g.loops, v)
		n.Body = g.Block(depth-1, 3, &binding{name: v, ty: *lt.Elem, kind: "loop", used: true})
		g.loops = g.loops[:len(g.loops)-1]
		if g.R.P(1, 2) {
			n.HasEmpty = true
			n.IfEmpty = g.Block(depth-1, 2)
		}
		return []ref.Node{n}
	case 12, 13:
		// let value: declared here, visible to the rest of the enclosing block
		t := g.scalarTy()
		name := g.newLetName()
		if g.O.LetShadow && g.R.P(1, 3) {
			if s := g.shadowCandidate(t); s != "" {
				name = s
			}
		}
		n := &ref.LetVal{Name: name, E: g.Expr(t, 2)}
		g.push(&binding{name: name, ty: t, kind: "let"})
		return []ref.Node{n}
	case 14:
		name := g.newLetName()
		if g.O.LetShadow && g.R.P(1, 3) {
			if s := g.shadowCandidate(TStr); s != "" {
				name = s
			}
		}
		n := &ref.LetContent{Name: name, Body: g.Block(depth-1, 2)}
		g.push(&binding{name: name, ty: TStr, kind: "let"})
		return []ref.Node{n}
	case 15, 16, 17:
		if g.O.Recursion && g.recTarget != "" && g.R.P(1, 4) {
			// recursion bounded by a decreasing argument
			n := &ref.CallT{Target: g.recTarget, NameSrc: g.recTarget, Params: []ref.Param{{Name: "n", E: lit(ref.Int(int64(g.R.Intn(5))))}}}
			if g.R.P(1, 3) {
				if ls := g.refsOf(TList(TInt)); len(ls) > 0 {
					n.Params[0].E = &ref.Call{Fn: "length", Args: []ref.Expr{g.chooseRef(ls)}}
				}
			}
			return []ref.Node{n}
		}
		if c := g.call(depth); c != nil {
			return []ref.Node{c}
		}
		return []ref.Node{g.rawText()}
	case 18:
		if g.R.Bool() {
			return []ref.Node{&ref.Css{Suffix: g.pick([]string{"base", "my-class", "a_b"})}}
		}
		return []ref.Node{&ref.Css{E: g.Expr(TStr, 1), Suffix: g.pick([]string{"sfx", "my-class"})}}
	case 19:
		if g.R.Bool() {
			return []ref.Node{&ref.Debugger{}}
		}
		return []ref.Node{&ref.Log{Body: g.Block(depth-1, 2)}}
	case 20, 21:
		if g.O.Msgs {
			return []ref.Node{g.msg(depth)}
		}
		return []ref.Node{g.rawText()}
	}
	return nil
}

func (g *G) refsNamed(name string) ref.Expr {
	for _, b := range g.visible() {
		if b.name == name && b.kind == "param" && !b.optional {
			b.used = true
			return &ref.DataRef{Name: name}
		}
	}
	return nil
}

// shadowCandidate returns the name of a visible binding of type t, declared
// outside the current block, that a let may shadow here. The data-ref rules
// attribute every use of the name inside this block to the new let, so the
// shadowed binding is forced to get a use of its own at its own block level.
// A param shadowed in the template's top-level block must already have been used.
func (g *G) shadowCandidate(t Ty) string {
	if len(g.marks) == 0 {
		return ""
	}
	cur := g.marks[len(g.marks)-1]
	seen := map[string]bool{}
	for i := len(g.scope) - 1; i >= 0; i-- {
		b := g.scope[i]
		if seen[b.name] {
			continue
		}
		seen[b.name] = true
		if i >= cur || !sameTy(b.ty, t) || b.optional || b.name == "e" {
			continue
		}
		if b.kind == "param" && len(g.marks) < 2 {
			// in the template's top-level block nothing after the let can reach the param any more:
			// it must already have been used
			if !b.used {
				continue
			}
			return b.name
		}
		b.force = true
		return b.name
	}
	return ""
}

// Bind makes a non-optional variable of the given type visible to the expression generator.
func (g *G) Bind(name string, t Ty) {
	g.push(&binding{name: name, ty: t, kind: "param"})
}
