package gen

import (
	"strings"

	"verif/fw"
)

var hostileStrings []string

// HostileStrings: every byte value, all pairs/triples of the five HTML
// specials, multi-byte and astral runes (printable and not), JS line
// terminators, entity-like and tag-like text, long runs.
func HostileStrings() []string {
	if hostileStrings != nil {
		return hostileStrings
	}
	var out []string
	for b := 0; b < 256; b++ {
		out = append(out, string([]byte{byte(b)}), "a"+string([]byte{byte(b)})+"z")
	}
	sp := []string{"&", "<", ">", "\"", "'"}
	for _, a := range sp {
		for _, b := range sp {
			out = append(out, a+b)
			for _, c := range sp {
				out = append(out, a+b+c)
			}
		}
	}
	out = append(out,
		"", " ", "plain", "héllo wörld", "中文字符", "😀", "a😀b😀", "\U000F0000", "x\U000E0001y", "\u2028", "\u2029", "a\u2028b\u2029c", "\ufeff", "\u00a0", "\u200b",
		"&amp;", "&lt;", "&#x3c;", "&#60;", "&lt", "&#", "&;", "&amp;amp;", "&nbsp;x", "AT&T", "a&b;c",
		"<b>", "</b>", "<br>", "<wbr>", "<script>alert(1)</script>", "</script>", "<!--", "-->", "]]>", "<a href=\"x\" onclick='y'>", "<img src=x onerror=alert(1)>",
		"line1\nline2", "line1\r\nline2\rline3\n", "\n", "\r", "\r\n\r\n", "tab\tsep", "back\\slash", "quote\"s'", "%20%", "100%", "a+b c", "a=b&c=d", "http://x.y/z?q=1&r=<2>",
		"\u2028A", "\u2029f0", "\u200b1", "\u3000a", "\ufeffB", "\ue000c", "\u2028\u20281", "x\u200eD\u2060e", "\u2028", "\u0085a", "\u00ad9", "\u061cF",
		"averyveryveryveryverylongwordwithoutanyspaces", "short words only here", "x y", strings.Repeat("<", 200), strings.Repeat("&amp;", 100), strings.Repeat("a b", 300), strings.Repeat("é", 500), strings.Repeat("0123456789", 100),
		"a"+strings.Repeat("é", 1500), "ab"+strings.Repeat("中", 1400), "x"+strings.Repeat("😀", 1100), strings.Repeat("word ", 900)+strings.Repeat("é", 300),
		strings.Repeat("<é>&", 1300), "q"+strings.Repeat("日本語", 1500),
		// a real backslash before text that looks like an escape sequence of the template language or of JavaScript
		"\\u0041", "\\n", "a\\u2028b", "\\\\u00e9", "\\'", "\\t\\u0062", "\\x41", "\\u004", "\\\\", "\\\\\\n", "\\0", "\\u{41}", "\\\r", "$\\u0024{",
		// a NUL (and other control characters) directly before a digit: "\\0" + "7" reads as an octal escape in JavaScript
		"\x000", "\x007", "a\x0012b", "\x009", "\x0101", "\x1b[0m", "\x0800",
		"null", "true", "0", "-1", "1e3", "{$x}", "{", "}", "{{", "/*", "//", "\x00\x01\x02", "a\x00b", "\xff\xfe", "\xc3\x28", "\xe2\x82", "ok\xf0\x9f\x98",
	)
	hostileStrings = out
	return out
}

// RandomString draws from the hostile pool or concatenates pieces of it.
func RandomString(r *fw.Rand) string {
	p := HostileStrings()
	switch r.Intn(4) {
	case 0:
		return p[r.Intn(len(p))]
	case 1:
		return p[r.Intn(len(p))] + p[r.Intn(len(p))]
	case 2:
		return p[r.Intn(len(p))] + " " + p[r.Intn(len(p))] + p[r.Intn(len(p))]
	default:
		n := r.Intn(12)
		var b strings.Builder
		for i := 0; i < n; i++ {
			const alpha = "&<>\"' ab\n\r;#x0é"
			b.WriteByte(alpha[r.Intn(len(alpha))])
		}
		return b.String()
	}
}
