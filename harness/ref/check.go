package ref

import (
	"fmt"
	"sort"
)

// Check applies the data-reference rules to a bundle and returns the
// violations found (empty = the compiler must accept the bundle).
//
// Rules: every $name is bound by a declared param, an enclosing let (from its
// position to the end of its block) or loop (in the loop body), or is $ij;
// every declared param and every let is used; every call names an existing
// template, passes only params the callee declares and, unless it passes
// data="$expr", every required param of the callee (data="all" passes the
// caller's params the callee declares, and counts as a use of them).
func Check(b *Bundle) []string {
	var out []string
	for _, f := range b.Files {
		for _, t := range f.Templates {
			c := &checker{b: b, f: f, t: t, used: map[string]bool{}}
			if t.HeaderStyle && len(t.SoydocExtra) > 0 {
				c.errf("both soydoc and header params")
			}
			for _, p := range t.Params {
				c.params = append(c.params, p.Name)
			}
			c.block(t.Body, nil)
			for _, p := range t.Params {
				if !c.used[p.Name] {
					c.errs = append(c.errs, fmt.Sprintf("%s: param %s is unused", f.FQ(t), p.Name))
				}
			}
			out = append(out, c.errs...)
		}
	}
	sort.Strings(out)
	return out
}

type binding struct {
	name string
	kind string // let | loop
	used bool
}

type checker struct {
	b      *Bundle
	f      *File
	t      *Template
	params []string
	used   map[string]bool // params used
	scope  []*binding      // innermost last
	errs   []string
}

func (c *checker) errf(f string, a ...interface{}) {
	c.errs = append(c.errs, c.f.FQ(c.t)+": "+fmt.Sprintf(f, a...))
}

func (c *checker) use(name string) {
	if name == "ij" {
		return
	}
	for i := len(c.scope) - 1; i >= 0; i-- {
		if c.scope[i].name == name {
			c.scope[i].used = true
			return
		}
	}
	for _, p := range c.params {
		if p == name {
			c.used[name] = true
			return
		}
	}
	c.errf("$%s is not bound", name)
}

// isLoopVar reports whether the innermost binding of the name is a loop variable.
func (c *checker) isLoopVar(name string) bool {
	for i := len(c.scope) - 1; i >= 0; i-- {
		if c.scope[i].name == name {
			return c.scope[i].kind == "loop"
		}
	}
	return false
}

func (c *checker) expr(e Expr) {
	switch e := e.(type) {
	case nil, *Lit, *Global:
	case *Paren:
		c.expr(e.X)
	case *DataRef:
		c.use(e.Name)
		for _, a := range e.Acc {
			if a.Kind == 2 {
				c.expr(a.Arg)
			}
		}
	case *Unary:
		c.expr(e.X)
	case *Binary:
		c.expr(e.L)
		c.expr(e.R)
	case *Tern:
		c.expr(e.C)
		c.expr(e.A)
		c.expr(e.B)
	case *Call:
		if (e.Fn == "index" || e.Fn == "isFirst" || e.Fn == "isLast") && len(e.Args) == 1 {
			// these read the state of a loop: the argument has to be the variable of an enclosing loop
			dr, ok := e.Args[0].(*DataRef)
			if !ok || len(dr.Acc) > 0 || !c.isLoopVar(dr.Name) {
				c.errf("%s() is not applied to the variable of an enclosing loop", e.Fn)
			}
		}
		for _, a := range e.Args {
			c.expr(a)
		}
	case *ListLit:
		for _, a := range e.Items {
			c.expr(a)
		}
	case *MapLit:
		for _, a := range e.Vals {
			c.expr(a)
		}
	default:
		panic(fmt.Sprintf("check expr %T", e))
	}
}

// block checks a body; pre are bindings (loop variable) visible in it.
func (c *checker) block(ns []Node, pre []*binding) {
	mark := len(c.scope)
	c.scope = append(c.scope, pre...)
	for _, n := range ns {
		c.node(n)
	}
	for _, bd := range c.scope[mark:] {
		if bd.kind == "let" && !bd.used {
			c.errf("let $%s is unused", bd.name)
		}
	}
	c.scope = c.scope[:mark]
}

func (c *checker) node(n Node) {
	switch n := n.(type) {
	case *Raw, *Special, *Literal, *Debugger:
	case *Print:
		c.expr(n.E)
		for _, d := range n.Dirs {
			for _, a := range d.Args {
				c.expr(a)
			}
		}
	case *If:
		for i, cond := range n.Conds {
			c.expr(cond)
			c.block(n.Bodies[i], nil)
		}
		if n.HasElse {
			c.block(n.Else, nil)
		}
	case *Switch:
		c.expr(n.E)
		for _, cs := range n.Cases {
			for _, v := range cs.Vals {
				c.expr(v)
			}
			c.block(cs.Body, nil)
		}
		if n.HasDef {
			c.block(n.Default, nil)
		}
	case *Foreach:
		c.expr(n.List) // the loop variable is not in scope in its own collection
		c.block(n.Body, []*binding{{name: n.Var, kind: "loop"}})
		if n.HasEmpty {
			c.block(n.IfEmpty, nil)
		}
	case *LetVal:
		if n.Name == "ij" {
			c.errf("let may not be named ij")
		}
		c.expr(n.E) // the let is not in scope in its own value
		c.scope = append(c.scope, &binding{name: n.Name, kind: "let"})
	case *LetContent:
		if n.Name == "ij" {
			c.errf("let may not be named ij")
		}
		c.block(n.Body, nil)
		c.scope = append(c.scope, &binding{name: n.Name, kind: "let"})
	case *CallT:
		c.call(n)
	case *Css:
		c.expr(n.E)
	case *Log:
		c.block(n.Body, nil)
	case *Msg:
		c.msgBody(n.Body)
	default:
		panic(fmt.Sprintf("check node %T", n))
	}
}

func (c *checker) msgBody(ns []Node) {
	for _, ch := range ns {
		switch ch := ch.(type) {
		case *Plural:
			c.expr(ch.E)
			for _, pc := range ch.Cases {
				c.msgBody(pc.Body)
			}
			c.msgBody(ch.Default)
		default:
			c.node(ch)
		}
	}
}

func (c *checker) call(n *CallT) {
	_, callee := c.b.Find(n.Target)
	if callee == nil {
		c.errf("call to unknown template %s", n.Target)
		return
	}
	declared := map[string]bool{}
	for _, p := range callee.Params {
		declared[p.Name] = true
	}
	passedNames := map[string]bool{}
	if n.DataAll {
		for _, p := range c.params {
			if declared[p] {
				c.used[p] = true
				passedNames[p] = true
			}
		}
	}
	if n.Data != nil {
		c.expr(n.Data)
	}
	for i := range n.Params {
		p := &n.Params[i]
		if !declared[p.Name] {
			c.errf("call passes param %s which %s does not declare", p.Name, n.Target)
		}
		passedNames[p.Name] = true
		if p.IsContent {
			c.block(p.Content, nil)
		} else {
			c.expr(p.E)
		}
	}
	if n.Data == nil {
		for _, p := range callee.Params {
			if !p.Optional && !passedNames[p.Name] {
				c.errf("call does not pass required param %s of %s", p.Name, n.Target)
			}
		}
	}
}
