package ref

import (
	"fmt"
	"strings"
)

// ---- template trees

type Node interface{}

type Raw struct{ Text string }     // template text; generators keep it free of line breaks, braces and comment openers
type Special struct{ Name string } // sp nil \n \r \t lb rb
type Literal struct{ Text string }
type Dir struct {
	Name string
	Args []Expr
}
type Print struct {
	E        Expr
	Dirs     []Dir
	Explicit bool // written with the print keyword
}
type If struct {
	Conds   []Expr
	Bodies  [][]Node
	Else    []Node
	HasElse bool
}
type SwitchCase struct {
	Vals []Expr
	Body []Node
}
type Switch struct {
	E       Expr
	Cases   []SwitchCase
	Default []Node
	HasDef  bool
}
type Foreach struct {
	Var      string
	List     Expr
	Body     []Node
	IfEmpty  []Node
	HasEmpty bool
	Keyword  string // foreach | for
}
type LetVal struct {
	Name string
	E    Expr
}
type LetContent struct {
	Name string
	Body []Node
}
type Param struct {
	Name       string
	E          Expr   // value param when Content == nil && !IsContent
	Content    []Node // content param
	IsContent  bool
	AttrSyntax bool // key="..." value="..." form
}

// CallT is the {call} command (ref.Call is the expression-level function call).
type CallT struct {
	Target    string // fully-qualified template name
	NameSrc   string // how the name is written in source (.local, full, alias-relative)
	DataAll   bool
	Data      Expr
	Params    []Param
	SelfClose bool
}
type Css struct {
	E      Expr
	Suffix string
}
type Log struct{ Body []Node }
type Debugger struct{}

// Msg is a message: parts are Raw (may contain html tags), Print, *CallT, or *Plural (sole child).
type Msg struct {
	Desc, Meaning string
	Body          []Node
}
type PluralCase struct {
	N    int
	Body []Node
}
type Plural struct {
	E       Expr
	Cases   []PluralCase
	Default []Node
}

type ParamDecl struct {
	Name     string
	Optional bool
	// header style only: the declared type ("" prints as ?) and a default value in source form. Neither changes what
	// the declaration means here: a param is required unless it is declared with @param?.
	TypeSrc    string
	DefaultSrc string
}
type Template struct {
	Name        string // local name without the dot
	Params      []ParamDecl
	HeaderStyle bool   // {@param} instead of soydoc
	Autoescape  string // "" | true | false | contextual
	Private     bool
	Body        []Node
	NoDoc       bool        // no soydoc block at all (only legal without params)
	SoydocExtra []ParamDecl // params additionally declared in soydoc although HeaderStyle is set (violates the one-style rule)
}
type File struct {
	Name       string
	Namespace  string
	Autoescape string
	Aliases    []string
	Templates  []*Template
}
type Bundle struct {
	Files       []*File
	Globals     map[string]Value
	GlobalOrder []string
}

// FQ returns the fully-qualified name of a template in a file.
func (f *File) FQ(t *Template) string { return f.Namespace + "." + t.Name }

// Find locates a template by fully-qualified name.
func (b *Bundle) Find(fq string) (*File, *Template) {
	for _, f := range b.Files {
		for _, t := range f.Templates {
			if f.FQ(t) == fq {
				return f, t
			}
		}
	}
	return nil, nil
}

// ---- source printing

// Layout controls how a bundle is laid out as source text.
type Layout struct {
	Multiline bool // one command per line, indented
	Style     PrintStyle
	CRLF      bool // the line breaks that lay the file out are CR LF (text and literal content is left as it is)
	// Attrs spells commands with the optional attributes and alternative forms the parser accepts and ignores or treats
	// alike: kind="..." on let / param / template, hidden="..." on msg, {call name="..."}, a comment between params.
	Attrs bool
}

type srcw struct {
	b      strings.Builder
	lay    Layout
	indent int
	// Lines records the 1-based line of each node laid out (multi-line layouts).
	Lines map[Node]int
	line  int
	nvar  int
}

// variant cycles through n spellings when the layout asks for them, else returns 0.
func (w *srcw) variant(n int) int {
	if !w.lay.Attrs {
		return 0
	}
	w.nvar++
	return w.nvar % n
}

var kinds = []string{"", ` kind="html"`, ` kind="text"`, "", ` kind="attributes"`, ` kind="js"`, ` kind="uri"`}

func (w *srcw) nl() {
	if w.lay.Multiline {
		w.s("\n" + strings.Repeat("  ", w.indent))
	}
}

// s writes layout: its line breaks follow the layout's line ending.
func (w *srcw) s(x string) {
	w.line += strings.Count(x, "\n")
	if w.lay.CRLF {
		x = strings.ReplaceAll(x, "\n", "\r\n")
	}
	w.b.WriteString(x)
}

// c writes content (raw text, literal text) byte for byte.
func (w *srcw) c(x string) {
	w.line += strings.Count(x, "\n")
	w.b.WriteString(x)
}

func (w *srcw) e(x Expr) string { return Src(x, w.lay.Style) }

// quoteAttr writes an expression inside a double-quoted attribute value.
func quoteAttr(s string) string {
	return `"` + strings.NewReplacer(`\`, `\\`, `"`, `\"`, "\n", `\n`, "\t", `\t`).Replace(s) + `"`
}

func (w *srcw) nodes(ns []Node) {
	for _, n := range ns {
		w.node(n)
	}
}

func (w *srcw) node(n Node) {
	if w.Lines != nil {
		w.Lines[n] = w.line
	}
	switch n := n.(type) {
	case *Raw:
		w.c(n.Text)
		return // raw text stays on the line (line joining is C15's subject)
	case *Special:
		w.s("{" + n.Name + "}")
		return
	case *Literal:
		w.s("{literal}")
		w.c(n.Text)
		w.s("{/literal}")
		return
	case *Print:
		w.s("{")
		if n.Explicit {
			w.s("print ")
		}
		w.s(w.e(n.E))
		for _, d := range n.Dirs {
			w.s("|" + d.Name)
			for i, a := range d.Args {
				if i == 0 {
					w.s(":")
				} else {
					w.s(",")
				}
				w.s(w.e(a))
			}
		}
		w.s("}")
		return
	case *If:
		for i, c := range n.Conds {
			if i == 0 {
				w.s("{if " + w.e(c) + "}")
			} else {
				w.nl()
				w.s("{elseif " + w.e(c) + "}")
			}
			w.block(n.Bodies[i])
		}
		if n.HasElse {
			w.nl()
			w.s("{else}")
			w.block(n.Else)
		}
		w.nl()
		w.s("{/if}")
	case *Switch:
		w.s("{switch " + w.e(n.E) + "}")
		w.indent++
		for _, c := range n.Cases {
			w.nl()
			w.s("{case ")
			for i, v := range c.Vals {
				if i > 0 {
					w.s(", ")
				}
				w.s(w.e(v))
			}
			w.s("}")
			w.block(c.Body)
		}
		if n.HasDef {
			w.nl()
			w.s("{default}")
			w.block(n.Default)
		}
		w.indent--
		w.nl()
		w.s("{/switch}")
	case *Foreach:
		kw := n.Keyword
		if kw == "" {
			kw = "foreach"
		}
		w.s("{" + kw + " $" + n.Var + " in " + w.e(n.List) + "}")
		w.block(n.Body)
		if n.HasEmpty {
			w.nl()
			w.s("{ifempty}")
			w.block(n.IfEmpty)
		}
		w.nl()
		w.s("{/" + kw + "}")
	case *LetVal:
		w.s("{let $" + n.Name + ": " + w.e(n.E) + " /}")
	case *LetContent:
		w.s("{let $" + n.Name + kinds[w.variant(len(kinds))] + "}")
		w.block(n.Body)
		w.nl()
		w.s("{/let}")
	case *CallT:
		dataAttr := ""
		if n.DataAll {
			dataAttr = ` data="all"`
		} else if n.Data != nil {
			dataAttr = " data=" + quoteAttr(w.e(n.Data))
		}
		switch w.variant(4) {
		case 1:
			w.s("{call name=" + quoteAttr(n.NameSrc) + dataAttr)
		case 3:
			w.s("{call" + dataAttr + " name=" + quoteAttr(n.NameSrc))
		default:
			w.s("{call " + n.NameSrc + dataAttr)
		}
		if len(n.Params) == 0 && n.SelfClose {
			w.s(" /}")
			break
		}
		w.s("}")
		w.indent++
		for i := range n.Params {
			p := &n.Params[i]
			w.nl()
			if w.Lines != nil {
				w.Lines[p] = w.line
			}
			if w.variant(5) == 2 {
				w.s(" // a comment between params\n")
			}
			switch {
			case p.IsContent && p.AttrSyntax:
				w.s("{param key=" + quoteAttr(p.Name) + kinds[w.variant(len(kinds))] + "}")
				w.block(p.Content)
				w.nl()
				w.s("{/param}")
			case p.IsContent:
				w.s("{param " + p.Name + kinds[w.variant(len(kinds))] + "}")
				w.block(p.Content)
				w.nl()
				w.s("{/param}")
			case p.AttrSyntax:
				w.s("{param key=" + quoteAttr(p.Name) + " value=" + quoteAttr(w.e(p.E)) + " /}")
			default:
				w.s("{param " + p.Name + ": " + w.e(p.E) + " /}")
			}
		}
		w.indent--
		w.nl()
		w.s("{/call}")
	case *Css:
		if n.E != nil {
			w.s("{css " + w.e(n.E) + ", " + n.Suffix + "}")
		} else {
			w.s("{css " + n.Suffix + "}")
		}
		return
	case *Log:
		w.s("{log}")
		w.block(n.Body)
		w.nl()
		w.s("{/log}")
	case *Debugger:
		w.s("{debugger}")
	case *Msg:
		w.s("{msg")
		if n.Meaning != "" {
			w.s(" meaning=" + quoteAttr(n.Meaning))
		}
		w.s(" desc=" + quoteAttr(n.Desc) + []string{"", ` hidden="false"`, "", ` hidden="true"`}[w.variant(4)] + "}")
		// message bodies stay on one line: their text is significant
		for _, c := range n.Body {
			switch c := c.(type) {
			case *Plural:
				w.s("{plural " + w.e(c.E) + "}")
				for _, pc := range c.Cases {
					w.s(fmt.Sprintf("{case %d}", pc.N))
					w.inline(pc.Body)
				}
				w.s("{default}")
				w.inline(c.Default)
				w.s("{/plural}")
			default:
				w.inline([]Node{c})
			}
		}
		w.s("{/msg}")
	default:
		panic(fmt.Sprintf("srcw.node: %T", n))
	}
}

// inline prints nodes on the current line regardless of layout.
func (w *srcw) inline(ns []Node) {
	saved := w.lay.Multiline
	w.lay.Multiline = false
	w.nodes(ns)
	w.lay.Multiline = saved
}

// block prints a body: in multi-line layouts each non-text command starts its own line.
func (w *srcw) block(ns []Node) {
	w.indent++
	for _, n := range ns {
		if w.lay.Multiline && !isInlineNode(n) {
			w.nl()
		}
		w.node(n)
	}
	w.indent--
}

func isInlineNode(n Node) bool {
	switch n.(type) {
	case *Raw, *Special, *Literal, *Print, *Css:
		return true
	}
	return false
}

// FileSrc prints one file. If lines != nil it receives the line of every node.
func FileSrc(f *File, lay Layout, lines map[Node]int) string {
	w := &srcw{lay: lay, Lines: lines, line: 1}
	w.s("{namespace " + f.Namespace)
	if f.Autoescape != "" {
		w.s(` autoescape="` + f.Autoescape + `"`)
	}
	w.s("}\n")
	for _, a := range f.Aliases {
		w.s("{alias " + a + "}\n")
	}
	for _, t := range f.Templates {
		w.s("\n")
		if t.HeaderStyle && len(t.SoydocExtra) > 0 {
			w.s("/**\n")
			for _, p := range t.SoydocExtra {
				w.s(" * @param " + p.Name + " desc\n")
			}
			w.s(" */\n")
		}
		if !t.HeaderStyle && !t.NoDoc {
			w.s("/**\n")
			for _, p := range t.Params {
				// (a third of the declarations carry no description: the name is then the last thing on the line)
				desc := " desc"
				if (w.line+len(p.Name))%3 == 0 {
					desc = ""
				} else if (w.line+len(p.Name))%7 == 1 {
					desc = " several words, and a {brace}  "
				}
				if p.Optional {
					w.s(" * @param? " + p.Name + desc + "\n")
				} else {
					w.s(" * @param " + p.Name + desc + "\n")
				}
			}
			w.s(" */\n")
		}
		if lines != nil {
			lines[t] = w.line
		}
		w.s("{template ." + t.Name)
		if t.Autoescape != "" {
			w.s(` autoescape="` + t.Autoescape + `"`)
		}
		if t.Private {
			w.s(` private="true"`)
		} else if w.variant(3) == 1 {
			w.s(` private="false"`)
		}
		w.s(kinds[w.variant(len(kinds))])
		w.s("}\n")
		if t.HeaderStyle {
			for _, p := range t.Params {
				ty := p.TypeSrc
				if ty == "" {
					ty = "?"
				}
				if p.DefaultSrc != "" {
					ty += " = " + p.DefaultSrc
				}
				if p.Optional {
					w.s("{@param? " + p.Name + ": " + ty + "}\n")
				} else {
					w.s("{@param " + p.Name + ": " + ty + "}\n")
				}
			}
		}
		if lay.Multiline {
			w.indent = 0
			w.block(t.Body)
			w.s("\n")
		} else {
			w.nodes(t.Body)
			w.s("\n")
		}
		w.s("{/template}\n")
	}
	return w.b.String()
}
