package ref

import (
	"fmt"
	"strconv"
	"strings"
)

// ---- the official Soy message fingerprint (SoyMsgIdComputer), re-implemented

func mix(a, b, c uint32) (uint32, uint32, uint32) {
	a -= b
	a -= c
	a ^= c >> 13
	b -= c
	b -= a
	b ^= a << 8
	c -= a
	c -= b
	c ^= b >> 13
	a -= b
	a -= c
	a ^= c >> 12
	b -= c
	b -= a
	b ^= a << 16
	c -= a
	c -= b
	c ^= b >> 5
	a -= b
	a -= c
	a ^= c >> 3
	b -= c
	b -= a
	b ^= a << 10
	c -= a
	c -= b
	c ^= b >> 15
	return a, b, c
}

func word(b []byte) uint32 {
	var w uint32
	for i := 0; i < len(b) && i < 4; i++ {
		w |= uint32(b[i]) << (8 * uint(i))
	}
	return w
}

func hash32(s []byte, seed uint32) uint32 {
	a, b, c := uint32(0x9e3779b9), uint32(0x9e3779b9), seed
	rest := s
	for len(rest) >= 12 {
		a += word(rest[0:4])
		b += word(rest[4:8])
		c += word(rest[8:12])
		a, b, c = mix(a, b, c)
		rest = rest[12:]
	}
	c += uint32(len(s))
	// the first byte of c is reserved for the length: bytes 8..10 of the tail go to the upper three bytes of c
	var ta, tb, tc [4]byte
	for i, x := range rest {
		switch {
		case i < 4:
			ta[i] = x
		case i < 8:
			tb[i-4] = x
		default:
			tc[i-8+1] = x
		}
	}
	a += word(ta[:])
	b += word(tb[:])
	c += word(tc[:])
	_, _, c = mix(a, b, c)
	return c
}

// Fingerprint is the 64-bit fingerprint of a string.
func Fingerprint(s string) uint64 {
	hi := hash32([]byte(s), 0)
	lo := hash32([]byte(s), 102072)
	if hi == 0 && (lo == 0 || lo == 1) {
		hi ^= 0x130f9bef
		lo ^= 0x94a0a928
	}
	return uint64(hi)<<32 | uint64(lo)
}

// MsgIDOf computes the id from the content string and the meaning.
func MsgIDOf(content, meaning string) uint64 {
	fp := Fingerprint(content)
	if meaning != "" {
		top := uint64(0)
		if fp&(1<<63) != 0 {
			top = 1
		}
		fp = (fp << 1) + top + Fingerprint(meaning)
	}
	return fp & 0x7fffffffffffffff
}

// SelfTestMsgID checks the re-implementation against ids produced by the
// official extractor (quoted in the repository's tests).
func SelfTestMsgID() string {
	vec := []struct {
		meaning, content string
		id               uint64
	}{
		{"noun", "Archive", 7224011416745566687},
		{"verb", "Archive", 4826315192146469447},
		{"", "A trip was taken.", 3329840836245051515},
		{"", "Your favorite keyword", 2209690285855487595},
		{"", "Help", 7911416166208830577},
		{"", "NAME took a trip to DESTINATION.", 768490705511913603},
		{"", "PI is nowhere near the value of pi.", 889614911019327165},
		{"", "NAME took a trip.", 3179387603303514412},
		{"", "The set of SET_NAME is {XXX, ...}.", 135956960462609535},
		{"", "{EGGS_1,plural,=1{You have one egg}other{You have {EGGS_2} eggs}}", 176798647517908084},
	}
	for _, v := range vec {
		if got := MsgIDOf(v.content, v.meaning); got != v.id {
			return fmt.Sprintf("reference message id self-test failed: (%q,%q) = %d, official %d", v.meaning, v.content, got, v.id)
		}
	}
	return ""
}

// ---- placeholder naming

// UpperUnderscore converts an identifier to UPPER_UNDERSCORE.
func UpperUnderscore(s string) string {
	s = strings.Trim(s, "_")
	var b strings.Builder
	rs := []rune(s)
	isL := func(r rune) bool { return r >= 'a' && r <= 'z' || r >= 'A' && r <= 'Z' }
	isU := func(r rune) bool { return r >= 'A' && r <= 'Z' }
	isLo := func(r rune) bool { return r >= 'a' && r <= 'z' }
	isD := func(r rune) bool { return r >= '0' && r <= '9' }
	for i, r := range rs {
		if i > 0 {
			p := rs[i-1]
			switch {
			case isL(p) && isU(r) && i+1 < len(rs) && isLo(rs[i+1]):
				b.WriteByte('_')
			case isL(p) && isD(r), isD(p) && isL(r):
				b.WriteByte('_')
			}
		}
		b.WriteRune(r)
	}
	// runs of underscores inside the identifier count as one
	out := b.String()
	for strings.Contains(out, "__") {
		out = strings.ReplaceAll(out, "__", "_")
	}
	return strings.ToUpper(out)
}

var htmlPretty = map[string]string{"a": "link", "br": "break", "b": "bold", "i": "italic", "li": "item", "ol": "ordered_list", "ul": "unordered_list", "p": "paragraph", "img": "image", "em": "emphasis"}

func tagBase(tag string) string {
	typ := "START_"
	switch {
	case strings.HasPrefix(tag, "</"):
		typ = "END_"
	case strings.HasSuffix(tag, "/>"):
		typ = ""
	}
	t := strings.TrimPrefix(strings.TrimPrefix(tag, "<"), "/")
	n := 0
	for n < len(t) && isAlnum(t[n]) {
		n++
	}
	name := strings.ToLower(t[:n])
	if p, ok := htmlPretty[name]; ok {
		name = p
	}
	return UpperUnderscore(typ + name)
}

func exprBase(e Expr, dflt string) string {
	switch e := e.(type) {
	case *DataRef:
		if len(e.Acc) == 0 {
			return UpperUnderscore(e.Name)
		}
		last := e.Acc[len(e.Acc)-1]
		if last.Kind == 0 {
			return UpperUnderscore(last.Key)
		}
	}
	return dflt
}

// MsgInfo is what the message model computes for one message.
type MsgInfo struct {
	ID        uint64
	PhString  string // braced placeholder string
	Names     map[Node]string
	TagNames  map[string]string // html tag text -> placeholder name
	PluralVar string
	Ambiguous bool     // the official naming is not pinned down for this message (colliding generated names)
	Order     []string // placeholder names in order of first appearance
}

type phItem struct {
	base   string
	ident  string // identity: two placeholders with equal base and ident are the same placeholder
	node   Node
	tag    string
	plural *Plural
}

// ModelMsg applies the official naming and id algorithm to a message tree.
func ModelMsg(m *Msg) *MsgInfo {
	info := &MsgInfo{Names: map[Node]string{}, TagNames: map[string]string{}}
	var queue []phItem
	ncalls := 0
	var scan func(ns []Node) []phItem
	scan = func(ns []Node) []phItem {
		var out []phItem
		for _, c := range ns {
			switch c := c.(type) {
			case *Raw:
				for _, p := range SplitMsgText(c.Text) {
					if p.Tag {
						out = append(out, phItem{base: tagBase(p.Text), ident: "tag:" + p.Text, tag: p.Text})
					}
				}
			case *Special:
				// a special-character command is message text
			case *Print:
				out = append(out, phItem{base: exprBase(c.E, "XXX"), ident: "print:" + printIdent(c), node: c})
			case *Plural:
				out = append(out, phItem{base: exprBase(c.E, "NUM"), ident: "plural", node: c, plural: c})
			default:
				// whether two identical calls are one placeholder or two is not pinned down here: not judged
				ncalls++
				if ncalls > 1 {
					info.Ambiguous = true
				}
				out = append(out, phItem{base: "XXX", ident: fmt.Sprintf("node:%p", c), node: c})
			}
		}
		return out
	}
	queue = scan(m.Body)
	type rep struct{ items []phItem }
	var order []string
	reps := map[string]*rep{}
	equiv := map[int]int{} // queue index -> representative queue index
	var all []phItem
	idxOf := map[string]int{}
	for qi := 0; qi < len(queue); qi++ {
		it := queue[qi]
		all = append(all, it)
		if it.plural != nil {
			for _, pc := range it.plural.Cases {
				queue = append(queue, scan(pc.Body)...)
			}
			queue = append(queue, scan(it.plural.Default)...)
		}
		r, ok := reps[it.base]
		if !ok {
			reps[it.base] = &rep{items: []phItem{it}}
			order = append(order, it.base)
			idxOf[it.base+"\x00"+it.ident] = qi
			continue
		}
		if first, same := idxOf[it.base+"\x00"+it.ident]; same && it.plural == nil {
			equiv[qi] = first
			continue
		}
		r.items = append(r.items, it)
		idxOf[it.base+"\x00"+it.ident] = qi
	}
	// final names, base names in insertion order; a generated name skips every suffix that is
	// itself the base name of a placeholder (official: while (baseNameToRepNodesMap.containsKey(newName)))
	taken := map[string]bool{}
	nameOfIdent := map[string]string{}
	for _, base := range order {
		r := reps[base]
		if len(r.items) == 1 {
			taken[base] = true
			nameOfIdent[base+"\x00"+r.items[0].ident] = base
			continue
		}
		suffix := 1
		for _, it := range r.items {
			for {
				name := base + "_" + strconv.Itoa(suffix)
				suffix++
				if _, isBase := reps[name]; isBase || taken[name] {
					continue
				}
				taken[name] = true
				nameOfIdent[base+"\x00"+it.ident] = name
				break
			}
		}
	}
	for _, it := range all {
		name := nameOfIdent[it.base+"\x00"+it.ident]
		switch {
		case it.plural != nil:
			info.PluralVar = name
			info.Names[it.plural] = name
		case it.tag != "":
			info.TagNames[it.tag] = name
		default:
			info.Names[it.node] = name
		}
	}
	// content strings
	var plain, braced strings.Builder
	seen := map[string]bool{}
	note := func(n string) {
		if !seen[n] {
			seen[n] = true
			info.Order = append(info.Order, n)
		}
	}
	var write func(ns []Node, forceBraces bool, bPlain, bBraced *strings.Builder)
	write = func(ns []Node, forceBraces bool, bPlain, bBraced *strings.Builder) {
		for _, c := range ns {
			switch c := c.(type) {
			case *Raw:
				for _, p := range SplitMsgText(c.Text) {
					if p.Tag {
						n := info.TagNames[p.Text]
						note(n)
						if forceBraces {
							bPlain.WriteString("{" + n + "}")
						} else {
							bPlain.WriteString(n)
						}
						bBraced.WriteString("{" + n + "}")
					} else {
						bPlain.WriteString(p.Text)
						bBraced.WriteString(p.Text)
					}
				}
			case *Special:
				t := map[string]string{"sp": " ", "nil": "", `\n`: "\n", `\r`: "\r", `\t`: "\t", "lb": "{", "rb": "}"}[c.Name]
				bPlain.WriteString(t)
				bBraced.WriteString(t)
			case *Plural:
				head := "{" + info.PluralVar + ",plural,"
				bPlain.WriteString(head)
				bBraced.WriteString(head)
				for _, pc := range c.Cases {
					s := "=" + strconv.Itoa(pc.N) + "{"
					bPlain.WriteString(s)
					bBraced.WriteString(s)
					write(pc.Body, true, bPlain, bBraced)
					bPlain.WriteString("}")
					bBraced.WriteString("}")
				}
				bPlain.WriteString("other{")
				bBraced.WriteString("other{")
				write(c.Default, true, bPlain, bBraced)
				bPlain.WriteString("}}")
				bBraced.WriteString("}}")
			default:
				n := info.Names[c]
				note(n)
				if forceBraces {
					bPlain.WriteString("{" + n + "}")
				} else {
					bPlain.WriteString(n)
				}
				bBraced.WriteString("{" + n + "}")
			}
		}
	}
	write(m.Body, false, &plain, &braced)
	info.PhString = braced.String()
	info.ID = MsgIDOf(plain.String(), m.Meaning)
	return info
}

// printIdent identifies a print placeholder by its source text (expression and directives).
func printIdent(p *Print) string {
	s := Src(p.E, PrintStyle{})
	for _, d := range p.Dirs {
		s += "|" + d.Name
		for _, a := range d.Args {
			s += ":" + Src(a, PrintStyle{})
		}
	}
	return s
}

// Braced returns the braced placeholder string of a list of message parts (a plural case body, or a whole
// non-plural message), using the names of info.
func (info *MsgInfo) Braced(ns []Node) string {
	var b strings.Builder
	for _, c := range ns {
		switch c := c.(type) {
		case *Raw:
			for _, p := range SplitMsgText(c.Text) {
				if p.Tag {
					b.WriteString("{" + info.TagNames[p.Text] + "}")
				} else {
					b.WriteString(p.Text)
				}
			}
		case *Special:
			b.WriteString(map[string]string{"sp": " ", "nil": "", `\n`: "\n", `\r`: "\r", `\t`: "\t", "lb": "{", "rb": "}"}[c.Name])
		case *Plural:
		default:
			b.WriteString("{" + info.Names[c] + "}")
		}
	}
	return b.String()
}

// ParseParts splits a braced placeholder string into text and placeholder parts.
func ParseParts(s string) []TrPart {
	var out []TrPart
	i := 0
	for i < len(s) {
		if s[i] == '{' {
			j := i + 1
			for j < len(s) && (s[j] >= 'A' && s[j] <= 'Z' || s[j] >= '0' && s[j] <= '9' || s[j] == '_') {
				j++
			}
			if j < len(s) && s[j] == '}' && j > i+1 {
				out = append(out, TrPart{Ph: s[i+1 : j]})
				i = j + 1
				continue
			}
		}
		if len(out) > 0 && out[len(out)-1].Ph == "" {
			out[len(out)-1].Text += s[i : i+1]
		} else {
			out = append(out, TrPart{Text: s[i : i+1]})
		}
		i++
	}
	return out
}
