package ref

import "testing"

func TestSelfTestMsgID(t *testing.T) {
	if why := SelfTestMsgID(); why != "" {
		t.Fatal(why)
	}
	if UpperUnderscore("setName") != "SET_NAME" || UpperUnderscore("labsUrl") != "LABS_URL" || UpperUnderscore("x1") != "X_1" || UpperUnderscore("_a__b_") != "A_B" || UpperUnderscore("first___name") != "FIRST_NAME" || UpperUnderscore("isAtEnd") != "IS_AT_END" || UpperUnderscore("HTTPServer2x") != "HTTP_SERVER_2_X" {
		t.Fatal(UpperUnderscore("setName"), UpperUnderscore("labsUrl"), UpperUnderscore("x1"), UpperUnderscore("_a__b_"))
	}
}
