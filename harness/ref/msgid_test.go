package ref

import "testing"

func TestSelfTestMsgID(t *testing.T) {
	if why := SelfTestMsgID(); why != "" {
		t.Fatal(why)
	}
	if UpperUnderscore("setName") != "SET_NAME" || UpperUnderscore("labsUrl") != "LABS_URL" || UpperUnderscore("x1") != "X_1" || UpperUnderscore("_a__b_") != "A__B" {
		t.Fatal(UpperUnderscore("setName"), UpperUnderscore("labsUrl"), UpperUnderscore("x1"), UpperUnderscore("_a__b_"))
	}
}
