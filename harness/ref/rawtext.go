package ref

import "strings"

func isWS(c byte) bool { return c == ' ' || c == '\t' || c == '\r' || c == '\n' }

// RawText is the line-joining rule applied to one run of template text that
// lies between two tags (or the template's boundaries): whitespace runs
// without a line break are kept verbatim; runs with a line break are dropped
// at either end of the run and inside it become nothing when the character
// before or after is '<' or '>', else a single space. Everything else is verbatim.
func RawText(t string) string {
	var b strings.Builder
	i := 0
	for i < len(t) {
		if !isWS(t[i]) {
			b.WriteByte(t[i])
			i++
			continue
		}
		j := i
		brk := false
		for j < len(t) && isWS(t[j]) {
			if t[j] == '\n' || t[j] == '\r' {
				brk = true
			}
			j++
		}
		switch {
		case !brk:
			b.WriteString(t[i:j])
		case i == 0 || j == len(t):
			// at either end of the run: removed
		default:
			before, after := t[i-1], t[j]
			if before == '<' || before == '>' || after == '<' || after == '>' {
				// tight join
			} else {
				b.WriteByte(' ')
			}
		}
		i = j
	}
	return b.String()
}
