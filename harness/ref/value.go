// Package ref holds the reference models: written from the Soy language
// definition and the property statements, importing nothing from the code
// under test, working on the harness's own syntax trees.
package ref

import (
	"math"
	"sort"
	"strconv"
	"strings"
)

type Kind int

const (
	KUndef Kind = iota
	KNull
	KBool
	KInt
	KFloat
	KStr
	KList
	KMap
)

func (k Kind) String() string {
	return [...]string{"undefined", "null", "bool", "int", "float", "string", "list", "map"}[k]
}

// Value is a Soy value. Lists and maps carry an identity so that equality
// "same instance" can be modelled.
type Value struct {
	K    Kind
	B    bool
	I    int64
	F    float64
	S    string
	L    []Value
	Keys []string // map keys in insertion order
	M    map[string]Value
	ID   int  // identity of a list/map instance (0 = fresh, never equal to anything)
	Unor bool // list whose order is unspecified (keys())
}

var (
	Undef = Value{K: KUndef}
	Null  = Value{K: KNull}
)

func Bool(b bool) Value     { return Value{K: KBool, B: b} }
func Int(i int64) Value     { return Value{K: KInt, I: i} }
func Float(f float64) Value { return Value{K: KFloat, F: f} }
func Str(s string) Value    { return Value{K: KStr, S: s} }
func List(l ...Value) Value { return Value{K: KList, L: l} }

// MapOf builds a map value from alternating key, value.
func MapOf(kv ...interface{}) Value {
	v := Value{K: KMap, M: map[string]Value{}}
	for i := 0; i+1 < len(kv); i += 2 {
		k := kv[i].(string)
		if _, ok := v.M[k]; !ok {
			v.Keys = append(v.Keys, k)
		}
		v.M[k] = kv[i+1].(Value)
	}
	return v
}

// Set sets a key on a map value (copy-on-write is the caller's business).
func (v *Value) Set(k string, x Value) {
	if v.M == nil {
		v.M = map[string]Value{}
	}
	if _, ok := v.M[k]; !ok {
		v.Keys = append(v.Keys, k)
	}
	v.M[k] = x
}

func (v Value) IsNum() bool     { return v.K == KInt || v.K == KFloat }
func (v Value) IsNullish() bool { return v.K == KNull || v.K == KUndef }

func (v Value) Num() float64 {
	if v.K == KInt {
		return float64(v.I)
	}
	return v.F
}

// Truthy is the language's truthiness table.
func (v Value) Truthy() bool {
	switch v.K {
	case KUndef, KNull:
		return false
	case KBool:
		return v.B
	case KInt:
		return v.I != 0
	case KFloat:
		return v.F != 0 && !math.IsNaN(v.F)
	case KStr:
		return v.S != ""
	}
	return true
}

// Status of a reference evaluation.
type Status int

const (
	OK  Status = iota
	Err        // the language gives the expression no value: the render must fail
	OOD        // out of domain: the definition is not pinned down; the case is not judged
)

const MaxSafe = int64(1) << 53

// FloatTextLenient makes PrintVal give floats outside the agreed zone some text instead of leaving the
// domain; used by callers that only need to know whether the program has a defined value at all (C04).
var FloatTextLenient bool

// FloatTextOK reports whether every backend agrees on the text of f: dyadic
// rationals of moderate magnitude (and zero).
func FloatTextOK(f float64) bool {
	if f == 0 {
		return !math.Signbit(f)
	}
	if math.IsNaN(f) || math.IsInf(f, 0) {
		return false
	}
	a := math.Abs(f)
	if a < 1.0/8192 || a >= 524288 {
		return false
	}
	// dyadic with at most 13 fractional bits
	s := f * 8192
	return s == math.Trunc(s)
}

// PrintVal renders the value as a print command does. ok=false: out of domain.
func PrintVal(v Value) (s string, st Status) {
	switch v.K {
	case KUndef:
		return "", Err
	case KNull:
		return "null", OK
	case KBool:
		return strconv.FormatBool(v.B), OK
	case KInt:
		return strconv.FormatInt(v.I, 10), OK
	case KFloat:
		if !FloatTextOK(v.F) {
			if FloatTextLenient {
				// only the spelling is open: let the evaluation go on, so that what follows is still checked
				return strconv.FormatFloat(v.F, 'g', -1, 64), OK
			}
			return "", OOD
		}
		return strconv.FormatFloat(v.F, 'f', -1, 64), OK
	case KStr:
		return v.S, OK
	case KList:
		if v.Unor && len(v.L) > 1 {
			return "", OOD
		}
		parts := make([]string, len(v.L))
		for i, x := range v.L {
			p, st := PrintVal(x)
			if st == Err {
				return "", OOD // a list holding undefined: not pinned down
			}
			if st != OK {
				return "", st
			}
			parts[i] = p
		}
		return "[" + strings.Join(parts, ", ") + "]", OK
	case KMap:
		if len(v.Keys) > 1 {
			return "", OOD // the language fixes no order
		}
		parts := make([]string, 0, 1)
		for _, k := range v.Keys {
			p, st := PrintVal(v.M[k])
			if st != OK {
				return "", OOD
			}
			parts = append(parts, k+": "+p)
		}
		return "{" + strings.Join(parts, ", ") + "}", OK
	}
	return "", OOD
}

// Equal is == : same-kind primitives by value, int/float numerically, lists
// and maps by identity; anything else unequal.
func Equal(a, b Value) (eq bool, st Status) {
	if a.K == KUndef || b.K == KUndef {
		return false, OOD
	}
	if a.IsNum() && b.IsNum() {
		if a.K == KInt && b.K == KInt {
			return a.I == b.I, OK
		}
		return a.Num() == b.Num(), OK
	}
	if a.K != b.K {
		return false, OK
	}
	switch a.K {
	case KNull:
		return true, OK
	case KBool:
		return a.B == b.B, OK
	case KStr:
		return a.S == b.S, OK
	case KList, KMap:
		if a.ID != 0 && a.ID == b.ID {
			return true, OK
		}
		if a.ID != 0 && b.ID != 0 {
			return false, OK
		}
		return false, OOD
	}
	return false, OOD
}

// SortedKeys returns map keys sorted.
func (v Value) SortedKeys() []string {
	ks := append([]string{}, v.Keys...)
	sort.Strings(ks)
	return ks
}

// ToGo converts to plain Go data (for handing to the code under test and to JSON).
func (v Value) ToGo() interface{} {
	switch v.K {
	case KNull, KUndef:
		return nil
	case KBool:
		return v.B
	case KInt:
		return v.I
	case KFloat:
		return v.F
	case KStr:
		return v.S
	case KList:
		out := make([]interface{}, len(v.L))
		for i, x := range v.L {
			out[i] = x.ToGo()
		}
		return out
	case KMap:
		out := map[string]interface{}{}
		for _, k := range v.Keys {
			out[k] = v.M[k].ToGo()
		}
		return out
	}
	return nil
}
