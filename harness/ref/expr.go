package ref

import (
	"fmt"
	"math"
	"math/big"
	"strconv"
	"strings"
)

// ---- expression trees (the harness's own; the real parser only ever sees printed text)

type Expr interface{}

type Lit struct {
	V   Value
	Src string // source form override (hex ints, exponent floats); "" = canonical
}
type DataRef struct {
	Name string // variable name without $ ("ij" for injected data)
	Acc  []Acc
}
type Acc struct {
	Kind     int // 0 .key   1 .N   2 [expr]
	NullSafe bool
	Key      string
	Index    int
	Arg      Expr
}
type Unary struct {
	Op string // "-" | "not"
	X  Expr
}
type Binary struct {
	Op   string
	L, R Expr
}
type Tern struct{ C, A, B Expr }
type Call struct {
	Fn   string
	Args []Expr
}
type ListLit struct{ Items []Expr }
type MapLit struct {
	Keys []string
	Vals []Expr
}
type Global struct{ Name string }
type Paren struct{ X Expr } // explicit redundant parentheses

// Prec is the official Soy precedence table (higher binds tighter).
func Prec(op string) int {
	switch op {
	case "?:", "?":
		return 1
	case "or":
		return 2
	case "and":
		return 3
	case "==", "!=":
		return 4
	case "<", ">", "<=", ">=":
		return 5
	case "+", "-":
		return 6
	case "*", "/", "%":
		return 7
	case "neg", "not":
		return 8
	}
	return 9
}

var BinaryOps = []string{"*", "/", "%", "+", "-", "<", ">", "<=", ">=", "==", "!=", "and", "or", "?:"}

func exprPrec(e Expr) int {
	switch e := e.(type) {
	case *Binary:
		return Prec(e.Op)
	case *Tern:
		return 1
	case *Unary:
		return 8
	case *Lit:
		// negative literals behave like a unary minus for printing purposes
		if (e.V.K == KInt && e.V.I < 0) || (e.V.K == KFloat && (e.V.F < 0 || math.Signbit(e.V.F))) {
			return 8
		}
	}
	return 9
}

// PrintStyle controls whitespace in printed source.
type PrintStyle struct {
	Tight         bool // no spaces around symbolic operators where the grammar allows
	Wide          bool // extra spaces
	TrailingComma bool // list and map literals end with the trailing comma the grammar allows
}

// QuoteSoy writes a Soy string literal (single quotes).
func QuoteSoy(s string) string {
	var b strings.Builder
	b.WriteByte('\'')
	for _, r := range s {
		switch r {
		case '\\':
			b.WriteString(`\\`)
		case '\'':
			b.WriteString(`\'`)
		case '\n':
			b.WriteString(`\n`)
		case '\r':
			b.WriteString(`\r`)
		case '\t':
			b.WriteString(`\t`)
		case '\b':
			b.WriteString(`\b`)
		case '\f':
			b.WriteString(`\f`)
		default:
			b.WriteRune(r)
		}
	}
	b.WriteByte('\'')
	return b.String()
}

// LitSrc is the canonical source text of a literal value.
func LitSrc(v Value) string {
	switch v.K {
	case KNull:
		return "null"
	case KBool:
		return strconv.FormatBool(v.B)
	case KInt:
		return strconv.FormatInt(v.I, 10)
	case KFloat:
		s := strconv.FormatFloat(v.F, 'f', -1, 64)
		if !strings.Contains(s, ".") {
			s += ".0"
		}
		return s
	case KStr:
		return QuoteSoy(v.S)
	}
	panic("LitSrc: not a literal kind: " + v.K.String())
}

// Src prints the expression as Soy source with exactly the parentheses the
// official precedence table requires (plus explicit Paren nodes).
func Src(e Expr, st PrintStyle) string {
	var b strings.Builder
	writeExpr(&b, e, st)
	return b.String()
}

func sp(st PrintStyle) string {
	if st.Tight {
		return ""
	}
	if st.Wide {
		return "  "
	}
	return " "
}

func writeChild(b *strings.Builder, child Expr, minPrec int, st PrintStyle) {
	if exprPrec(child) < minPrec {
		b.WriteString("(")
		writeExpr(b, child, st)
		b.WriteString(")")
		return
	}
	writeExpr(b, child, st)
}

func writeExpr(b *strings.Builder, e Expr, st PrintStyle) {
	switch e := e.(type) {
	case *Lit:
		if e.Src != "" {
			b.WriteString(e.Src)
		} else {
			b.WriteString(LitSrc(e.V))
		}
	case *Global:
		b.WriteString(e.Name)
	case *Paren:
		b.WriteString("(")
		writeExpr(b, e.X, st)
		b.WriteString(")")
	case *DataRef:
		b.WriteString("$" + e.Name)
		for _, a := range e.Acc {
			q := ""
			if a.NullSafe {
				q = "?"
			}
			switch a.Kind {
			case 0:
				b.WriteString(q + "." + a.Key)
			case 1:
				b.WriteString(q + "." + strconv.Itoa(a.Index))
			case 2:
				b.WriteString(q + "[")
				writeExpr(b, a.Arg, st)
				b.WriteString("]")
			}
		}
	case *Unary:
		if e.Op == "not" {
			b.WriteString("not ")
		} else {
			b.WriteString("-")
			// "- -1" must not become "--1"? Soy has no -- operator; both lex fine, keep a space for readability of nested negatives
			if exprPrec(e.X) == 8 {
				if _, isLit := e.X.(*Lit); isLit || isNeg(e.X) {
					b.WriteString(" ")
				}
			}
		}
		if l, ok := e.X.(*Lit); ok && strings.HasPrefix(l.Src, "0x") {
			// written with parentheses (the form without them, -0x1F, is valid too: the minus is the unary operator;
			// C01 has cells of its own for it, see the known finding)
			b.WriteString("(" + l.Src + ")")
			return
		}
		writeChild(b, e.X, 8, st)
	case *Binary:
		p := Prec(e.Op)
		// left-associative: left child may have equal precedence, right child must bind tighter
		lp, rp := p, p+1
		if e.Op == "?:" {
			// ?: shares its level with the ternary and groups to the right: whatever is on its right belongs to
			// it, and a ?: or a ternary on its left needs parentheses
			lp, rp = 2, 1
		}
		writeChild(b, e.L, lp, st)
		s := sp(st)
		if e.Op == "and" || e.Op == "or" {
			s = " "
			if st.Wide {
				s = "  "
			}
		}
		b.WriteString(s + e.Op + s)
		// a tight binary minus followed by a negative literal would still lex fine ("1--1"), keep it
		writeChild(b, e.R, rp, st)
	case *Tern:
		// the condition binds tighter than the level of ?: and the ternary; the other two operands are whole
		// expressions (a ternary or a ?: between ? and :, or after the :, needs no parentheses)
		writeChild(b, e.C, 2, st)
		b.WriteString(" ? ")
		writeExpr(b, e.A, st)
		b.WriteString(" : ")
		writeExpr(b, e.B, st)
	case *Call:
		b.WriteString(e.Fn + "(")
		for i, a := range e.Args {
			if i > 0 {
				b.WriteString("," + sp(st))
			}
			writeExpr(b, a, st)
		}
		b.WriteString(")")
	case *ListLit:
		b.WriteString("[")
		for i, a := range e.Items {
			if i > 0 {
				b.WriteString("," + sp(st))
			}
			writeExpr(b, a, st)
		}
		if st.TrailingComma && len(e.Items) > 0 {
			b.WriteString(",")
		}
		b.WriteString("]")
	case *MapLit:
		if len(e.Keys) == 0 {
			b.WriteString("[:]")
			return
		}
		b.WriteString("[")
		for i, k := range e.Keys {
			if i > 0 {
				b.WriteString("," + sp(st))
			}
			b.WriteString(QuoteSoy(k) + ":" + sp(st))
			writeExpr(b, e.Vals[i], st)
		}
		if st.TrailingComma {
			b.WriteString("," + sp(st))
		}
		b.WriteString("]")
	default:
		panic(fmt.Sprintf("writeExpr: %T", e))
	}
}

func isNeg(e Expr) bool {
	u, ok := e.(*Unary)
	return ok && u.Op == "-"
}

// ---- evaluation

// Env is the evaluation environment.
type Env struct {
	Vars    []map[string]Value // innermost last
	IJ      *Value             // nil: no injected data
	Globals map[string]Value
	Loops   []loopInfo
	nextID  *int
}

type loopInfo struct {
	Var         string
	Index, Last int
}

func NewEnv(data map[string]Value, ij *Value, globals map[string]Value) *Env {
	n := 1 << 20
	return &Env{Vars: []map[string]Value{data}, IJ: ij, Globals: globals, nextID: &n}
}

func (e *Env) Push() { e.Vars = append(e.Vars, map[string]Value{}) }
func (e *Env) Pop()  { e.Vars = e.Vars[:len(e.Vars)-1] }
func (e *Env) Set(k string, v Value) {
	e.Vars[len(e.Vars)-1][k] = v
}
func (e *Env) Lookup(k string) (Value, bool) {
	for i := len(e.Vars) - 1; i >= 0; i-- {
		if v, ok := e.Vars[i][k]; ok {
			return v, true
		}
	}
	return Undef, false
}
func (e *Env) fresh() int { *e.nextID++; return *e.nextID }

// Eval evaluates the expression per the language definition.
func Eval(x Expr, env *Env) (Value, Status) {
	switch x := x.(type) {
	case *Lit:
		return x.V, OK
	case *Paren:
		return Eval(x.X, env)
	case *Global:
		v, ok := env.Globals[x.Name]
		if !ok {
			return Undef, OOD
		}
		return v, OK
	case *ListLit:
		out := Value{K: KList, ID: env.fresh()}
		for _, it := range x.Items {
			v, st := Eval(it, env)
			if st != OK {
				return Undef, st
			}
			out.L = append(out.L, v)
		}
		return out, OK
	case *MapLit:
		out := Value{K: KMap, M: map[string]Value{}, ID: env.fresh()}
		for i, k := range x.Keys {
			v, st := Eval(x.Vals[i], env)
			if st != OK {
				return Undef, st
			}
			out.Set(k, v)
		}
		return out, OK
	case *DataRef:
		return evalRef(x, env)
	case *Unary:
		v, st := Eval(x.X, env)
		if st != OK {
			return Undef, st
		}
		if x.Op == "not" {
			return Bool(!v.Truthy()), OK
		}
		switch v.K {
		case KInt:
			return Int(-v.I), OK
		case KFloat:
			return Float(-v.F), OK
		case KUndef:
			return Undef, Err
		}
		return Undef, OOD // negating a non-number: ill-typed
	case *Tern:
		c, st := Eval(x.C, env)
		if st != OK {
			return Undef, st
		}
		if c.Truthy() {
			return Eval(x.A, env)
		}
		return Eval(x.B, env)
	case *Binary:
		return evalBinary(x, env)
	case *Call:
		return evalCall(x, env)
	}
	panic(fmt.Sprintf("Eval: %T", x))
}

func evalRef(x *DataRef, env *Env) (Value, Status) {
	var cur Value
	if x.Name == "ij" {
		if env.IJ == nil {
			return Undef, Err
		}
		cur = *env.IJ
	} else {
		v, _ := env.Lookup(x.Name)
		cur = v
	}
	for _, a := range x.Acc {
		// resolve the key first (the argument expression is evaluated even if the base is null)
		var key Value
		switch a.Kind {
		case 0:
			key = Str(a.Key)
		case 1:
			key = Int(int64(a.Index))
		case 2:
			k, st := Eval(a.Arg, env)
			if st != OK {
				return Undef, st
			}
			key = k
		}
		switch cur.K {
		case KUndef, KNull:
			if a.NullSafe {
				return Null, OK // null for the whole remaining chain
			}
			return Undef, Err
		case KList:
			if key.K != KInt {
				return Undef, OOD
			}
			if key.I < 0 {
				return Undef, OOD
			}
			if key.I >= int64(len(cur.L)) {
				cur = Undef
			} else {
				if cur.Unor && len(cur.L) > 1 {
					return Undef, OOD
				}
				cur = cur.L[key.I]
			}
		case KMap:
			if key.K != KStr || key.S == "" {
				return Undef, OOD
			}
			v, ok := cur.M[key.S]
			if !ok {
				cur = Undef
			} else {
				cur = v
			}
		default:
			return Undef, Err // indexing a non-collection
		}
	}
	return cur, OK
}

func safeInt(f float64) bool { return math.Abs(f) <= float64(MaxSafe) }

func evalBinary(x *Binary, env *Env) (Value, Status) {
	switch x.Op {
	case "and":
		l, st := Eval(x.L, env)
		if st != OK {
			return Undef, st
		}
		if !l.Truthy() {
			return Bool(false), OK
		}
		r, st := Eval(x.R, env)
		if st != OK {
			return Undef, st
		}
		return Bool(r.Truthy()), OK
	case "or":
		l, st := Eval(x.L, env)
		if st != OK {
			return Undef, st
		}
		if l.Truthy() {
			return Bool(true), OK
		}
		r, st := Eval(x.R, env)
		if st != OK {
			return Undef, st
		}
		return Bool(r.Truthy()), OK
	case "?:":
		l, st := Eval(x.L, env)
		if st != OK {
			return Undef, st
		}
		if !l.IsNullish() {
			return l, OK
		}
		return Eval(x.R, env)
	}
	l, st := Eval(x.L, env)
	if st != OK {
		return Undef, st
	}
	r, st := Eval(x.R, env)
	if st != OK {
		return Undef, st
	}
	switch x.Op {
	case "==", "!=":
		eq, st := Equal(l, r)
		if st != OK {
			return Undef, st
		}
		return Bool(eq == (x.Op == "==")), OK
	case "<", ">", "<=", ">=":
		if !l.IsNum() || !r.IsNum() {
			return Undef, Err // ordering non-numbers
		}
		// an ordering with NaN on either side is false (IEEE 754; both official backends agree)
		a, b := l.Num(), r.Num()
		var res bool
		switch x.Op {
		case "<":
			res = a < b
		case ">":
			res = a > b
		case "<=":
			res = a <= b
		case ">=":
			res = a >= b
		}
		return Bool(res), OK
	case "+":
		if l.K == KStr || r.K == KStr {
			if l.K == KUndef || r.K == KUndef {
				return Undef, Err
			}
			ls, st1 := PrintVal(l)
			rs, st2 := PrintVal(r)
			if st1 != OK || st2 != OK {
				return Undef, OOD
			}
			return Str(ls + rs), OK
		}
		fallthrough
	case "-", "*":
		if l.K == KUndef || r.K == KUndef {
			return Undef, Err
		}
		if !l.IsNum() || !r.IsNum() {
			return Undef, OOD // ill-typed
		}
		if l.K == KInt && r.K == KInt {
			a, b := big.NewInt(l.I), big.NewInt(r.I)
			res := new(big.Int)
			switch x.Op {
			case "+":
				res.Add(a, b)
			case "-":
				res.Sub(a, b)
			case "*":
				res.Mul(a, b)
			}
			// exact integers only up to 2^53 - 1 (beyond that the backends disagree)
			if !res.IsInt64() || res.Int64() >= MaxSafe || res.Int64() <= -MaxSafe || l.I >= MaxSafe || l.I <= -MaxSafe || r.I >= MaxSafe || r.I <= -MaxSafe {
				return Undef, OOD
			}
			return Int(res.Int64()), OK
		}
		var f float64
		switch x.Op {
		case "+":
			f = l.Num() + r.Num()
		case "-":
			f = l.Num() - r.Num()
		case "*":
			f = l.Num() * r.Num()
		}
		if (math.IsNaN(f) || math.IsInf(f, 0)) && !NonFinite {
			return Undef, OOD
		}
		return Float(f), OK
	case "/":
		if l.K == KUndef || r.K == KUndef {
			return Undef, Err
		}
		if !l.IsNum() || !r.IsNum() {
			return Undef, OOD
		}
		if r.Num() == 0 && !NonFinite {
			return Undef, OOD
		}
		f := l.Num() / r.Num()
		if (math.IsNaN(f) || math.IsInf(f, 0)) && !NonFinite {
			return Undef, OOD
		}
		return Float(f), OK
	case "%":
		if l.K == KUndef || r.K == KUndef {
			return Undef, Err
		}
		if l.K != KInt || r.K != KInt || r.I == 0 {
			return Undef, OOD
		}
		return Int(l.I % r.I), OK
	}
	panic("evalBinary: " + x.Op)
}

// NonFinite makes division by zero and overflowing float arithmetic yield the
// IEEE 754 values (both official backends do) instead of leaving the domain.
// Their text stays out of the domain (PrintVal), so only comparisons,
// equality, truthiness and the operators built on them see them. Set by C01.
var NonFinite bool

func evalCall(x *Call, env *Env) (Value, Status) {
	switch x.Fn {
	case "index", "isFirst", "isLast":
		if len(x.Args) != 1 {
			return Undef, OOD
		}
		dr, ok := x.Args[0].(*DataRef)
		if !ok || len(dr.Acc) != 0 {
			return Undef, OOD
		}
		for i := len(env.Loops) - 1; i >= 0; i-- {
			if env.Loops[i].Var == dr.Name {
				switch x.Fn {
				case "index":
					return Int(int64(env.Loops[i].Index)), OK
				case "isFirst":
					return Bool(env.Loops[i].Index == 0), OK
				default:
					return Bool(env.Loops[i].Index == env.Loops[i].Last), OK
				}
			}
		}
		return Undef, OOD
	}
	args := make([]Value, len(x.Args))
	for i, a := range x.Args {
		v, st := Eval(a, env)
		if st != OK {
			return Undef, st
		}
		args[i] = v
	}
	for _, a := range args {
		if a.K == KFloat && (math.IsNaN(a.F) || math.IsInf(a.F, 0)) && x.Fn != "isNonnull" {
			return Undef, OOD // functions of non-finite numbers are not modelled
		}
	}
	num := func(i int) bool { return i < len(args) && args[i].IsNum() }
	switch x.Fn {
	case "hasData":
		if len(args) != 0 {
			return Undef, OOD
		}
		return Bool(true), OK
	case "isNonnull":
		if len(args) != 1 {
			return Undef, OOD
		}
		return Bool(!args[0].IsNullish()), OK
	case "length":
		if len(args) != 1 || args[0].K != KList {
			return Undef, OOD
		}
		return Int(int64(len(args[0].L))), OK
	case "keys":
		if len(args) != 1 || args[0].K != KMap {
			return Undef, OOD
		}
		out := Value{K: KList, ID: env.fresh(), Unor: true}
		for _, k := range args[0].Keys {
			out.L = append(out.L, Str(k))
		}
		return out, OK
	case "augmentMap":
		if len(args) != 2 || args[0].K != KMap || args[1].K != KMap {
			return Undef, OOD
		}
		out := Value{K: KMap, M: map[string]Value{}, ID: env.fresh()}
		for _, k := range args[0].Keys {
			out.Set(k, args[0].M[k])
		}
		for _, k := range args[1].Keys {
			out.Set(k, args[1].M[k])
		}
		return out, OK
	case "round":
		if len(args) < 1 || len(args) > 2 || !num(0) {
			return Undef, OOD
		}
		n := int64(0)
		if len(args) == 2 {
			if args[1].K != KInt || args[1].I < -6 || args[1].I > 6 {
				return Undef, OOD
			}
			n = args[1].I
		}
		if !safeInt(args[0].Num() * 1e6) {
			return Undef, OOD
		}
		pow := math.Pow(10, float64(n))
		if sc := args[0].Num() * pow; sc < 0 && sc-math.Floor(sc) == 0.5 {
			// negative half-way cases: the backends disagree (Math.round rounds up, the Go
			// renderer's pinned tests round away from zero) - not judged here, see C04's finding
			return Undef, OOD
		}
		// half-way cases round up (Math.round in both the Java and the JavaScript backend)
		r := math.Floor(args[0].Num()*pow+0.5) / pow
		if n <= 0 {
			return Int(int64(r)), OK
		}
		return Float(r), OK
	case "floor", "ceiling":
		if len(args) != 1 || !num(0) || !safeInt(args[0].Num()) {
			return Undef, OOD
		}
		if args[0].K == KInt {
			return args[0], OK
		}
		if x.Fn == "floor" {
			return Int(int64(math.Floor(args[0].F))), OK
		}
		return Int(int64(math.Ceil(args[0].F))), OK
	case "min", "max":
		if len(args) != 2 || !num(0) || !num(1) {
			return Undef, OOD
		}
		if args[0].K == KInt && args[1].K == KInt {
			a, b := args[0].I, args[1].I
			if (x.Fn == "min") == (a < b) {
				return Int(a), OK
			}
			return Int(b), OK
		}
		if x.Fn == "min" {
			return Float(math.Min(args[0].Num(), args[1].Num())), OK
		}
		return Float(math.Max(args[0].Num(), args[1].Num())), OK
	case "strContains":
		if len(args) != 2 || args[0].K != KStr || args[1].K != KStr {
			return Undef, OOD
		}
		return Bool(strings.Contains(args[0].S, args[1].S)), OK
	case "randomInt":
		return Undef, OOD // checked separately (0 <= r < n)
	case "range":
		var init, limit, step int64 = 0, 0, 1
		for _, a := range args {
			if a.K != KInt {
				return Undef, OOD
			}
		}
		switch len(args) {
		case 1:
			limit = args[0].I
		case 2:
			init, limit = args[0].I, args[1].I
		case 3:
			init, limit, step = args[0].I, args[1].I, args[2].I
		default:
			return Undef, OOD
		}
		if step <= 0 || limit-init > 100000 {
			return Undef, OOD
		}
		out := Value{K: KList, ID: env.fresh()}
		for i := init; i < limit; i += step {
			out.L = append(out.L, Int(i))
		}
		return out, OK
	}
	return Undef, OOD
}
