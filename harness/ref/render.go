package ref

import (
	"fmt"
	"strings"
	"unicode/utf8"
)

// Seg is a piece of expected output with its provenance.
type Seg struct {
	Text string
	Prov string // text | escaped | unescaped | markup | css | msgtext | msgtag | special | literal
	Node string // node kind that wrote it
}

// Translation of one message: parts are text or placeholder names; plural
// translations carry one part list per plural form.
type TrPart struct {
	Text string
	Ph   string // placeholder name (when non-empty)
}
type Translation struct {
	Parts  []TrPart
	Plural [][]TrPart // non-nil for plural messages
}

// RenderOpts configures a reference render.
type RenderOpts struct {
	IJ *Value
	// Translate returns the translation for a message, or nil for "absent".
	Translate func(m *Msg) *Translation
	// PluralIndex selects the plural form for n (locale rule).
	PluralIndex func(n int) int
	// PhName names the placeholder a message child gets (set by the message model).
	PhName   func(m *Msg, child Node) string
	MaxSteps int
	// Notes, if set, receives facts the comparison needs (e.g. that break opportunities were inserted).
	Notes *RenderNotes
}

// RenderNotes are side results of a reference render.
type RenderNotes struct {
	Wbr bool // an insertWordBreaks directive ran: <wbr> positions are not modelled, compare with <wbr> removed
}

type renderer struct {
	b     *Bundle
	opts  RenderOpts
	out   *[]Seg
	steps int
	bytes int  // text emitted so far, content blocks included
	big   bool // more than maxRefOutput: the render is abandoned as out of domain
}

// maxRefOutput bounds what the reference renders: loops and content blocks multiply, and a generated program whose
// output runs to tens of megabytes is outside every budget of the process monitors (it is not judged).
const maxRefOutput = 8 << 20

type rstate struct {
	env        *Env
	params     []map[string]Value // passed data + explicit params (what data="all" forwards)
	autoescape bool
	file       *File
}

// Render renders the entry template per the language definition. It returns
// the segments written before the first error, and the status.
func Render(b *Bundle, entry string, data map[string]Value, opts RenderOpts) ([]Seg, Status) {
	var out []Seg
	r := &renderer{b: b, opts: opts, out: &out}
	if r.opts.MaxSteps == 0 {
		r.opts.MaxSteps = 2000000
	}
	f, t := b.Find(entry)
	if t == nil {
		return nil, OOD
	}
	st := r.template(f, t, []map[string]Value{data})
	return out, st
}

// Text concatenates segments.
func Text(segs []Seg) string {
	var b strings.Builder
	for _, s := range segs {
		b.WriteString(s.Text)
	}
	return b.String()
}

// EffectiveAutoescape reports whether prints in the template are autoescaped.
func EffectiveAutoescape(f *File, t *Template) bool {
	mode := f.Autoescape
	if t.Autoescape != "" {
		mode = t.Autoescape
	}
	return mode != "false"
}

func (r *renderer) template(f *File, t *Template, passed []map[string]Value) Status {
	env := &Env{IJ: r.opts.IJ, Globals: r.b.Globals}
	n := 1 << 20
	env.nextID = &n
	env.Vars = append(env.Vars, passed...)
	env.Push() // the template's own block
	s := &rstate{env: env, params: passed, autoescape: EffectiveAutoescape(f, t), file: f}
	return r.block(s, t.Body, false)
}

func (r *renderer) emit(text, prov, node string) {
	if text == "" {
		return
	}
	if r.bytes += len(text); r.bytes > maxRefOutput {
		r.big = true
		return
	}
	*r.out = append(*r.out, Seg{text, prov, node})
}

// block renders a body in its own lexical scope.
func (r *renderer) block(s *rstate, ns []Node, newScope bool) Status {
	if newScope {
		s.env.Push()
		defer s.env.Pop()
	}
	for _, n := range ns {
		if st := r.node(s, n); st != OK {
			return st
		}
		if r.big {
			return OOD
		}
	}
	return OK
}

// capture renders a body into a string (content blocks buffer their output).
func (r *renderer) capture(s *rstate, ns []Node) (string, Status) {
	saved := r.out
	var tmp []Seg
	r.out = &tmp
	st := r.block(s, ns, true)
	r.out = saved
	return Text(tmp), st
}

// EscapeHTML is the reference escaper. The spellings are those of the official implementation (&amp; &lt; &gt;
// &quot; &#39;, and &#0; for NUL): with content blocks the escaped text of one print is the data of the next,
// so the spelling of the inner level is visible in the output.
func EscapeHTML(s string) string {
	var b strings.Builder
	for i := 0; i < len(s); i++ {
		switch s[i] {
		case '&':
			b.WriteString("&amp;")
		case '<':
			b.WriteString("&lt;")
		case '>':
			b.WriteString("&gt;")
		case '"':
			b.WriteString("&quot;")
		case 0:
			b.WriteString("&#0;")
		case '\'':
			b.WriteString("&#39;")
		default:
			b.WriteByte(s[i])
		}
	}
	return b.String()
}

// Truncate is the language's truncate: at most n characters, "..." appended
// when requested and n > 3.
func Truncate(s string, n int, ellipsis bool) string {
	if utf8.RuneCountInString(s) <= n {
		return s
	}
	rs := []rune(s)
	if ellipsis && n > 3 {
		return string(rs[:n-3]) + "..."
	}
	return string(rs[:n])
}

func (r *renderer) node(s *rstate, n Node) Status {
	r.steps++
	if r.steps > r.opts.MaxSteps {
		return OOD
	}
	switch n := n.(type) {
	case *Raw:
		r.emit(n.Text, "text", "RawText")
	case *Special:
		r.emit(map[string]string{"sp": " ", "nil": "", `\n`: "\n", `\r`: "\r", `\t`: "\t", "lb": "{", "rb": "}"}[n.Name], "special", "Special")
	case *Literal:
		r.emit(n.Text, "literal", "Literal")
	case *Print:
		return r.print(s, n)
	case *If:
		for i, c := range n.Conds {
			v, st := Eval(c, s.env)
			if st != OK {
				return st
			}
			if v.Truthy() {
				return r.block(s, n.Bodies[i], true)
			}
		}
		if n.HasElse {
			return r.block(s, n.Else, true)
		}
	case *Switch:
		v, st := Eval(n.E, s.env)
		if st != OK {
			return st
		}
		for _, c := range n.Cases {
			for _, cv := range c.Vals {
				x, st := Eval(cv, s.env)
				if st != OK {
					return st
				}
				eq, st := Equal(v, x)
				if st != OK {
					return st
				}
				if eq {
					return r.block(s, c.Body, true)
				}
			}
		}
		if n.HasDef {
			return r.block(s, n.Default, true)
		}
	case *Foreach:
		l, st := Eval(n.List, s.env)
		if st != OK {
			return st
		}
		if l.K != KList {
			if l.K == KUndef || l.K == KNull {
				return Err
			}
			return OOD
		}
		if l.Unor && len(l.L) > 1 {
			return OOD
		}
		if len(l.L) == 0 {
			if n.HasEmpty {
				return r.block(s, n.IfEmpty, true)
			}
			return OK
		}
		for i, item := range l.L {
			s.env.Push()
			s.env.Set(n.Var, item)
			s.env.Loops = append(s.env.Loops, loopInfo{n.Var, i, len(l.L) - 1})
			st := r.block(s, n.Body, false)
			s.env.Loops = s.env.Loops[:len(s.env.Loops)-1]
			s.env.Pop()
			if st != OK {
				return st
			}
		}
	case *LetVal:
		v, st := Eval(n.E, s.env)
		if st != OK {
			return st
		}
		s.env.Set(n.Name, v)
	case *LetContent:
		txt, st := r.capture(s, n.Body)
		if st != OK {
			return st
		}
		s.env.Set(n.Name, Str(txt))
	case *CallT:
		return r.call(s, n)
	case *Css:
		prefix := ""
		if n.E != nil {
			v, st := Eval(n.E, s.env)
			if st != OK {
				return st
			}
			p, st := PrintVal(v)
			if st != OK {
				return st
			}
			prefix = p + "-"
		}
		r.emit(prefix+n.Suffix, "css", "Css")
	case *Log:
		_, st := r.capture(s, n.Body)
		return st
	case *Debugger:
	case *Msg:
		return r.msg(s, n)
	default:
		panic(fmt.Sprintf("render: %T", n))
	}
	return OK
}

// CancelsAutoescape lists the directives after which the value is not autoescaped.
var CancelsAutoescape = map[string]bool{
	"noAutoescape": true, "id": true, "escapeHtml": true, "escapeUri": true, "escapeJsString": true,
	"json": true, "changeNewlineToBr": true, "insertWordBreaks": true,
}

func (r *renderer) print(s *rstate, n *Print) Status {
	v, st := Eval(n.E, s.env)
	if st != OK {
		return st
	}
	txt, st := PrintVal(v)
	if st != OK {
		return st
	}
	escape := s.autoescape
	prov := "escaped"
	for _, d := range n.Dirs {
		args := make([]Value, len(d.Args))
		for i, a := range d.Args {
			x, st := Eval(a, s.env)
			if st != OK {
				return st
			}
			args[i] = x
		}
		switch d.Name {
		case "noAutoescape", "id":
		case "escapeHtml":
			txt = EscapeHTML(txt)
		case "truncate":
			if len(args) < 1 || len(args) > 2 || args[0].K != KInt || args[0].I < 0 {
				return OOD
			}
			ell := true
			if len(args) == 2 {
				if args[1].K != KBool {
					return OOD
				}
				ell = args[1].B
			}
			for i := 0; i < len(txt); i++ {
				if txt[i] >= 0x80 {
					return OOD // characters vs bytes vs UTF-16 units: C16/C04 deal with it
				}
			}
			txt = Truncate(txt, int(args[0].I), ell)
		case "changeNewlineToBr":
			if len(args) != 0 {
				return OOD
			}
			txt = strings.NewReplacer("\r\n", "<br>", "\r", "<br>", "\n", "<br>").Replace(EscapeHTML(txt))
		case "insertWordBreaks":
			if len(args) != 1 || args[0].K != KInt || args[0].I < 1 {
				return OOD
			}
			txt = EscapeHTML(txt)
			if r.opts.Notes != nil {
				r.opts.Notes.Wbr = true
			}
		default:
			return OOD // other directives have their own oracles (C16)
		}
		if CancelsAutoescape[d.Name] {
			escape = false
		}
	}
	if escape {
		r.emit(EscapeHTML(txt), prov, "Print")
	} else {
		r.emit(txt, "unescaped", "Print")
	}
	return OK
}

func (r *renderer) call(s *rstate, n *CallT) Status {
	cf, ct := r.b.Find(n.Target)
	if ct == nil {
		return OOD
	}
	var passed []map[string]Value
	switch {
	case n.DataAll:
		passed = append(passed, s.params...)
	case n.Data != nil:
		v, st := Eval(n.Data, s.env)
		if st != OK {
			return st
		}
		if v.K != KMap {
			if v.K == KUndef || v.K == KNull {
				return Err
			}
			return OOD
		}
		passed = append(passed, v.M)
	}
	explicit := map[string]Value{}
	for i := range n.Params {
		p := &n.Params[i]
		if p.IsContent {
			txt, st := r.capture(s, p.Content)
			if st != OK {
				return st
			}
			explicit[p.Name] = Str(txt)
		} else {
			v, st := Eval(p.E, s.env)
			if st != OK {
				return st
			}
			explicit[p.Name] = v
		}
	}
	passed = append(passed, explicit)
	return r.template(cf, ct, passed)
}

// msg renders a message, translated when a translation is supplied.
func (r *renderer) msg(s *rstate, m *Msg) Status {
	var tr *Translation
	if r.opts.Translate != nil {
		tr = r.opts.Translate(m)
	}
	if tr == nil {
		return r.msgBody(s, m.Body)
	}
	phName := r.opts.PhName
	if phName == nil {
		info := ModelMsg(m)
		phName = func(_ *Msg, child Node) string {
			if tg, ok := child.(*msgTag); ok {
				return info.TagNames[tg.text]
			}
			return info.Names[child]
		}
	}
	byName := map[string]Node{}
	var plural *Plural
	var collect func(ns []Node)
	collect = func(ns []Node) {
		for _, c := range ns {
			switch c := c.(type) {
			case *Plural:
				plural = c
				for _, pc := range c.Cases {
					collect(pc.Body)
				}
				collect(c.Default)
			case *Special:
			case *Raw:
				for _, piece := range SplitMsgText(c.Text) {
					if piece.Tag {
						tn := &msgTag{piece.Text}
						name := phName(m, tn)
						if _, dup := byName[name]; !dup {
							byName[name] = tn
						}
					}
				}
			default:
				name := phName(m, c)
				if _, dup := byName[name]; !dup {
					byName[name] = c
				}
			}
		}
	}
	collect(m.Body)
	parts := tr.Parts
	if tr.Plural != nil {
		if plural == nil {
			return OOD
		}
		v, st := Eval(plural.E, s.env)
		if st != OK {
			return st
		}
		if v.K != KInt {
			return OOD
		}
		idx := r.opts.PluralIndex(int(v.I))
		if idx < 0 || idx >= len(tr.Plural) {
			return OOD
		}
		parts = tr.Plural[idx]
	}
	for _, p := range parts {
		if p.Ph == "" {
			r.emit(p.Text, "msgtext", "MsgText")
			continue
		}
		c, ok := byName[p.Ph]
		if !ok {
			return OOD
		}
		if tg, isTag := c.(*msgTag); isTag {
			r.emit(tg.text, "msgtag", "MsgHtmlTag")
			continue
		}
		if st := r.node(s, c); st != OK {
			return st
		}
	}
	return OK
}

type msgTag struct{ text string }

// MsgPiece is a run of message text or one html tag inside it.
type MsgPiece struct {
	Text string
	Tag  bool
}

// SplitMsgText splits message raw text into text runs and html tags
// (</?[a-zA-Z0-9]+[^>]*?>), the way message placeholders are defined.
func SplitMsgText(s string) []MsgPiece {
	var out []MsgPiece
	i := 0
	start := 0
	for i < len(s) {
		if s[i] == '<' {
			j := i + 1
			if j < len(s) && s[j] == '/' {
				j++
			}
			k := j
			for k < len(s) && isAlnum(s[k]) {
				k++
			}
			if k > j {
				// non-greedy [^>]*? then '>'
				e := k
				for e < len(s) && s[e] != '>' {
					e++
				}
				if e < len(s) {
					if i > start {
						out = append(out, MsgPiece{s[start:i], false})
					}
					out = append(out, MsgPiece{s[i : e+1], true})
					i = e + 1
					start = i
					continue
				}
			}
		}
		i++
	}
	if start < len(s) {
		out = append(out, MsgPiece{s[start:], false})
	}
	return out
}

func isAlnum(c byte) bool {
	return c >= '0' && c <= '9' || c >= 'a' && c <= 'z' || c >= 'A' && c <= 'Z'
}

func (r *renderer) msgBody(s *rstate, ns []Node) Status {
	for _, c := range ns {
		switch c := c.(type) {
		case *Raw:
			for _, piece := range SplitMsgText(c.Text) {
				if piece.Tag {
					r.emit(piece.Text, "msgtag", "MsgHtmlTag")
				} else {
					r.emit(piece.Text, "msgtext", "MsgText")
				}
			}
		case *Plural:
			v, st := Eval(c.E, s.env)
			if st != OK {
				return st
			}
			if v.K != KInt {
				if v.K == KUndef {
					return Err
				}
				return OOD
			}
			done := false
			for _, pc := range c.Cases {
				if int64(pc.N) == v.I {
					if st := r.msgBody(s, pc.Body); st != OK {
						return st
					}
					done = true
					break
				}
			}
			if !done {
				if st := r.msgBody(s, c.Default); st != OK {
					return st
				}
			}
		default:
			if st := r.node(s, c); st != OK {
				return st
			}
		}
	}
	return OK
}

// NormalizeRefs rewrites every spelling of the five special character
// references to the canonical one, so outputs can be compared modulo spelling.
func NormalizeRefs(s string) string {
	if !strings.Contains(s, "&") {
		return s
	}
	return strings.NewReplacer(
		"&#34;", "&quot;", "&#x22;", "&quot;", "&#X22;", "&quot;", "&#034;", "&quot;",
		"&apos;", "&#39;", "&#x27;", "&#39;", "&#X27;", "&#39;", "&#039;", "&#39;",
		"&#38;", "&amp;", "&#x26;", "&amp;", "&#60;", "&lt;", "&#x3c;", "&lt;", "&#x3C;", "&lt;",
		"&#62;", "&gt;", "&#x3e;", "&gt;", "&#x3E;", "&gt;",
	).Replace(s)
}
